------------------------------ MODULE CleanDir ------------------------------
(* codegen/utils.CleanTargetDir: which files and directories regeneration removes.                                *)
(*                                                                                                                *)
(* A directory is a function from entry names to entries; an entry is a file kind ("G" generated file, "M" the    *)
(* generator's manifest, "U" hand-written .go file, "O" any other file) or, for a directory name, a directory.     *)
(* In the model-checking pool a file's name is its kind and directory names are "d1", "d2"; traces carry real     *)
(* names with the kind attached.                                                                                  *)
(*                                                                                                                *)
(* Clean is OPERATIONAL: the code's recursion (remove the manifest, list, recurse into directories through the     *)
(* public entry point, remove files with the generated suffix, list again, remove the directory if empty, "."      *)
(* exempt).  Expected is DECLARATIVE: every file the generator does not own survives, every file it owns is gone,  *)
(* and a directory survives iff a surviving file lies below it.  TLC checks Clean = Expected, idempotence, and     *)
(* that non-owned files are never touched, over every tree of the bound.                                           *)
EXTENDS Integers, Sequences, FiniteSets, TLC

CONSTANTS MaxDepth,     \* nesting depth of directories (1 = target holds files only)
          MaxEntries,   \* entries per directory
          ExtraKinds    \* further kinds of non-owned entries in the pool ({} or {"L"})

\* "L": a symbolic link to a directory OUTSIDE the target that itself holds a generated file and a manifest of another
\* generator run: an entry the generator does not own, and not a directory of the tree (never followed)
FileNames == {"G", "M", "U", "O"} \cup ExtraKinds
DirNames == {"d1", "d2"}
Owned(k) == k \in {"G", "M"}

\* uniform entries: [k |-> kind, c |-> children]; files have no children, a directory's children is a function
\* from entry names to entries; Gone is the result of cleaning a directory that was removed (or a missing target)
File(k) == [k |-> k, c |-> <<>>]
Dir(c) == [k |-> "D", c |-> c]
Gone == [k |-> "X", c |-> <<>>]
IsDir(e) == e.k = "D"

RECURSIVE Trees(_)
Trees(d) ==     \* all directories of nesting depth <= d with at most MaxEntries entries each
  LET subs == IF d <= 1 THEN {} ELSE Trees(d - 1)
      doms == {D \in SUBSET (FileNames \cup (IF d <= 1 THEN {} ELSE DirNames)) : Cardinality(D) <= MaxEntries}
      files(D) == D \cap FileNames
      dirs(D) == D \cap DirNames
  IN UNION {{Dir([n \in D |-> IF n \in FileNames THEN File(n) ELSE g[n]]) : g \in [dirs(D) -> subs]} : D \in doms}

Restrict(f, S) == [x \in S |-> f[x]]

-----------------------------------------------------------------------------
(* OPERATIONAL *)
RECURSIVE CleanPublic(_, _)
\* CleanTargetDir(dir): dir exists.  isDot: the target is "." (never removed).  Returns the directory left, or Gone.
CleanPublic(dir, isDot) ==
  LET noMan == Restrict(dir.c, {n \in DOMAIN dir.c : dir.c[n].k # "M"})   \* os.Remove(targetDir/ManifestFile)
  IN IF DOMAIN noMan = {} THEN (IF isDot THEN Dir(noMan) ELSE Gone)  \* first listing empty
     ELSE LET cleaned == [n \in DOMAIN noMan |->
                            IF IsDir(noMan[n]) THEN CleanPublic(noMan[n], FALSE)   \* recursion through the public entry
                            ELSE IF noMan[n].k = "G" THEN Gone                     \* HasSuffix(name, ".gr.go")
                            ELSE noMan[n]]
              left == Restrict(cleaned, {n \in DOMAIN cleaned : cleaned[n] # Gone})
          IN IF DOMAIN left = {} THEN (IF isDot THEN Dir(left) ELSE Gone) ELSE Dir(left)

\* target that does not exist: nothing happens
Clean(target, isDot) == IF target = Gone THEN Gone ELSE CleanPublic(target, isDot)

-----------------------------------------------------------------------------
(* DECLARATIVE *)
RECURSIVE Files(_, _)
\* the set of <<path, kind>> of all files below dir
Files(dir, prefix) ==
  UNION {IF IsDir(dir.c[n]) THEN Files(dir.c[n], Append(prefix, n)) ELSE {<<Append(prefix, n), dir.c[n].k>>} : n \in DOMAIN dir.c}

RECURSIVE DirPaths(_, _)
DirPaths(dir, prefix) ==
  UNION {IF IsDir(dir.c[n]) THEN {Append(prefix, n)} \cup DirPaths(dir.c[n], Append(prefix, n)) ELSE {} : n \in DOMAIN dir.c}

IsPrefix(p, q) == Len(p) <= Len(q) /\ SubSeq(q, 1, Len(p)) = p

Surviving(dir) == {f \in Files(dir, <<>>) : ~Owned(f[2])}
ExpectedFiles(target) == IF target = Gone THEN {} ELSE Surviving(target)
ExpectedDirs(target) == IF target = Gone THEN {}
                        ELSE {d \in DirPaths(target, <<>>) : \E f \in Surviving(target) : IsPrefix(d, f[1])}
ExpectedTargetExists(target, isDot) == target # Gone /\ (isDot \/ Surviving(target) # {})

ResultFiles(r) == IF r = Gone THEN {} ELSE Files(r, <<>>)
ResultDirs(r) == IF r = Gone THEN {} ELSE DirPaths(r, <<>>)

-----------------------------------------------------------------------------
(* One state per (tree, isDot).  The tree is built in two steps (top-level names and first sub-directory in Init,  *)
(* second sub-directory in Next) only so that TLC's workers share the enumeration.                                 *)
VARIABLES target, isDot, built, top, sub1

TopDoms == {D \in SUBSET (FileNames \cup (IF MaxDepth <= 1 THEN {} ELSE DirNames)) : Cardinality(D) <= MaxEntries}
Subs == IF MaxDepth <= 1 THEN {} ELSE Trees(MaxDepth - 1)

Init == /\ isDot \in BOOLEAN
        /\ \/ built = TRUE /\ target = Gone /\ ~isDot /\ top = {} /\ sub1 = Gone       \* the target does not exist
           \/ /\ built = FALSE /\ target = Gone
              /\ top \in TopDoms
              /\ sub1 \in (IF "d1" \in top THEN Subs ELSE {Gone})
Next == /\ ~built /\ built' = TRUE
        /\ \E s2 \in (IF "d2" \in top THEN Subs ELSE {Gone}) :
              target' = Dir([n \in top |-> IF n \in FileNames THEN File(n) ELSE IF n = "d1" THEN sub1 ELSE s2])
        /\ UNCHANGED <<isDot, top, sub1>>
Spec == Init /\ [][Next]_<<target, isDot, built, top, sub1>>

CleanMatchesExpected ==
  built => LET r == Clean(target, isDot) IN
    /\ ResultFiles(r) = ExpectedFiles(target)
    /\ ResultDirs(r) = ExpectedDirs(target)
    /\ (r # Gone) = ExpectedTargetExists(target, isDot)

Idempotent == built => LET r == Clean(target, isDot) IN Clean(r, isDot) = r

\* nothing the generator does not own is ever removed, nothing it owns survives
UserFilesUntouched == built => \A f \in (IF target = Gone THEN {} ELSE Files(target, <<>>)) :
                         (~Owned(f[2])) <=> (f \in ResultFiles(Clean(target, isDot)))
=============================================================================
