--------------------------------- MODULE Url ---------------------------------
(* restli.Client.formatQueryUrl: request URL from the resolver's base URL, the encoded resource path and query.  *)
(*                                                                                                                *)
(* Paths are sequences of segments.  Context segments are drawn from: the root resource name ("root"), a name      *)
(* that merely starts with it ("rootx"), a proper prefix of it ("roo"), a name that ends with it ("xroot"), and    *)
(* an unrelated name ("ctx").  Resource paths start with the root segment and continue with keys / sub-resources;  *)
(* keys include the dot segments "." and "..", the empty key and a key with percent-escapes.                       *)
(*                                                                                                                *)
(* Expected is DECLARATIVE (the property): context path, minus a trailing root segment, followed by the resource   *)
(* path, byte for byte.  Oper transcribes the implementation.  OperLegacy transcribes the implementation as it     *)
(* was before the two repairs recorded in known_findings.json (first-index surgery, reference resolution with      *)
(* dot-segment removal): TLC refutes OperLegacy = Expected (cfg MC_Url_legacy, expected to fail), which is how     *)
(* both defects were found.                                                                                        *)
EXTENDS Integers, Sequences, FiniteSets, TLC

CONSTANTS CtxSegs, MaxCtx, ResourcePaths

Root == "root"
StartsWithRoot(s) == s \in {"root", "rootx"}      \* the substring "/root" matches at this segment

Front(s) == SubSeq(s, 1, Len(s) - 1)
Last(s) == s[Len(s)]

Contexts == UNION {[1..n -> CtxSegs] : n \in 0..MaxCtx}

\* the statement leaves contexts holding the root name as a complete non-final segment unspecified
Unspecified(ctx) == \E i \in 1..(Len(ctx) - 1) : ctx[i] = Root

-----------------------------------------------------------------------------
(* DECLARATIVE *)
ExpectedPath(ctx, rp) == (IF ctx # <<>> /\ Last(ctx) = Root THEN Front(ctx) ELSE ctx) \o rp

-----------------------------------------------------------------------------
(* OPERATIONAL: strip a trailing "/root" from the escaped context path, append the escaped resource path *)
OperPath(ctx, rp) == (IF ctx # <<>> /\ Last(ctx) = Root THEN Front(ctx) ELSE ctx) \o rp

(* OPERATIONAL, before the repairs *)
RECURSIVE RemoveDots(_, _)
RemoveDots(todo, acc) ==              \* RFC 3986 remove_dot_segments on segments, as url.ResolveReference does
  IF todo = <<>> THEN acc
  ELSE CASE Head(todo) = "."  -> RemoveDots(Tail(todo), acc)
         [] Head(todo) = ".." -> RemoveDots(Tail(todo), IF acc = <<>> THEN acc ELSE Front(acc))
         [] OTHER             -> RemoveDots(Tail(todo), Append(acc, Head(todo)))
LegacyStrip(ctx) ==
  LET idxs == {i \in DOMAIN ctx : StartsWithRoot(ctx[i])} IN
  IF idxs = {} THEN ctx
  ELSE LET i == CHOOSE j \in idxs : \A k \in idxs : j <= k IN     \* strings.Index: the FIRST occurrence only
       IF ctx[i] = Root THEN SubSeq(ctx, 1, i - 1) ELSE ctx
OperLegacyPath(ctx, rp) == RemoveDots(LegacyStrip(ctx) \o rp, <<>>)

-----------------------------------------------------------------------------
VARIABLES ctx, rp, slash, host, query
vars == <<ctx, rp, slash, host, query>>
Init == /\ ctx \in Contexts /\ rp \in ResourcePaths
        /\ slash \in BOOLEAN          \* base URL ends with "/"
        /\ host \in BOOLEAN           \* base URL has scheme and host
        /\ query \in {"none", "plain", "pct", "empty"}     \* empty: a query that is present but empty (the URL still ends in "?")
Next == UNCHANGED vars
Spec == Init /\ [][Next]_vars

PathAsSpecified == Unspecified(ctx) \/ OperPath(ctx, rp) = ExpectedPath(ctx, rp)
LegacyPathAsSpecified == Unspecified(ctx) \/ OperLegacyPath(ctx, rp) = ExpectedPath(ctx, rp)
RootExactlyOnce == Unspecified(ctx) \/
   Cardinality({i \in DOMAIN ExpectedPath(ctx, rp) : ExpectedPath(ctx, rp)[i] = Root}) =
   Cardinality({i \in DOMAIN rp : rp[i] = Root})
=============================================================================
