------------------------------ MODULE LazyMap ------------------------------
(* d2/lazymap.LazySyncMap, one action per atomic step.                      *)
(*                                                                          *)
(* The implementation is a sync.Map whose entries are either a final value  *)
(* or an in-flight placeholder carrying a WaitGroup.  Every label below is  *)
(* the name of the verif yield point that precedes the step in lazymap.go,  *)
(* so pc[p] is "the gate at which goroutine p is parked".                   *)
(*                                                                          *)
(* The program (which goroutine issues which operations on which keys) is   *)
(* chosen in Init, so one TLC run covers every program of the bound.        *)
EXTENDS Integers, Sequences, FiniteSets, TLC, SequencesExt

CONSTANTS NP,        \* goroutines 1..NP
          Keys,      \* map keys
          MaxOps,    \* operations per goroutine: 0..MaxOps
          OpTypes,   \* subset of {"los","load","store"}
          FixedLen   \* TRUE: every goroutine issues exactly MaxOps operations

Procs == 1..NP
Null  == 0
ValOf(p, i) == 10 * p + i          \* the value goroutine p supplies in its i-th operation; also the placeholder id
OpIds == {ValOf(p, i) : p \in Procs, i \in 1..MaxOps}

Op == [type : OpTypes, key : Keys]
Programs == IF FixedLen THEN [Procs -> [1..MaxOps -> Op]]
            ELSE [Procs -> UNION {[1..n -> Op] : n \in 0..MaxOps}]

Absent == [t |-> "absent", x |-> Null]
Ph(id) == [t |-> "ph", x |-> id]
Val(v) == [t |-> "val", x |-> v]

VARIABLES prog,      \* the program, fixed after Init
          ip,        \* ip[p]: index of p's current operation
          pc,        \* pc[p]: gate at which p is parked
          m,         \* the sync.Map: key -> Absent | Ph(id) | Val(v)
          ph,        \* placeholder id -> [done, v]   (the inFlightValue objects)
          loaded,    \* loaded[p]: entry p got back from the sync.Map
          stored,    \* stored[p]: Store's local flag
          computes,  \* key -> number of times a caller-supplied compute function ran
          did,       \* did[p]: p's current LoadOrStore ran its compute function
          hist       \* completed operations, in completion order

vars == <<prog, ip, pc, m, ph, loaded, stored, computes, did, hist>>

CurOp(p) == prog[p][ip[p]]
CurId(p) == ValOf(p, ip[p])
Finished(p) == ip[p] > Len(prog[p])
Terminated == \A p \in Procs : Finished(p)
DoneIds == {h.id : h \in {hist[j] : j \in 1..Len(hist)}}

Init ==
  /\ prog \in Programs
  /\ ip = [p \in Procs |-> 1]
  /\ pc = [p \in Procs |-> "call"]
  /\ m = [k \in Keys |-> Absent]
  /\ ph = [id \in OpIds |-> [done |-> FALSE, v |-> Null]]
  /\ loaded = [p \in Procs |-> Absent]
  /\ stored = [p \in Procs |-> FALSE]
  /\ computes = [k \in Keys |-> 0]
  /\ did = [p \in Procs |-> FALSE]
  /\ hist = <<>>

\* p's current operation returns (rv, ok)
Complete(p, rv, ok) ==
  /\ hist' = Append(hist, [id |-> CurId(p), p |-> p, type |-> CurOp(p).type, key |-> CurOp(p).key,
                           arg |-> CurId(p), rv |-> rv, ok |-> ok, did |-> did[p],
                           before |-> loaded[p].b])
  /\ ip' = [ip EXCEPT ![p] = @ + 1]
  /\ pc' = [pc EXCEPT ![p] = "call"]
  /\ loaded' = [loaded EXCEPT ![p] = Absent]
  /\ stored' = [stored EXCEPT ![p] = FALSE]
  /\ did' = [did EXCEPT ![p] = FALSE]

\* invocation: remember which operations had completed (real-time order)
Call(p) ==
  /\ pc[p] = "call" /\ ~Finished(p)
  /\ pc' = [pc EXCEPT ![p] = IF CurOp(p).type = "load" THEN "load_get" ELSE "los_try"]
  /\ loaded' = [loaded EXCEPT ![p] = [t |-> "absent", x |-> Null, b |-> DoneIds]]
  /\ UNCHANGED <<prog, ip, m, ph, stored, computes, did, hist>>

\* what happens when LoadOrStore's own part is over without having won
LosLoadedReturn(p, rv) ==
  IF CurOp(p).type = "los"
  THEN Complete(p, rv, TRUE) /\ UNCHANGED <<prog, m, ph, computes>>
  ELSE \* Store: the inner LoadOrStore returned, stored = FALSE, so the overwrite follows
       /\ pc' = [pc EXCEPT ![p] = "store_over"]
       /\ UNCHANGED <<prog, ip, m, ph, loaded, stored, computes, did, hist>>

\* sync.Map.LoadOrStore(key, placeholder)
LosTry(p) ==
  /\ pc[p] = "los_try"
  /\ LET k == CurOp(p).key IN
     CASE m[k].t = "absent" ->
            /\ m' = [m EXCEPT ![k] = Ph(CurId(p))]
            /\ pc' = [pc EXCEPT ![p] = "los_compute"]
            /\ UNCHANGED <<prog, ip, ph, loaded, stored, computes, did, hist>>
       [] m[k].t = "ph" ->
            /\ loaded' = [loaded EXCEPT ![p] = [t |-> "ph", x |-> m[k].x, b |-> loaded[p].b]]
            /\ pc' = [pc EXCEPT ![p] = "los_wait"]
            /\ UNCHANGED <<prog, ip, m, ph, stored, computes, did, hist>>
       [] m[k].t = "val" -> LosLoadedReturn(p, m[k].x)

\* v.wg.Wait(); return v.v     -- enabled only once the placeholder is done
LosWait(p) ==
  /\ pc[p] = "los_wait"
  /\ ph[loaded[p].x].done
  /\ LosLoadedReturn(p, ph[loaded[p].x].v)

\* value.v = f()
LosCompute(p) ==
  /\ pc[p] = "los_compute"
  /\ ph' = [ph EXCEPT ![CurId(p)].v = CurId(p)]
  /\ IF CurOp(p).type = "los"
     THEN /\ computes' = [computes EXCEPT ![CurOp(p).key] = @ + 1]
          /\ did' = [did EXCEPT ![p] = TRUE]
          /\ UNCHANGED stored
     ELSE /\ stored' = [stored EXCEPT ![p] = TRUE]
          /\ UNCHANGED <<computes, did>>
  /\ pc' = [pc EXCEPT ![p] = "los_store"]
  /\ UNCHANGED <<prog, ip, m, loaded, hist>>

\* sync.Map.Store(key, value.v)
LosStore(p) ==
  /\ pc[p] = "los_store"
  /\ m' = [m EXCEPT ![CurOp(p).key] = Val(ph[CurId(p)].v)]
  /\ pc' = [pc EXCEPT ![p] = "los_done"]
  /\ UNCHANGED <<prog, ip, ph, loaded, stored, computes, did, hist>>

\* value.wg.Done()
LosDone(p) ==
  /\ pc[p] = "los_done"
  /\ ph' = [ph EXCEPT ![CurId(p)].done = TRUE]
  /\ pc' = [pc EXCEPT ![p] = "los_ret"]
  /\ UNCHANGED <<prog, ip, m, loaded, stored, computes, did, hist>>

\* return value.v  (for Store: stored = TRUE, nothing more to do)
LosRet(p) ==
  /\ pc[p] = "los_ret"
  /\ Complete(p, ph[CurId(p)].v, TRUE)
  /\ UNCHANGED <<prog, m, ph, computes>>

\* if !stored { sync.Map.Store(key, value) }
StoreOver(p) ==
  /\ pc[p] = "store_over"
  /\ m' = [m EXCEPT ![CurOp(p).key] = Val(CurId(p))]
  /\ Complete(p, CurId(p), TRUE)
  /\ UNCHANGED <<prog, ph, computes>>

\* sync.Map.Load(key)
LoadGet(p) ==
  /\ pc[p] = "load_get"
  /\ LET k == CurOp(p).key IN
     CASE m[k].t = "absent" -> Complete(p, Null, FALSE) /\ UNCHANGED <<prog, m, ph, computes>>
       [] m[k].t = "val"    -> Complete(p, m[k].x, TRUE) /\ UNCHANGED <<prog, m, ph, computes>>
       [] m[k].t = "ph"     ->
            /\ loaded' = [loaded EXCEPT ![p] = [t |-> "ph", x |-> m[k].x, b |-> loaded[p].b]]
            /\ pc' = [pc EXCEPT ![p] = "load_wait"]
            /\ UNCHANGED <<prog, ip, m, ph, stored, computes, did, hist>>

LoadWait(p) ==
  /\ pc[p] = "load_wait"
  /\ ph[loaded[p].x].done
  /\ Complete(p, ph[loaded[p].x].v, TRUE)
  /\ UNCHANGED <<prog, m, ph, computes>>

Step(p) == \/ Call(p) \/ LosTry(p) \/ LosWait(p) \/ LosCompute(p) \/ LosStore(p) \/ LosDone(p)
           \/ LosRet(p) \/ StoreOver(p) \/ LoadGet(p) \/ LoadWait(p)

Idle == Terminated /\ UNCHANGED vars     \* so that TLC's deadlock check means a real deadlock

Next == (\E p \in Procs : Step(p)) \/ Idle

Spec == Init /\ [][Next]_vars
FairSpec == Spec /\ \A p \in Procs : WF_vars(Step(p))

-----------------------------------------------------------------------------
(* Properties *)

TypeOK ==
  /\ \A k \in Keys : m[k].t \in {"absent", "ph", "val"}
  /\ \A p \in Procs : pc[p] \in {"call", "los_try", "los_wait", "los_compute", "los_store", "los_done",
                                   "los_ret", "store_over", "load_get", "load_wait"}

\* the compute function of a key runs at most once
ComputeAtMostOnce == \A k \in Keys : computes[k] <= 1

\* no operation ever returns a placeholder: returned values are supplied values (or Null for a failed Load)
NoPlaceholderVisible ==
  \A j \in 1..Len(hist) : LET h == hist[j] IN
     /\ h.ok => h.rv \in OpIds
     /\ ~h.ok => (h.type = "load" /\ h.rv = Null)

\* a waiter is never parked at a wait gate whose placeholder is done forever: the wait step is enabled
\* exactly when done holds (the spec's enabling condition); stated as an invariant over the state
NoBlockAfterDone ==
  \A p \in Procs : (pc[p] \in {"los_wait", "load_wait"} /\ ph[loaded[p].x].done) => ENABLED Step(p)

\* a placeholder is done only after its value has been published in the map (Store before Done)
PublishedBeforeDone ==
  \A id \in OpIds : ph[id].done => ph[id].v # Null

\* an undone placeholder in the map always has a live owner who will finish it
PlaceholderHasOwner ==
  \A k \in Keys : m[k].t = "ph" =>
     \E p \in Procs : ~Finished(p) /\ CurId(p) = m[k].x /\ CurOp(p).key = k
                      /\ pc[p] \in {"los_compute", "los_store"}

(* Linearizability with respect to an atomic map offering compute-if-absent, evaluated in terminal states:
   there is a total order of the completed operations that respects real-time order and is legal. *)
ApplyOp(st, h) ==   \* st: [Keys -> value or Null]; returns [st, ok] where ok says h's results are the sequential ones
  CASE h.type = "los" ->
         IF st[h.key] = Null
         THEN [st |-> [st EXCEPT ![h.key] = h.arg], ok |-> (h.rv = h.arg /\ h.did)]
         ELSE [st |-> st, ok |-> (h.rv = st[h.key] /\ ~h.did)]
    [] h.type = "load" ->
         [st |-> st, ok |-> IF st[h.key] = Null THEN (~h.ok /\ h.rv = Null) ELSE (h.ok /\ h.rv = st[h.key])]
    [] h.type = "store" ->
         [st |-> [st EXCEPT ![h.key] = h.arg], ok |-> TRUE]

RECURSIVE LegalFrom(_, _, _)
LegalFrom(st, s, j) ==
  IF j > Len(s) THEN \A k \in Keys : (m[k].t = "val" /\ m[k].x = st[k]) \/ (m[k].t = "absent" /\ st[k] = Null)
  ELSE LET r == ApplyOp(st, s[j]) IN r.ok /\ LegalFrom(r.st, s, j + 1)

RespectsRT(s) == \A i, j \in 1..Len(s) : (s[i].id \in s[j].before) => i < j

Linearizable ==
  Terminated =>
    \E s \in SetToSeqs({hist[j] : j \in 1..Len(hist)}) :
       RespectsRT(s) /\ LegalFrom([k \in Keys |-> Null], s, 1)

\* all racers on one in-flight computation return the same value: every LoadOrStore on k that did not compute
\* returns a value that was, at some point, the published value of k -- subsumed by Linearizable; stated directly
\* for the common case of a program with only LoadOrStore operations on k
RacersAgree ==
  Terminated =>
    \A k \in Keys :
      LET hs == {hist[j] : j \in 1..Len(hist)}
          onk == {h \in hs : h.key = k}
      IN (\A h \in onk : h.type = "los") => \A a, b \in onk : a.rv = b.rv

\* every operation completes (checked under FairSpec)
Termination == <>[]Terminated
=============================================================================
