------------------------------- MODULE Writer -------------------------------
(* The v2 writer's WriteMap (restlicodec/writer.go), BuildQueryParams (query_writer.go) and the batch key set's ids   *)
(* parameter (batchkeyset/set.go): entries are SUPPLIED by the caller in any order (Go map iteration, parameter       *)
(* order, key order), each is buffered in its own sub-buffer, and EMITTED in ascending byte order of the key.         *)
(*                                                                                                                  *)
(* Keys are sequences of byte ranks (1 < 2 < 3 ...: the harness maps ranks to bytes of increasing value, including     *)
(* upper case before lower case and a non-ASCII byte), compared lexicographically, so "a" < "aa" and "B" < "a".        *)
EXTENDS Integers, Sequences, FiniteSets, TLC

CONSTANTS KeyPool, MaxKeys

RECURSIVE Less(_, _)
Less(a, b) == IF a = <<>> THEN b # <<>>
              ELSE IF b = <<>> THEN FALSE
              ELSE IF a[1] # b[1] THEN a[1] < b[1] ELSE Less(Tail(a), Tail(b))

RECURSIVE SortedSeq(_)
SortedSeq(S) == IF S = {} THEN <<>>
                ELSE LET m == CHOOSE x \in S : \A y \in S \ {x} : Less(x, y) IN <<m>> \o SortedSeq(S \ {m})

VARIABLES keys, pending, supplied, emitted, pc
vars == <<keys, pending, supplied, emitted, pc>>

Init == /\ keys \in {K \in SUBSET KeyPool : Cardinality(K) \in 1..MaxKeys}
        /\ pending = keys /\ supplied = <<>> /\ emitted = <<>> /\ pc = "supply"

\* the caller's callback hands over one entry (any order)
Supply(k) == /\ pc = "supply" /\ k \in pending
             /\ pending' = pending \ {k}
             /\ supplied' = Append(supplied, k)
             /\ UNCHANGED <<keys, emitted, pc>>

\* all entries buffered: sort.Slice by key, then emit
Emit == /\ pc = "supply" /\ pending = {}
        /\ emitted' = SortedSeq({supplied[i] : i \in DOMAIN supplied})
        /\ pc' = "done"
        /\ UNCHANGED <<keys, pending, supplied>>

Next == (\E k \in KeyPool : Supply(k)) \/ Emit \/ (pc = "done" /\ UNCHANGED vars)
Spec == Init /\ [][Next]_vars

\* the emitted order is a function of the key SET only, and ascends
Canonical == pc = "done" => emitted = SortedSeq(keys)
Ascending == pc = "done" => \A i \in 1..(Len(emitted) - 1) : Less(emitted[i], emitted[i + 1])
NothingLost == pc = "done" => Len(emitted) = Cardinality(keys)
=============================================================================
