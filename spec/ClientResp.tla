----------------------------- MODULE ClientResp -----------------------------
(* What a go-restli CLIENT makes of an HTTP response (restli/http.go Do / do / DoAndUnmarshal, restli/errors.go          *)
(* IsErrorResponse, restli/collection.go unmarshalReturnEntityKey), for any peer -- not only a go-restli server.        *)
(*                                                                                                                  *)
(* A response is abstracted to the facts the client looks at: status class, the X-RestLi-Error-Response header, the    *)
(* protocol-version header, what the body is, the X-RestLi-Id header, and how the client is configured (strict or        *)
(* lenient) and which kind of call it made (expects an entity, expects nothing, expects a created key).                 *)
(*                                                                                                                  *)
(* Outcome is DECLARATIVE: a priority list of rules in the words of the API documentation.  Handle is OPERATIONAL: the   *)
(* code's sequence of steps with its early returns.  TLC checks that they agree on every response of the alphabet and   *)
(* exports the table; harness/clientresp replays every row against the real client with a canned transport.            *)
EXTENDS Naturals, Sequences, FiniteSets, TLC

StatusClasses == {"2xx", "3xx", "4xx", "5xx"}
ErrHdrs  == {"absent", "true", "TRUE", "false", "other"}          \* value of X-RestLi-Error-Response
Protos   == {"2.0.0", "absent", "other"}                          \* value of X-RestLi-Protocol-Version
\* bodies: a complete entity, an entity lacking a required field, an error-response document with / without a status of
\* its own, text that is not JSON, nothing
Bodies   == {"entity", "partial", "error_with_status", "error_no_status", "garbage", "empty"}
IdHdrs   == {"absent", "key", "malformed"}                        \* X-RestLi-Id
Kinds    == {"entity", "void", "created"}                        \* what the call expects back

Responses == [sc : StatusClasses, eh : ErrHdrs, pv : Protos, body : Bodies, id : IdHdrs, kind : Kinds, strict : BOOLEAN]

IsErrorFlag(eh) == eh \in {"true", "TRUE"}                         \* the header is compared case-insensitively with "true"
\* read as the entity the call expects (one required field), an error document is a JSON object that lacks that field
LacksRequired(body) == body \in {"partial", "error_with_status", "error_no_status"}

\* ---------------------------------------------------------------------------------------------- declarative
\* 1. a response flagged as a Rest.li error is delivered as a restli.Error whatever else it says; its status is the one
\*    the document carries, else the HTTP status; a body that is no error document is reported inside that error
\* 2. any other response outside 2xx is an UnexpectedStatusCodeError
\* 3. a 2xx response that does not speak protocol 2.0.0 is refused
\* 4. then the body: calls expecting nothing ignore it; calls expecting an entity decode it -- a lenient client accepts an
\*    entity that merely lacks required fields, a strict one reports them; undecodable text is an error
\* 5. a create needs the key in X-RestLi-Id
Outcome(r) ==
  IF IsErrorFlag(r.eh) THEN
       [o |-> "restli_error",
        status |-> IF r.body = "error_with_status" THEN "body" ELSE "http",
        decoded |-> r.body \in {"error_with_status", "error_no_status", "entity", "partial"}]   \* any JSON object decodes as an error document
  ELSE IF r.sc # "2xx" THEN [o |-> "unexpected_status"]
  ELSE IF r.pv # "2.0.0" THEN [o |-> "unsupported_protocol"]
  ELSE CASE r.kind = "void" -> [o |-> "ok"]
         [] r.kind = "entity" ->
              (CASE r.body = "entity" -> [o |-> "ok"]
                 [] LacksRequired(r.body) -> IF r.strict THEN [o |-> "missing_fields"] ELSE [o |-> "ok"]
                 [] OTHER -> [o |-> "decode_error"])
         [] r.kind = "created" ->
              (CASE r.id = "key" -> [o |-> "ok"]
                 [] r.id = "malformed" -> [o |-> "decode_error"]
                 [] OTHER -> [o |-> "no_id_header"])

\* ---------------------------------------------------------------------------------------------- operational
\* Client.Do: IsErrorResponse first (header, then status); do: protocol version, read body; DoAndUnmarshal: decode;
\* DoAndIgnore + unmarshalReturnEntityKey for creates
IsErrorResponseStep(r) ==
  IF IsErrorFlag(r.eh)
  THEN [stop |-> TRUE, out |-> [o |-> "restli_error",
                                status |-> IF r.body = "error_with_status" THEN "body" ELSE "http",
                                decoded |-> r.body \notin {"garbage", "empty"}]]
  ELSE IF r.sc # "2xx" THEN [stop |-> TRUE, out |-> [o |-> "unexpected_status"]]
  ELSE [stop |-> FALSE, out |-> [o |-> "ok"]]

DoStep(r) ==
  LET e == IsErrorResponseStep(r) IN
  IF e.stop THEN e
  ELSE IF r.pv # "2.0.0" THEN [stop |-> TRUE, out |-> [o |-> "unsupported_protocol"]]
  ELSE [stop |-> FALSE, out |-> [o |-> "ok"]]

Decode(r) ==
  CASE r.body \in {"garbage", "empty"} -> [o |-> "decode_error"]
    [] r.body # "entity" -> IF r.strict THEN [o |-> "missing_fields"] ELSE [o |-> "ok"]      \* MissingRequiredFieldsError dropped unless strict
    [] OTHER -> [o |-> "ok"]

Handle(r) ==
  LET d == DoStep(r) IN
  IF d.stop THEN d.out
  ELSE CASE r.kind = "entity" -> Decode(r)
         [] r.kind = "void" -> [o |-> "ok"]
         [] r.kind = "created" -> (CASE r.id = "key" -> [o |-> "ok"] [] r.id = "malformed" -> [o |-> "decode_error"] [] OTHER -> [o |-> "no_id_header"])

\* ---------------------------------------------------------------------------------------------- properties
Agree == \A r \in Responses : Handle(r) = Outcome(r)
\* a response flagged as an error is never a success, whatever its status line says
FlaggedNeverOk == \A r \in Responses : IsErrorFlag(r.eh) => Outcome(r).o = "restli_error"
\* nothing outside 2xx is ever a success
OnlySuccessStatusSucceeds == \A r \in Responses : Outcome(r).o = "ok" => r.sc = "2xx" /\ ~IsErrorFlag(r.eh) /\ r.pv = "2.0.0"
\* strictness matters only for entities that lack required fields
StrictnessOnlyForPartial == \A r \in Responses : ~LacksRequired(r.body) => Outcome(r) = Outcome([r EXCEPT !.strict = ~r.strict])
=============================================================================
