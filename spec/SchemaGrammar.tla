---------------------------- MODULE SchemaGrammar ----------------------------
(* The schema / resource grammar the generator accepts (v2/cmd/json.go, codegen/types, codegen/resources), as the      *)
(* finite sets C12 quantifies over: every type constructor in every position it may take, every method kind on every    *)
(* resource kind and key type.  The declarative claim is one line -- for every well-formed item, generation succeeds,   *)
(* is byte-identical across processes and the output compiles -- so this module's job is to DEFINE well-formedness and  *)
(* to let TLC enumerate the items; run/props/c12.py packs them into manifests for the real generator.                  *)
EXTENDS Integers, Sequences, FiniteSets, TLC

Prims  == {"int32", "int64", "float32", "float64", "bool", "string", "bytes"}
Named  == {"enum", "fixed", "typeref", "custom", "record", "union"}     \* references to one named type of each kind
\* the same kinds of named types defined in ANOTHER namespace (another Go package: qualified references, imports)
NamedOther == {"o_enum", "o_fixed", "o_typeref", "o_record", "o_union"}
Leaves == Prims \cup Named \cup NamedOther \cup {"raw"}
Ctors  == {"array", "map"}

\* a type expression is a sequence of constructors ending in a leaf: <<"map", "array", "string">> is map[array[string]]
Exprs(depth) == UNION {{cs \o <<l>> : cs \in [1..n -> Ctors], l \in Leaves} : n \in 0..depth}
Leaf(e) == e[Len(e)]

Modes == {"req", "opt", "def", "optdef"}
\* the class of a default literal: an ordinary one; an extreme one (type minima, escapes and non-ASCII text, bytes >= 0x80
\* in bytes / fixed, the last enum symbol, the last union member, two-entry containers); an empty container
Lits == {"plain", "extreme", "empty"}
Positions == {"field", "included", "member", "actparam", "actret", "finderparam", "findermeta", "entity"}

\* what Rest.li / Pegasus allow where
WellFormed(e, m, pos, lit) ==
  /\ m \notin {"def", "optdef"} => lit = "plain"                    \* no default, no literal
  /\ lit = "empty" => Len(e) > 1                                    \* only containers can be empty
  /\ Leaf(e) = "raw" => (pos = "field" /\ m \in {"req", "opt"})       \* untyped records only as plain record fields
  /\ pos = "member" => (m = "req" /\ e # <<"union">> /\ e # <<"o_union">>)   \* no union directly inside a union
  /\ pos \in {"actret", "findermeta", "entity"} => m = "req"
  /\ pos \in {"findermeta", "entity"} => e \in {<<"record">>, <<"o_record">>}   \* metadata and entities are records
  /\ pos = "finderparam" => m \in {"req", "opt", "def"}
  /\ pos = "actparam" => m \in {"req", "opt", "def"}

Items(depth) == {it \in [e : Exprs(depth), m : Modes, pos : Positions, lit : Lits] : WellFormed(it.e, it.m, it.pos, it.lit)}

\* ------------------------------------------------------------------------------------------------ resources
Kinds == {"collection", "simple", "actionsSet", "subCollection", "subSimple"}
\* Rest.li admits as collection keys: string, boolean, integer, long, an enum, a typeref / custom type over those, and
\* complex (record) keys.  bytes, fixed and floating-point keys are not part of the protocol (and are not enumerated).
KeyTypes == {"int32", "int64", "string", "bool", "typeref", "enum", "custom", "complex"}
Rest == {"get", "create", "delete", "update", "partial_update", "batch_get", "batch_create", "batch_delete",
         "batch_update", "batch_partial_update", "get_all"}
\* (finder_late: a finder whose declared parameters sort AFTER the reserved q; *_params: a rest method that declares query
\*  parameters of its own, sorting before and after the reserved ids / only before it)
Extra == {"finder", "finder_paged", "finder_meta", "action", "action_entity", "action_void",
          "create_ret", "batch_create_ret", "partial_update_ret", "get_all_paged",
          "finder_late", "get_params", "batch_get_params", "batch_update_params"}
IsColl(k) == k \in {"collection", "subCollection"}
Allowed(k) ==
  CASE IsColl(k) -> Rest \cup Extra
    [] k \in {"simple", "subSimple"} -> {"get", "update", "partial_update", "delete", "action", "action_void", "partial_update_ret", "get_params"}
    [] OTHER -> {"action", "action_void"}
\* the REST method an Extra variant stands for (at most one variant of a method in one resource)
Base(mt) == CASE mt = "create_ret" -> "create" [] mt = "batch_create_ret" -> "batch_create"
              [] mt = "partial_update_ret" -> "partial_update" [] mt = "get_all_paged" -> "get_all"
              [] mt = "get_params" -> "get" [] mt = "batch_get_params" -> "batch_get" [] mt = "batch_update_params" -> "batch_update"
              [] OTHER -> mt
Consistent(ms) == \A a, b \in ms : Base(a) = Base(b) => a = b
\* method sets explored: every single method, everything at once (plain variants), everything at once (variants)
MethodSets(k) == {{mt} : mt \in Allowed(k)} \cup {Allowed(k) \cap (Rest \cup {"finder", "finder_paged", "finder_meta", "action", "action_entity", "action_void"})}
                 \cup {{mt \in Allowed(k) : Base(mt) = mt => ~\E o \in Allowed(k) : o # mt /\ Base(o) = mt}}
Resources == UNION {{[kind |-> k, key |-> ky, methods |-> ms] : ky \in (IF IsColl(k) THEN KeyTypes ELSE {"none"}), ms \in MethodSets(k)} : k \in Kinds}
ASSUME \A k \in Kinds : \A ms \in MethodSets(k) : Consistent(ms) /\ ms # {}
\* every constructor and every leaf occurs in every position the grammar admits for it (no vacuous enumeration)
ASSUME \A pos \in Positions \ {"findermeta", "entity"} : \A l \in Leaves \ {"raw"} : \A c \in Ctors :
          \E it \in Items(2) : it.pos = pos /\ Leaf(it.e) = l /\ it.e[1] = c
=============================================================================
