-------------------------------- MODULE Wire --------------------------------
(* Reference wire formats of Rest.li protocol 2.0, written from the protocol documentation and RFC 3986 and        *)
(* sharing nothing with the library.                                                                               *)
(*                                                                                                                *)
(* JsonTree(av): the JSON document an abstract value denotes, as a tree                                             *)
(*    [j |-> "obj", v |-> <<[k |-> tokens, v |-> tree]...>>] | [j |-> "arr", v |-> <<tree...>>] |                    *)
(*    [j |-> "str", v |-> tokens] | [j |-> "num", p, v |-> atom] | [j |-> "bool", v] | [j |-> "null"]               *)
(* (bytes / fixed: one code point per byte; enums: the symbol; NaN and the infinities: the three reserved strings;  *)
(*  unions: an object with the member alias as only key, null for the null member).                                 *)
(*                                                                                                                *)
(* EncRor2(ctx, tree): the ROR2 encoding as a sequence of wire tokens [c |-> character token, d |-> TRUE iff it is  *)
(* a structural delimiter]; data characters that are reserved in the context are percent-encoded, which the token   *)
(* records as d = FALSE (a data character never is a delimiter).  ParseRor2 is the reference parser back to a tree. *)
EXTENDS Values

\* ---------------------------------------------------------------------------- JSON
FieldNameTokens(name) == << name >>        \* a field name / alias / symbol is one opaque token
RECURSIVE JsonTree(_)
JsonTree(av) ==
  CASE av.t = "num"  -> IF av.v \in {"NaN", "+Inf", "-Inf"}
                        THEN [j |-> "str", v |-> << CASE av.v = "NaN" -> "NaN" [] av.v = "+Inf" -> "Infinity" [] OTHER -> "-Infinity" >>]
                        ELSE [j |-> "num", p |-> av.p, v |-> av.v]
    [] av.t = "bool" -> [j |-> "bool", v |-> av.v]
    [] av.t = "str" -> [j |-> "str", v |-> av.v]
    [] av.t \in {"bytes", "fixed"} -> [j |-> "str", v |-> av.v, b |-> TRUE]      \* b: one code point per byte
    [] av.t = "enum" -> [j |-> "str", v |-> << av.v >>]
    [] av.t = "rec"  -> [j |-> "obj", r |-> TRUE, v |-> [i \in DOMAIN av.v |-> [k |-> FieldNameTokens(av.v[i].k), v |-> JsonTree(av.v[i].v)]]]   \* r: a record (tolerates unknown fields)
    [] av.t = "map"  -> [j |-> "obj", v |-> [i \in DOMAIN av.v |-> [k |-> av.v[i].k, v |-> JsonTree(av.v[i].v)]]]
    [] av.t = "arr"  -> [j |-> "arr", v |-> [i \in DOMAIN av.v |-> JsonTree(av.v[i])]]
    [] av.t = "union" -> [j |-> "obj", v |-> << [k |-> FieldNameTokens(av.a), v |-> JsonTree(av.v)] >>]
    [] av.t = "null" -> [j |-> "null"]

\* ---------------------------------------------------------------------------- ROR2
Contexts == {"header", "path", "query"}
Delims == {"(", ")", ",", ":", "'"}
\* characters that must not appear literally in data in a context (they are percent-encoded): the ROR2 delimiters and
\* the percent sign everywhere; in URL contexts additionally everything RFC 3986 does not allow literally there
Reserved(ctx) == Delims \cup {"%"} \cup
  (IF ctx = "header" THEN {}
   ELSE {" ", "\"", "\\", "#", "uni", "hi", "ctl", "<", ">", "[", "]", "{", "}", "|", "^", "`"}
        \cup (IF ctx = "path" THEN {"/", "?"} ELSE {"&", "=", "+"}))
IsByteTok(tok) == tok \in {"x00", "x01", "x0A", "x0D", "x1F", "x7F"}
MustEscape(ctx, tok) == tok \in Reserved(ctx) \/ (ctx # "header" /\ IsByteTok(tok))

D(c) == [c |-> c, d |-> TRUE]          \* delimiter
C(c) == [c |-> c, d |-> FALSE]         \* data character (escaped or not: the lexer reports which, legality is checked there)

EncText(s) == IF s = <<>> THEN << D("'"), D("'") >> ELSE [i \in DOMAIN s |-> C(s[i])]
\* the text of a number / boolean on the wire is opaque to the model: one token carrying the atom
EncAtom(a) == << [c |-> a, d |-> FALSE, atom |-> TRUE] >>

RECURSIVE Flatten(_), EncRor2(_)
Flatten(ss) == IF ss = <<>> THEN <<>> ELSE Head(ss) \o Flatten(Tail(ss))
JoinWith(ss, sep) == Flatten([i \in DOMAIN ss |-> IF i = 1 THEN ss[i] ELSE sep \o ss[i]])
EncRor2(tree) ==
  CASE tree.j = "str"  -> EncText(tree.v)
    [] tree.j = "num"  -> EncAtom(tree.v)
    [] tree.j = "bool" -> EncAtom(tree.v)
    [] tree.j = "null" -> EncAtom("null")
    [] tree.j = "arr"  -> << C("L"), C("i"), C("s"), C("t"), D("(") >> \o JoinWith([i \in DOMAIN tree.v |-> EncRor2(tree.v[i])], << D(",") >>) \o << D(")") >>
    [] tree.j = "obj"  -> << D("(") >> \o JoinWith([i \in DOMAIN tree.v |-> EncText(tree.v[i].k) \o << D(":") >> \o EncRor2(tree.v[i].v)], << D(",") >>) \o << D(")") >>

\* Unknown fields of composite shape, one before and one after the known fields of EVERY record of a tree: a reader skips
\* an unknown field whatever its shape, without disturbing the neighbours (records only: a map has no unknown keys).
UnkNum == [j |-> "num", p |-> "int32", v |-> "1"]
UnkFirst == [k |-> <<"zz">>, v |-> [j |-> "obj", v |-> << [k |-> <<"x">>, v |-> UnkNum],
                [k |-> <<"y">>, v |-> [j |-> "arr", v |-> << UnkNum, [j |-> "obj", v |-> << [k |-> <<"a">>, v |-> UnkNum] >>], [j |-> "arr", v |-> <<>>] >>]] >>]]
UnkLast == [k |-> <<"zy">>, v |-> [j |-> "arr", v |-> << UnkNum, [j |-> "obj", v |-> << [k |-> <<"q">>, v |-> [j |-> "obj", v |-> <<>>]] >>] >>]]
RECURSIVE WithUnknown(_)
WithUnknown(tree) ==
  CASE tree.j = "obj" -> LET inner == [i \in DOMAIN tree.v |-> [k |-> tree.v[i].k, v |-> WithUnknown(tree.v[i].v)]]
                         IN  IF "r" \in DOMAIN tree THEN [tree EXCEPT !.v = <<UnkFirst>> \o inner \o <<UnkLast>>] ELSE [tree EXCEPT !.v = inner]
    [] tree.j = "arr" -> [tree EXCEPT !.v = [i \in DOMAIN tree.v |-> WithUnknown(tree.v[i])]]
    [] OTHER -> tree

\* Reference parser: recursive descent over wire tokens, returns [ok, tree, rest].  Every primitive comes back as text
\* (ROR2 carries no type information), so the law is ParseRor2(EncRor2(t)) = Textual(t).
RECURSIVE Textual(_)
Textual(tree) ==
  CASE tree.j \in {"num", "bool"} -> [j |-> "str", v |-> << tree.v >>]
    [] tree.j = "null" -> [j |-> "str", v |-> << "null" >>]
    [] tree.j = "str"  -> [j |-> "str", v |-> tree.v]
    [] tree.j = "arr"  -> [j |-> "arr", v |-> [i \in DOMAIN tree.v |-> Textual(tree.v[i])]]
    [] tree.j = "obj"  -> [j |-> "obj", v |-> [i \in DOMAIN tree.v |-> [k |-> tree.v[i].k, v |-> Textual(tree.v[i].v)]]]

IsD(toks, i, c) == i <= Len(toks) /\ toks[i].d /\ toks[i].c = c
StartsList(toks, i) == i + 4 <= Len(toks) /\ ~toks[i].d /\ toks[i].c = "L" /\ toks[i+1].c = "i" /\ toks[i+2].c = "s" /\ toks[i+3].c = "t"
                       /\ ~toks[i+1].d /\ ~toks[i+2].d /\ ~toks[i+3].d /\ IsD(toks, i + 4, "(")
Bad == [ok |-> FALSE, tree |-> [j |-> "null"], next |-> 0]

RECURSIVE PValue(_, _), PItems(_, _, _), PEntries(_, _, _), PText(_, _, _)
\* text: data characters up to the next delimiter
PText(toks, i, acc) == IF i <= Len(toks) /\ ~toks[i].d THEN PText(toks, i + 1, Append(acc, toks[i].c)) ELSE [ok |-> acc # <<>>, tree |-> [j |-> "str", v |-> acc], next |-> i]
PValue(toks, i) ==
  IF i > Len(toks) THEN Bad
  ELSE IF IsD(toks, i, "'") /\ IsD(toks, i + 1, "'") THEN [ok |-> TRUE, tree |-> [j |-> "str", v |-> <<>>], next |-> i + 2]
  ELSE IF StartsList(toks, i) THEN
       (IF IsD(toks, i + 5, ")") THEN [ok |-> TRUE, tree |-> [j |-> "arr", v |-> <<>>], next |-> i + 6] ELSE PItems(toks, i + 5, <<>>))
  ELSE IF IsD(toks, i, "(") THEN
       (IF IsD(toks, i + 1, ")") THEN [ok |-> TRUE, tree |-> [j |-> "obj", v |-> <<>>], next |-> i + 2] ELSE PEntries(toks, i + 1, <<>>))
  ELSE IF toks[i].d THEN Bad
  ELSE PText(toks, i, <<>>)
PItems(toks, i, acc) ==
  LET r == PValue(toks, i) IN
  IF ~r.ok THEN Bad
  ELSE IF IsD(toks, r.next, ",") THEN PItems(toks, r.next + 1, Append(acc, r.tree))
  ELSE IF IsD(toks, r.next, ")") THEN [ok |-> TRUE, tree |-> [j |-> "arr", v |-> Append(acc, r.tree)], next |-> r.next + 1]
  ELSE Bad
PEntries(toks, i, acc) ==
  LET k == IF IsD(toks, i, "'") /\ IsD(toks, i + 1, "'") THEN [ok |-> TRUE, tree |-> [j |-> "str", v |-> <<>>], next |-> i + 2]
           ELSE PText(toks, i, <<>>) IN
  IF ~k.ok \/ ~IsD(toks, k.next, ":") THEN Bad
  ELSE LET r == PValue(toks, k.next + 1) IN
       IF ~r.ok THEN Bad
       ELSE LET e == [k |-> k.tree.v, v |-> r.tree] IN
            IF IsD(toks, r.next, ",") THEN PEntries(toks, r.next + 1, Append(acc, e))
            ELSE IF IsD(toks, r.next, ")") THEN [ok |-> TRUE, tree |-> [j |-> "obj", v |-> Append(acc, e)], next |-> r.next + 1]
            ELSE Bad
ParseRor2(toks) == LET r == PValue(toks, 1) IN IF r.ok /\ r.next = Len(toks) + 1 THEN r ELSE Bad

\* token view used for parsing atoms: an atom token is a single data character carrying the atom's text
AsChars(toks) == [i \in DOMAIN toks |-> [c |-> toks[i].c, d |-> toks[i].d]]
=============================================================================
