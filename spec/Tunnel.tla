------------------------------- MODULE Tunnel -------------------------------
(* Query tunnelling (restli/tunnelling.go, http.go newRequest, handler.go ServeHTTP).                             *)
(*                                                                                                                *)
(* One exchange: the client builds the wire request from the original request and its threshold (ClientSend), an   *)
(* adversary may damage a tunnelled wire request in one of the listed ways (Edit), the server de-tunnels or        *)
(* rejects (ServerReceive).  The server step is a transcription of DecodeTunnelledQuery; the properties are        *)
(* declarative: an undamaged exchange shows the server exactly the original request, a query not longer than the   *)
(* threshold is sent untouched, every damaged tunnelled request is rejected.                                       *)
EXTENDS Integers, Sequences, FiniteSets, TLC

CONSTANTS Verbs, QueryTokens, MaxQuery, Bodies, Thresholds, Edits

\* "LONG" stands for a run of 6000 query bytes (longer than any I/O buffer of the multipart reader)
ByteLen(tok) == IF tok = "LONG" THEN 6000 ELSE IF tok \in {"%25", "%0D", "%0A"} THEN 3 ELSE 1
RECURSIVE QLen(_)
QLen(q) == IF q = <<>> THEN 0 ELSE ByteLen(Head(q)) + QLen(Tail(q))

Queries == UNION {[1..n -> QueryTokens] : n \in 0..MaxQuery}
NoBody == "none"

\* a request as the routing layer sees it
Req(verb, query, body, ctype) == [verb |-> verb, query |-> query, body |-> body, ctype |-> ctype]
CtypeOf(body) == IF body = NoBody THEN "none" ELSE "json"

VARIABLES orig, th, wire, edit, pc, seen, rejected
vars == <<orig, th, wire, edit, pc, seen, rejected>>

Init == /\ orig \in {Req(v, q, b, CtypeOf(b)) : v \in Verbs, q \in Queries, b \in Bodies}
        /\ th \in Thresholds
        /\ wire = <<>> /\ edit = "none" /\ pc = "client" /\ seen = <<>> /\ rejected = FALSE

Tunnels(q, t) == t > 0 /\ QLen(q) > t

\* newRequest + EncodeTunnelledQuery
ClientSend ==
  /\ pc = "client"
  /\ wire' = IF Tunnels(orig.query, th)
             THEN IF orig.body # NoBody
                  THEN [verb |-> "POST", override |-> orig.verb, urlq |-> <<>>, ctype |-> "mixed", raw |-> <<>>,
                        parts |-> << [ctype |-> "form", query |-> orig.query, json |-> NoBody],
                                     [ctype |-> "json", query |-> <<>>, json |-> orig.body] >>]
                  ELSE [verb |-> "POST", override |-> orig.verb, urlq |-> <<>>, ctype |-> "form", raw |-> orig.query,
                        parts |-> <<>>]
             ELSE [verb |-> orig.verb, override |-> "", urlq |-> orig.query, ctype |-> orig.ctype, raw |-> <<>>,
                   parts |-> IF orig.body = NoBody THEN <<>> ELSE << [ctype |-> "plainbody", query |-> <<>>, json |-> orig.body] >>]
  /\ pc' = "wire"
  /\ UNCHANGED <<orig, th, edit, seen, rejected>>

Tunnelled == wire.override # ""

\* the adversary damages a tunnelled request (at most one edit)
DoEdit(e) ==
  /\ pc = "wire" /\ edit = "none" /\ Tunnelled /\ e \in Edits
  /\ \/ e = "drop_query_part"   /\ wire.ctype = "mixed" /\ wire' = [wire EXCEPT !.parts = SelectSeq(@, LAMBDA p : p.ctype # "form")]
     \/ e = "drop_body_part"    /\ wire.ctype = "mixed" /\ wire' = [wire EXCEPT !.parts = SelectSeq(@, LAMBDA p : p.ctype # "json")]
     \/ e = "unknown_part_type" /\ wire.ctype = "mixed" /\ wire' = [wire EXCEPT !.parts[2].ctype = "other"]
     \/ e = "extra_unknown_part" /\ wire.ctype = "mixed" /\ wire' = [wire EXCEPT !.parts = Append(@, [ctype |-> "other", query |-> <<>>, json |-> NoBody])]
     \/ e = "empty_query_part"  /\ wire.ctype = "mixed" /\ wire' = [wire EXCEPT !.parts[1].query = <<>>]
     \/ e = "override_with_url_query" /\ wire' = [wire EXCEPT !.urlq = <<"a">>]
     \/ e = "unknown_top_type"  /\ wire' = [wire EXCEPT !.ctype = "other"]
     \* a body-less tunnelled request (form) re-framed as multipart carrying only the query part
     \/ e = "reframe_as_multipart" /\ wire.ctype = "form" /\
          wire' = [wire EXCEPT !.ctype = "mixed", !.raw = <<>>, !.parts = << [ctype |-> "form", query |-> wire.raw, json |-> NoBody] >>]
  /\ edit' = e
  /\ UNCHANGED <<orig, th, pc, seen, rejected>>

\* a request that is NOT tunnelled and is not a POST picks up an override header on its way (a proxy, a buggy peer): only a POST
\* can be a tunnelled request, so the header is to be ignored
StrayOverride ==
  /\ pc = "wire" /\ edit = "none" /\ ~Tunnelled /\ wire.verb # "POST" /\ "stray_override" \in Edits
  /\ wire' = [wire EXCEPT !.override = IF wire.verb = "DELETE" THEN "GET" ELSE "DELETE"]
  /\ edit' = "stray_override"
  /\ UNCHANGED <<orig, th, pc, seen, rejected>>

\* DecodeTunnelledQuery, then what routing sees
RECURSIVE Parts(_, _, _)
Parts(ps, q, b) ==      \* fold over the multipart parts: [ok, query, body]
  IF ps = <<>> THEN [ok |-> TRUE, query |-> q, body |-> b]
  ELSE LET p == Head(ps) IN
       CASE p.ctype = "form" -> Parts(Tail(ps), p.query, b)
         [] p.ctype = "json" -> Parts(Tail(ps), q, p.json)
         [] OTHER -> [ok |-> FALSE, query |-> q, body |-> b]

ServerReceive ==
  /\ pc = "wire"
  /\ pc' = "done"
  /\ IF wire.verb # "POST" \/ wire.override = ""
     THEN \* not tunnelled: untouched
          /\ seen' = Req(wire.verb, wire.urlq, IF wire.parts = <<>> THEN NoBody ELSE wire.parts[1].json, wire.ctype)
          /\ rejected' = FALSE
     ELSE IF wire.urlq # <<>> THEN rejected' = TRUE /\ seen' = <<>>
     ELSE CASE wire.ctype = "form" ->
                 /\ seen' = Req(wire.override, wire.raw, NoBody, "none")
                 /\ rejected' = FALSE
            [] wire.ctype = "mixed" ->
                 LET r == Parts(wire.parts, <<>>, NoBody) IN
                 IF ~r.ok \/ r.query = <<>> \/ r.body = NoBody
                 THEN rejected' = TRUE /\ seen' = <<>>
                 ELSE seen' = Req(wire.override, r.query, r.body, "json") /\ rejected' = FALSE
            [] OTHER -> rejected' = TRUE /\ seen' = <<>>      \* a tunnelled request of unknown content type
  /\ UNCHANGED <<orig, th, wire, edit>>

Next == ClientSend \/ (\E e \in Edits : DoEdit(e)) \/ StrayOverride \/ ServerReceive \/ (pc = "done" /\ UNCHANGED vars)
Spec == Init /\ [][Next]_vars

-----------------------------------------------------------------------------
\* a query not longer than the threshold (or threshold 0) is sent untouched
UntouchedBelowThreshold ==
  (pc # "client" /\ edit = "none" /\ ~Tunnels(orig.query, th)) =>
     (wire.verb = orig.verb /\ wire.urlq = orig.query /\ wire.override = "" /\ wire.ctype = orig.ctype)

\* tunnelling happens exactly above the threshold
TunnelledIffAbove == (pc # "client" /\ edit = "none") => (Tunnelled <=> Tunnels(orig.query, th))

\* transparency: the undamaged exchange shows the server the original request, field by field
Transparent == (pc = "done" /\ edit \in {"none", "stray_override"}) => (~rejected /\ seen = orig)

\* every damaged tunnelled request is rejected
DamagedRejected == (pc = "done" /\ edit \notin {"none", "stray_override"}) => rejected
=============================================================================
