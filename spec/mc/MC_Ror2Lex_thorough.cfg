CONSTANTS
  Tokens <- MCTokens
  MaxTokens = 7
  Guards = TRUE
SPECIFICATION Spec
INVARIANTS InBounds EndsInside 
CHECK_DEADLOCK FALSE
