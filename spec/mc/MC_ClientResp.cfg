SPECIFICATION Spec
INVARIANTS AgreeHere Export
CHECK_DEADLOCK FALSE
