CONSTANTS
  TextPool <- MCTextPool
  BytePool <- MCBytePool
  WithNullUnion = FALSE
SPECIFICATION Spec
INVARIANTS DefaultsApplied CtorMatchesDecoding Export
CHECK_DEADLOCK FALSE
