CONSTANTS
  KeyPool <- MCKeyPool
  MaxKeys = 4
SPECIFICATION Spec
INVARIANTS Canonical Ascending NothingLost Export
CHECK_DEADLOCK FALSE
