------------------------------ MODULE MC_D2 ------------------------------
EXTENDS D2, Json
CONSTANT MaxHist

H(u, s, w) == [u |-> u, s |-> s, w |-> w]
MCNodes == {"n1", "n2", "n3"}
MCAnnPool == { << H("https://h1:443", "https", 1) >>,
               << H("http://h1:80", "http", 1), H("https://h1:443", "https", 3) >>,
               << H("http://h2:80", "http", 0) >>,
               << H("http://h2:80", "http", 3), H("https://h2:443", "https", 0) >> }
MCSchemePool == { <<>>, <<"https">>, <<"https", "http">>, <<"http">> }

Bound == Len(history) <= MaxHist

\* Model -> code: one JSON line per maximal history, with the snapshot and the eligible sets expected after every prefix.
StateJson(c) == [n \in DOMAIN c |-> c[n]]
Export ==
  Len(history) = MaxHist =>
    PrintT(ToJson([history |-> history,
                   states  |-> [i \in 1..Len(history) |-> Fold(SubSeq(history, 1, i))],
                   eligible |-> [i \in 1..Len(history) |->
                                   [sl \in 1..4 |-> Eligible(Fold(SubSeq(history, 1, i)),
                                                             CASE sl = 1 -> <<>> [] sl = 2 -> <<"https">>
                                                               [] sl = 3 -> <<"https", "http">> [] sl = 4 -> <<"http">>)]]]))

\* uri events only (the export enumerates histories; resolution is replayed on every prefix by the harness)
UriNext == \/ \E n \in Nodes, a \in AnnPool : UriSet(n, a)
           \/ \E n \in Nodes : UriDelete(n)
           \/ \E n \in Nodes, k \in {"malformed", "weightless"} : UriIgnored(k, n)
           \/ UriIgnored("root", "")
ExportSpec == Init /\ [][UriNext]_vars
=============================================================================
