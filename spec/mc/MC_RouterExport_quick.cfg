CONSTANTS
  MaxPath = 3
  Trees <- MCTreesQuick
  PathsOf <- MCPathsOf
  Qs <- MCQs
  Acts <- MCActs
SPECIFICATION ExpSpec
INVARIANTS ExportRow
CHECK_DEADLOCK FALSE
