----------------------------- MODULE MC_Writer -----------------------------
EXTENDS Writer, Json
\* rank 0 is a byte below '=' (a digit): "a" < "a1", although "a1=v" < "a=v" as rendered parameters
MCKeyPool == { <<2>>, <<3>>, <<1>>, <<2, 2>>, <<2, 1>>, <<3, 1>>, <<4>>, <<1, 4>>, <<2, 0>>, <<3, 0, 2>> }
Export == pc = "done" => PrintT(ToJson([supplied |-> supplied, emitted |-> emitted]))
=============================================================================
