----------------------------- MODULE MC_Writer -----------------------------
EXTENDS Writer, Json
\* rank 0 is a byte below '=' (a digit): "a" < "a1", although "a1=v" < "a=v" as rendered parameters
\* ranks 5 and 6 are a BMP character above U+E000 (three UTF-8 bytes EF..) and a supplementary-plane character (four bytes F0..):
\* ascending BYTE order puts 5 before 6, UTF-16 code-unit order (Java's String.compareTo) the other way round
MCKeyPool == { <<2>>, <<3>>, <<1>>, <<2, 2>>, <<2, 1>>, <<3, 1>>, <<4>>, <<1, 4>>, <<2, 0>>, <<3, 0, 2>>, <<5>>, <<6>> }
Export == pc = "done" => PrintT(ToJson([supplied |-> supplied, emitted |-> emitted]))
=============================================================================
