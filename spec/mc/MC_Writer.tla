----------------------------- MODULE MC_Writer -----------------------------
EXTENDS Writer, Json
MCKeyPool == { <<2>>, <<3>>, <<1>>, <<2, 2>>, <<2, 1>>, <<3, 1>>, <<4>>, <<1, 4>> }
Export == pc = "done" => PrintT(ToJson([supplied |-> supplied, emitted |-> emitted]))
=============================================================================
