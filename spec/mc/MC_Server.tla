----------------------------- MODULE MC_Server -----------------------------
EXTENDS Server, Json
MCAdapters == {"get", "get_all", "finder", "batch_get", "create", "create_ret", "update", "partial_update", "delete",
               "action", "action_noresult", "batch_update", "batch_delete", "batch_create"}
MCErrFieldSets == SUBSET {"status", "message", "code", "exceptionClass", "details"}
SetSeq(S) == LET f[T \in SUBSET S] == IF T = {} THEN <<>> ELSE LET x == CHOOSE x \in T : TRUE IN <<x>> \o f[T \ {x}] IN f[S]
Export == pc = "done" =>
  PrintT(ToJson([adapter |-> adapter, outcome |-> outcome.k,
                 fields |-> IF outcome.k = "errresp" THEN SetSeq(outcome.f) ELSE <<>>,
                 status |-> http.status, errhdr |-> http.errhdr, client |-> client.k,
                 clientfields |-> IF client.k = "resterr" THEN SetSeq(client.fields) ELSE <<>>]))
=============================================================================
