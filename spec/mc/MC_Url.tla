------------------------------- MODULE MC_Url -------------------------------
EXTENDS Url, Json
MCCtxSegs == {"root", "rootx", "roo", "xroot", "ctx"}
Keys == {"k", "a%2Fb", ".", "..", "''", "root"}
MCResourcePaths == {<<"root">>} \cup {<<"root", k>> : k \in Keys} \cup {<<"root", k, "sub">> : k \in Keys}
                   \cup {<<"root", k, "sub", k2>> : k \in Keys, k2 \in Keys}
Export == PrintT(ToJson([ctx |-> ctx, rp |-> rp, slash |-> slash, host |-> host, query |-> query,
                         unspec |-> Unspecified(ctx), path |-> ExpectedPath(ctx, rp)]))
=============================================================================
