CONSTANTS
  Depth = 1
  KeySubset = {"int64", "string", "typeref", "enum", "complex", "custom"}
SPECIFICATION Spec
INVARIANT Export
CHECK_DEADLOCK FALSE
