\* every program of 2 goroutines x 0..3 operations over one key (longer programs than the quick tier: a third operation
\* sees the map after a completed and during an in-flight computation)
CONSTANTS
  NP = 2
  Keys = {1}
  MaxOps = 3
  OpTypes <- AllOps
  FixedLen = FALSE
SPECIFICATION Spec
INVARIANTS TypeOK ComputeAtMostOnce NoPlaceholderVisible NoBlockAfterDone PublishedBeforeDone
           PlaceholderHasOwner Linearizable RacersAgree
CHECK_DEADLOCK TRUE
