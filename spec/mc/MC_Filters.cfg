CONSTANTS
  MaxFilters = 3
SPECIFICATION Spec
INVARIANTS Agree NoMethodBehindFailure NoPostAfterError Export
CHECK_DEADLOCK FALSE
