----------------------------- MODULE MC_Filters -----------------------------
EXTENDS Filters, Json
SetSeq(S) == LET f[T \in SUBSET S] == IF T = {} THEN <<>> ELSE LET x == CHOOSE x \in T : \A y \in T : x <= y IN <<x>> \o f[T \ {x}] IN f[S]
Export == pc = "respond" => PrintT(ToJson([chain |-> chain, outcome |-> outcome, status |-> status,
                                            log |-> [x \in DOMAIN log |-> [what |-> log[x].what, i |-> log[x].i, seen |-> SetSeq(log[x].seen)]]]))
=============================================================================
