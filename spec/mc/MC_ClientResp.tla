--------------------------- MODULE MC_ClientResp ---------------------------
EXTENDS ClientResp, Json
VARIABLE r
Init == r \in Responses
Next == UNCHANGED r
Spec == Init /\ [][Next]_r
AgreeHere == Handle(r) = Outcome(r)
Export == PrintT(ToJson([resp |-> r, outcome |-> Outcome(r)]))
ASSUME FlaggedNeverOk /\ OnlySuccessStatusSucceeds /\ StrictnessOnlyForPartial
=============================================================================
