CONSTANTS
  N = 4
  Family = "shape-need"
  Order = "sorted"
  PackagePass = TRUE
  Types <- MCTypes
  Graphs <- MCGraphs
  TokRank <- MCTokRank
  Up <- MCUp
SPECIFICATION Spec
INVARIANTS ResultAcyclic Total Confluent PassOnlyWhenNeeded Export
CHECK_DEADLOCK FALSE
