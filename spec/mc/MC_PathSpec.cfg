CONSTANTS
  TextPool <- MCTextPool
  BytePool <- MCBytePool
  WithNullUnion = FALSE
SPECIFICATION Spec
INVARIANTS TrieIsDeclarative Export
CHECK_DEADLOCK FALSE
