---------------------------- MODULE MC_CleanDir ----------------------------
EXTENDS CleanDir, Json
\* Model -> code: every tree with the expected result, one JSON line each
RECURSIVE J(_)
J(dir) == IF dir = Gone THEN [gone |-> TRUE]
          ELSE [gone |-> FALSE, files |-> {n \in DOMAIN dir.c : ~IsDir(dir.c[n])},
                dirs |-> [n \in {x \in DOMAIN dir.c : IsDir(dir.c[x])} |-> J(dir.c[n])]]
Export == built => PrintT(ToJson([target |-> J(target), dot |-> isDot, expected |-> J(Clean(target, isDot))]))
=============================================================================
