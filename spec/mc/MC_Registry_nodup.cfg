CONSTANTS
  N = 3
  Family = "names"
  Order = "sorted"
  PackagePass = TRUE
  Types <- MCTypes
  Graphs <- MCGraphs
  TokRank <- MCTokRank
  Up <- MCUp
SPECIFICATION Spec
INVARIANTS NoDuplicateNames
CHECK_DEADLOCK FALSE
