CONSTANTS
  TextPool <- MCTextPool
  BytePool <- MCBytePool
  WithNullUnion = FALSE
SPECIFICATION Spec
INVARIANTS StripIsIdempotent StrippedCarriesNothing Export
CHECK_DEADLOCK FALSE
