CONSTANTS
  MaxDepth = 2
  MaxEntries = 4
SPECIFICATION Spec
INVARIANTS CleanMatchesExpected Idempotent UserFilesUntouched Export
CHECK_DEADLOCK FALSE
