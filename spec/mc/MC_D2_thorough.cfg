CONSTANTS
  Nodes <- MCNodes
  AnnPool <- MCAnnPool
  SchemePool <- MCSchemePool
  MaxHist = 4
SPECIFICATION Spec
CONSTRAINT Bound
INVARIANTS FoldInvariant ResolveOK ChoiceRefinesEligible
PROPERTY SnapshotsImmutable
CHECK_DEADLOCK FALSE
