CONSTANTS
  Nodes <- MCNodes
  AnnPool <- MCAnnPool
  SchemePool <- MCSchemePool
  MaxHist = 3
SPECIFICATION Spec
CONSTRAINT Bound
INVARIANTS FoldInvariant ResolveOK ChoiceRefinesEligible
PROPERTY SnapshotsImmutable
CHECK_DEADLOCK FALSE
