---------------------------- MODULE MC_PathSpec ----------------------------
EXTENDS PathSpec, Json
MCTextPool == { <<"alnum">> }
MCBytePool == {}
DSegs == { <<"f">>, <<"g">>, Star }
SSegs == { <<"f">>, <<"g">>, <<"h">>, Star }
Dirs == UNION {[1..n -> DSegs] : n \in 1..3}
Scopes == UNION {[1..n -> SSegs] : n \in 1..4}
VARIABLES spec, scope
Init == spec \in ({{}} \cup {{d} : d \in Dirs} \cup {{d, e} : d \in Dirs, e \in Dirs}) /\ scope = <<>>
Next == scope = <<>> /\ scope' \in Scopes /\ UNCHANGED spec
Spec == Init /\ [][Next]_<<spec, scope>>
Set == scope # <<>>
\* the (repaired) trie walk decides exactly the declarative predicate
TrieIsDeclarative == Set => OperMatches(spec, scope) = Excl(spec, scope)
\* the construction as it was: differs exactly when one directive is a proper prefix of another (expected to FAIL)
RawTrieIsDeclarative == Set => OperMatchesRaw(spec, scope) = Excl(spec, scope)
SetSeq(S) == SetToSeq(S)
Export == Set => PrintT(ToJson([spec |-> SetSeq(spec), scope |-> scope, excluded |-> Excl(spec, scope)]))
=============================================================================
