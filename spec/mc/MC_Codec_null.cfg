CONSTANTS
  TextPool <- MCTextPool
  BytePool <- MCBytePool
  WithNullUnion = TRUE
SPECIFICATION Spec
INVARIANTS ReferenceRoundTrip CanonIdempotent NormCanonStable DelimitersAreStructural Export
CHECK_DEADLOCK FALSE
