CONSTANTS
  Tokens <- MCTokens
  MaxTokens = 4
  Guards = FALSE
SPECIFICATION Spec
INVARIANTS InBounds EndsInside 
CHECK_DEADLOCK FALSE
