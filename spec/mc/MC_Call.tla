------------------------------- MODULE MC_Call -------------------------------
EXTENDS Call, Json
NoTrees == {}
NoPaths(t) == {}
Export == cfg # <<>> => PrintT(ToJson([node |-> call.node, method |-> call.method, name |-> call.name, wire |-> ClientWire(call),
                                        status |-> SuccessStatus(call), cfg |-> cfg]))
=============================================================================
