------------------------------- MODULE MC_Call -------------------------------
EXTENDS Call, Json
NoTrees == {}
NoPaths(t) == {}
SetSeq(S) == LET f[T \in SUBSET S] == IF T = {} THEN <<>> ELSE LET x == CHOOSE x \in T : TRUE IN <<x>> \o f[T \ {x}] IN f[S]
Export == cfg # <<>> => PrintT(ToJson([node |-> call.node, method |-> call.method, name |-> call.name, wire |-> ClientWire(call),
                                        status |-> SuccessStatus(call), cfg |-> cfg,
                                        req |-> LET e == RequestEnvelope(call) IN [kinds |-> SetSeq(e.kinds), required |-> SetSeq(e.required), allowed |-> SetSeq(e.allowed)],
                                        resp |-> LET e == ResponseEnvelope(call) IN [kinds |-> SetSeq(e.kinds), required |-> SetSeq(e.required), allowed |-> SetSeq(e.allowed)]]))
=============================================================================
