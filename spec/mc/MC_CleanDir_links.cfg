CONSTANTS
  MaxDepth = 2
  ExtraKinds = {"L"}
  MaxEntries = 3
SPECIFICATION Spec
INVARIANTS CleanMatchesExpected Idempotent UserFilesUntouched Export
CHECK_DEADLOCK FALSE
