\* one name, depth 2 (a, a/a), two values, 4 environment operations
CONSTANTS
  Names = {"a"}
  MaxDepth = 2
  Values = {"1", "2"}
  MaxOps = 4
  Repaired = TRUE
  EagerWake = FALSE
SPECIFICATION Spec
INVARIANTS Converges NoInvention
CHECK_DEADLOCK FALSE
