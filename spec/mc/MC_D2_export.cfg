CONSTANTS
  Nodes <- MCNodes
  AnnPool <- MCAnnPool
  SchemePool <- MCSchemePool
  MaxHist = 3
SPECIFICATION ExportSpec
CONSTRAINT Bound
INVARIANTS FoldInvariant Export
CHECK_DEADLOCK FALSE
