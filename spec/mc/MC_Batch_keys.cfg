CONSTANTS
  Parts <- MCParts
  ParamVals <- MCParamVals
  HashOf <- MCHashOf
  MaxKeys = 3
  MaxReply = 0
SPECIFICATION Spec
INVARIANTS DuplicatesRejected EachIdOnce FiledUnderOriginal UnknownKeyIsAnError Export
CHECK_DEADLOCK FALSE
