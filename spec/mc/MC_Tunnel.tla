----------------------------- MODULE MC_Tunnel -----------------------------
EXTENDS Tunnel, Json
MCVerbs == {"GET", "POST", "PUT", "DELETE"}
MCQueryTokens == {"a", "&", "=", "%25", "%0D", "%0A", "-", "LONG"}
MCBodies == {"none", "J1", "J2"}        \* J1: plain JSON object, J2: JSON whose strings look like multipart boundaries
MCThresholds == 0..7
MCEdits == {"drop_query_part", "drop_body_part", "unknown_part_type", "empty_query_part", "override_with_url_query", "unknown_top_type", "reframe_as_multipart", "stray_override", "extra_unknown_part"}
\* Model -> code: one line per finished exchange
Export == pc = "done" => PrintT(ToJson([orig |-> orig, th |-> th, tunnelled |-> Tunnels(orig.query, th), edit |-> edit,
                                         rejected |-> rejected, seen |-> seen]))
=============================================================================
