CONSTANTS
  Nodes <- MCNodes
  AnnPool <- MCAnnPool
  SchemePool <- MCSchemePool
  MaxHist = 10
SPECIFICATION ExportSpec
INVARIANTS Export
CHECK_DEADLOCK FALSE
