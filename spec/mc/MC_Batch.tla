------------------------------ MODULE MC_Batch ------------------------------
EXTENDS Batch, Json
MCParts == {"p1", "p2", "p3"}
MCParamVals == {"none", "x"}
MCHashOf == [p \in MCParts |-> IF p = "p3" THEN 2 ELSE 1]      \* p1 and p2 collide
SetSeq(S) == LET f[T \in SUBSET S] == IF T = {} THEN <<>> ELSE LET x == CHOOSE x \in T : TRUE IN <<x>> \o f[T \ {x}] IN f[S]
Export == pc = "done" => PrintT(ToJson([requested |-> requested, failed |-> failed,
     reply |-> IF reply = <<>> THEN [results |-> <<>>, statuses |-> <<>>, errors |-> <<>>] ELSE [f \in Fields |-> SetSeq(reply[f])],
     replied |-> reply # <<>>,
     filed |-> IF filed = <<>> THEN [results |-> <<>>, statuses |-> <<>>, errors |-> <<>>] ELSE [f \in Fields |-> SetSeq(filed[f])]]))
=============================================================================
