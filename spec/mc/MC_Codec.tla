------------------------------ MODULE MC_Codec ------------------------------
(* One state per (top-level schema, value): checks the reference codec on itself and exports every value with its   *)
(* canonical form, its JSON tree and its ROR2 token stream for the replay against the real codec.                   *)
EXTENDS Wire, Json

MCTextPool == { <<>>, <<"alnum">>, <<"alnum", "alnum">>, <<"(">>, <<")">>, <<",">>, <<":">>, <<"'">>, <<"%">>, <<" ">>, <<"+">>,
                <<"\"">>, <<"\\">>, <<"uni">>, <<"/">>, <<"&">>, <<"=">>, <<"?">>, <<"#">>, <<"ctl">>, <<"x0A">>, <<".">>, <<";">>,
                <<"L", "i", "s", "t", "(", "alnum", ")">>, <<"'", "'">>, <<"%", "2", "8">>, <<"alnum", ",", "alnum", ":", "alnum">>,
                <<"(", "alnum", ":", "alnum", ")">>, <<"$">>, <<"~">>, <<"*">>, <<"!">>, <<"@">>, <<"<">>, <<"{">>, <<"x7F">> }
MCBytePool == { <<"hi">>, <<"x00">>, <<"hi", "alnum", "hi">>, <<"x00", "x01">> }

TopSchemas == {n \in SchemaNames : SchemaOf[n].k \in {"record", "union", "enum", "fixed", "typeref"}}
TopType(n) == [k |-> "ref", n |-> n]

VARIABLES sname, part, val
Parts(n) == IF SchemaOf[n].k = "record" THEN 0..Len(SchemaOf[n].fields) ELSE {0}
Init == sname \in TopSchemas /\ part \in Parts(sname) /\ val = [t |-> "none"]
Next == /\ val = [t |-> "none"]
        /\ val' \in (IF SchemaOf[sname].k = "record" THEN RecValsPart(sname, part) ELSE Vals(TopType(sname)))
        /\ UNCHANGED <<sname, part>>
Spec == Init /\ [][Next]_<<sname, part, val>>

Set == val # [t |-> "none"]
CanonVal == Canon(TopType(sname), val)
Tree == JsonTree(CanonVal)

\* the reference ROR2 encoder and parser are inverse (on the textual view: ROR2 carries no types)
ReferenceRoundTrip == Set => LET r == ParseRor2(AsChars(EncRor2(Tree))) IN r.ok /\ r.tree = Textual(Tree)
\* abstract equality is a congruence for canonicalisation: equal values have equal canonical forms
NormCanonStable == Set => Norm(Canon(TopType(sname), CanonVal)) = Norm(CanonVal)
CanonIdempotent == Set => Canon(TopType(sname), CanonVal) = CanonVal
\* a data character never is a delimiter, a delimiter never is data: embedding is unambiguous
DelimitersAreStructural == Set => \A i \in DOMAIN EncRor2(Tree) : LET tk == EncRor2(Tree)[i] IN tk.d => tk.c \in Delims

SetSeq(S) == SetToSeq(S)
ASSUME PrintT(ToJson([reserved |-> [c \in Contexts |-> SetSeq(Reserved(c))]]))
Export == Set => PrintT(ToJson([schema |-> sname, av |-> val, canon |-> CanonVal, json |-> JsonTree(val), cjson |-> Tree,
                                 ror2 |-> EncRor2(JsonTree(val)),
                                 norm |-> Norm(val), knorm |-> Norm(KeyPart(val))]))
=============================================================================
