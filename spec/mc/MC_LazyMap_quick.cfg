\* every program of 2 goroutines x 0..2 operations over {los,load,store} x 2 keys
CONSTANTS
  NP = 2
  Keys = {1, 2}
  MaxOps = 2
  OpTypes <- AllOps
  FixedLen = FALSE
SPECIFICATION Spec
INVARIANTS TypeOK ComputeAtMostOnce NoPlaceholderVisible NoBlockAfterDone PublishedBeforeDone
           PlaceholderHasOwner Linearizable RacersAgree
CHECK_DEADLOCK TRUE
