----------------------------- MODULE MC_Ror2Lex -----------------------------
EXTENDS Ror2Lex, Json
MCTokens == {"(", ")", ",", ":", "'", "a", "List("}
Export == PrintT(ToJson([toks |-> input, accept |-> ~Parse(input).err]))
=============================================================================
