CONSTANTS
  N = 3
  Family = "shape"
  Order = "any"
  PackagePass = TRUE
  Types <- MCTypes
  Graphs <- MCGraphs
  TokRank <- MCTokRank
  Up <- MCUp
SPECIFICATION Spec
INVARIANTS ResultAcyclic Total Export
CHECK_DEADLOCK FALSE
