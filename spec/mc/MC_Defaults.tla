---------------------------- MODULE MC_Defaults ----------------------------
(* C13: every record of the VT family with defaulted fields (own, nested or inherited through includes) x every       *)
(* subset of those fields omitted; plus the default instance of every such record.                                    *)
EXTENDS Wire, Json
MCTextPool == { <<"alnum">> }
MCBytePool == {}
WithDefaults == {n \in SchemaNames : SchemaOf[n].k = "record" /\ HasDefaults(n)}
VARIABLES sname, doc
Init == sname \in WithDefaults /\ doc = [t |-> "none"]
Next == doc = [t |-> "none"] /\ doc' \in OmitSubsets(sname) \cup EmptySupplied(sname) \cup ZeroSupplied(sname) \cup ZeroOnly(sname) \cup AltSupplied(sname) \cup {[t |-> "ctor"]} /\ UNCHANGED sname
Spec == Init /\ [][Next]_<<sname, doc>>
Ty == [k |-> "ref", n |-> sname]
IsDoc == doc # [t |-> "none"] /\ doc # [t |-> "ctor"]
\* a value present in the document always wins over the default; an omitted one gets exactly the default
DefaultsApplied == IsDoc =>
  LET c == Canon(Ty, doc) IN
  \A i \in Idx(FieldsOf(sname)) :
     LET f == FieldsOf(sname)[i] IN
     f.def # NoDefault => FieldVal(c.v, f.n) = (IF FieldVal(doc.v, f.n) # [t |-> "none"] THEN Canon(f.ty, FieldVal(doc.v, f.n)) ELSE f.def)
\* the default instance is what decoding the empty-of-defaults document yields for the defaulted fields
CtorMatchesDecoding == doc = [t |-> "ctor"] =>
  \A i \in DefaultedIdx(sname) : FieldVal(DefaultInstance(sname).v, FieldsOf(sname)[i].n) = FieldsOf(sname)[i].def
Export == doc # [t |-> "none"] =>
  PrintT(ToJson(IF doc = [t |-> "ctor"]
                THEN [schema |-> sname, kind |-> "ctor", canon |-> DefaultInstance(sname)]
                ELSE [schema |-> sname, kind |-> "doc", av |-> doc, canon |-> Canon(Ty, doc), json |-> JsonTree(doc), ror2 |-> EncRor2(JsonTree(doc))]))
=============================================================================
