----------------------------- MODULE MC_Registry -----------------------------
EXTENDS Registry, Json
CONSTANTS N,            \* number of types
          Family        \* "shape": all reference graphs over fixed names; "names": a ring of types with clashing names
AllT == <<"A", "B", "C", "D">>
MCTypes == {AllT[i] : i \in 1..N}
MCTokRank(x) == CASE x = "A" -> 1 [] x = "B" -> 2 [] x = "C" -> 3 [] x = "D" -> 4 [] x = "M" -> 5 [] x = "N" -> 6 [] x = "P" -> 7
                  [] x = "X" -> 8 [] x = "Y" -> 9 [] x = "a" -> 20 [] x = "b" -> 21 [] x = "m" -> 22 [] x = "n" -> 23 [] x = "p" -> 24
MCUp(x) == CASE x = "a" -> "A" [] x = "b" -> "B" [] x = "m" -> "M" [] x = "n" -> "N" [] x = "p" -> "P"

\* ---- shape family: names A..D, namespaces given by a partition, every reference graph without self references
Partitions == IF Family \in {"shape-one", "shape-need"} THEN {<<"m", "n", "m", "n">>} ELSE IF N = 3 THEN {<<"m", "m", "n">>, <<"m", "n", "m">>, <<"m", "n", "p">>, <<"n", "m", "m">>}
              ELSE {<<"m", "m", "n", "n">>, <<"m", "n", "m", "n">>, <<"m", "m", "n", "p">>, <<"m", "n", "p", "m">>, <<"m", "m", "m", "n">>, <<"n", "m", "m", "m">>}
Idx(t) == CHOOSE i \in 1..N : AllT[i] = t
ShapeGraphs == {[ns |-> [t \in MCTypes |-> <<p[Idx(t)]>>], nm |-> [t \in MCTypes |-> <<t>>], refs |-> r] :
                  p \in Partitions, r \in {f \in [MCTypes -> SUBSET MCTypes] : \A t \in MCTypes : t \notin f[t]}}

\* ---- names family: a reference ring (everything ends up flagged), identities drawn from clashing names and namespaces
Names == {<<"X">>, <<"N", "X">>, <<"Y">>}
Spaces == {<<"n">>, <<"m">>, <<"a", "n">>, <<"b", "n">>}
Ident == [ns : Spaces, nm : Names]
IdName(i) == [k \in 1..(2 * Len(i.ns)) |-> IF k % 2 = 1 THEN MCTokRank(i.ns[(k + 1) \div 2]) ELSE 0] \o [k \in 1..Len(i.nm) |-> MCTokRank(i.nm[k])]
Succ(t) == AllT[(Idx(t) % N) + 1]
NameGraphs == {[ns |-> [t \in MCTypes |-> f[t].ns], nm |-> [t \in MCTypes |-> f[t].nm], refs |-> [t \in MCTypes |-> {Succ(t)}]] :
                 f \in {h \in [MCTypes -> Ident] : \A i \in 1..(N - 1) : LexLess(IdName(h[AllT[i]]), IdName(h[AllT[i + 1]]))}}
\* "shape-need": only the graphs whose packages still form an import cycle after the type-level pass
MCGraphs == IF Family \in {"shape", "shape-one"} THEN ShapeGraphs
            ELSE IF Family = "shape-need" THEN {gr \in ShapeGraphs : ~Acyclic(PkgEdges(gr, Legacy(gr)))}
            ELSE NameGraphs

SetSeq(S) == LET f[T \in SUBSET S] == IF T = {} THEN <<>> ELSE LET x == CHOOSE x \in T : TRUE IN <<x>> \o f[T \ {x}] IN f[S]
Export == done => PrintT(ToJson([
            ns |-> g.ns, nm |-> g.nm, refs |-> [t \in MCTypes |-> SetSeq(g.refs[t])],
            cyclic |-> SetSeq(cyclic), sorted |-> SetSeq(Canonical(g)),
            names |-> [t \in MCTypes |-> FinalName(g, cyclic, t)], sortedNames |-> [t \in MCTypes |-> FinalName(g, Canonical(g), t)],
            fails |-> GenerationFails(g, cyclic), dup |-> ~NoDuplicates(g, cyclic), sortedDup |-> ~NoDuplicates(g, Canonical(g)),
            acyclic |-> Acyclic(PkgEdges(g, cyclic))]))
=============================================================================
