CONSTANTS
  TextPool <- MCTextPool
  BytePool <- MCBytePool
  WithNullUnion = FALSE
SPECIFICATION Spec
INVARIANTS AccountingExact OnlyRequiredReported Export
CHECK_DEADLOCK FALSE
