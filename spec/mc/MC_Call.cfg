CONSTANTS
  Trees <- NoTrees
  PathsOf <- NoPaths
  Qs <- NoPaths
  Acts <- NoPaths
SPECIFICATION CSpec
INVARIANTS RoutesBackToCalledMethod ClientRequestIsSpecified Export
CHECK_DEADLOCK FALSE
