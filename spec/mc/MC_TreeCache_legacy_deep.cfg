\* one node below the root, created / changed / deleted up to 7 times
CONSTANTS
  Names = {"a"}
  MaxDepth = 1
  Values = {"1", "2"}
  MaxOps = 7
  Repaired = FALSE
  EagerWake = FALSE
SPECIFICATION Spec
INVARIANTS Converges NoInvention
CHECK_DEADLOCK FALSE
