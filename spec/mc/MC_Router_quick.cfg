CONSTANTS
  MaxPath = 3
  Trees <- MCTreesQuick
  PathsOf <- MCPathsOf
  Qs <- MCQs
  Acts <- MCActs
SPECIFICATION Spec
INVARIANTS RoutesAsSpecified NotRoutedMeans4xx
CHECK_DEADLOCK FALSE
