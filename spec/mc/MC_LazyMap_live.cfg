\* termination under weak fairness: 2 goroutines x exactly 2 operations, one key (maximal contention)
CONSTANTS
  NP = 2
  Keys = {1}
  MaxOps = 2
  OpTypes <- AllOps
  FixedLen = TRUE
SPECIFICATION FairSpec
PROPERTY Termination
CHECK_DEADLOCK TRUE
