CONSTANTS
  NP = 3
  Keys = {1, 2}
  MaxOps = 2
  OpTypes <- AllOps
  FixedLen = FALSE
SPECIFICATION SimSpec
CHECK_DEADLOCK FALSE
