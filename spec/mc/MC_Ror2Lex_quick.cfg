CONSTANTS
  Tokens <- MCTokens
  MaxTokens = 5
  Guards = TRUE
SPECIFICATION Spec
INVARIANTS InBounds EndsInside Export
CHECK_DEADLOCK FALSE
