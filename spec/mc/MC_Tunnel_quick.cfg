CONSTANTS
  Verbs <- MCVerbs
  QueryTokens <- MCQueryTokens
  MaxQuery = 2
  Bodies <- MCBodies
  Thresholds <- MCThresholds
  Edits <- MCEdits
SPECIFICATION Spec
INVARIANTS UntouchedBelowThreshold TunnelledIffAbove Transparent DamagedRejected Export
CHECK_DEADLOCK FALSE
