CONSTANTS
  MaxPath = 4
  Trees <- MCTreesThorough
  PathsOf <- MCPathsOf
  Qs <- MCQs
  Acts <- MCActs
SPECIFICATION Spec
INVARIANTS RoutesAsSpecified NotRoutedMeans4xx
CHECK_DEADLOCK FALSE
