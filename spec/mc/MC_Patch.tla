------------------------------ MODULE MC_Patch ------------------------------
EXTENDS Patch, Json
MCTextPool == { <<"alnum">> }
MCBytePool == {}
PatchSchemas == {"Ent", "Leaf"}
\* $delete documents naming ONE field, deletable or not, own or inherited through one or two includes
DeleteSchemas == {"Ent", "Leaf", "IncMid", "IncTop", "IncEmpty", "SibG", "OptDef"}
ExclPool == { {}, { <<"id">> }, { <<"nested", "b">> }, { <<"created">>, <<"id">> }, { <<"nested">> }, { <<"id">>, <<"nested", "b">> } }
Unions == {n \in SchemaNames : SchemaOf[n].k = "union"}
Aliases(n) == {SchemaOf[n].members[i].a : i \in DOMAIN SchemaOf[n].members}

VARIABLES kind, sname, item
Init == /\ item = None
        /\ \/ kind = "patch" /\ sname \in PatchSchemas
           \/ kind = "deldoc" /\ sname \in DeleteSchemas
           \/ kind = "union" /\ sname \in Unions
           \/ kind = "enum" /\ sname \in {n \in SchemaNames : SchemaOf[n].k = "enum"}
           \/ kind = "fixed" /\ sname \in {n \in SchemaNames : SchemaOf[n].k = "fixed"}
Next == /\ item = None /\ UNCHANGED <<kind, sname>>
        /\ CASE kind = "patch" -> \E p \in PatchVals(sname, 1), e \in ExclPool : item' = [p |-> p, excl |-> e]
             [] kind = "deldoc" -> \E i \in DOMAIN FieldsOf(sname) : item' = [field |-> FieldsOf(sname)[i]]
             [] kind = "union" -> \E S \in SUBSET Aliases(sname) : item' = [members |-> S]
             [] kind = "enum"  -> \E k \in (0 - 1)..(Len(SchemaOf[sname].syms) + 1) : item' = [ordinal |-> k]
             [] kind = "fixed" -> \E l \in 0..(SchemaOf[sname].size + 1) : item' = [len |-> l]
Spec == Init /\ [][Next]_<<kind, sname, item>>

Set == item # None
\* the wire shape is faithful: a legal patch can be read back from its tree (operations per field are recoverable)
RECURSIVE Recover(_, _)
HasKey(tree, k) == \E i \in DOMAIN tree.v : tree.v[i].k = << k >>
Sub(tree, k) == tree.v[CHOOSE i \in DOMAIN tree.v : tree.v[i].k = << k >>].v
Recover(p, tree) ==
  \A i \in DOMAIN p.v : LET o == p.v[i] IN
     /\ o.del <=> (HasKey(tree, "$delete") /\ \E j \in DOMAIN Sub(tree, "$delete").v : Sub(tree, "$delete").v[j].v = << o.k >>)
     /\ (o.set # None) <=> (HasKey(tree, "$set") /\ HasKey(Sub(tree, "$set"), o.k))
     /\ (o.sub # None) <=> HasKey(tree, o.k)
     /\ (o.sub # None => Recover(o.sub, Sub(tree, o.k)))
ShapeFaithful == (Set /\ kind = "patch" /\ Legal(item.p, item.excl, <<>>)) => Recover(item.p, PatchTree(item.p))

SetSeq(S) == SetToSeq(S)
Export == Set => PrintT(ToJson(
  CASE kind = "patch" -> [kind |-> kind, schema |-> sname, patch |-> item.p, excl |-> SetSeq(item.excl),
                          legal |-> Legal(item.p, item.excl, <<>>), tree |-> Body(item.p),
                          amb |-> \E i \in DOMAIN item.p.v : item.p.v[i].set # None /\ \E e \in item.excl : Len(e) > 1 /\ e[1] = item.p.v[i].k,
                          \* the VALUE given to $set carries the excluded sub-field: on the decoding side that is a document with a value at an
                          \* excluded path (C07), whatever a client may do about it when encoding
                          carries |-> \E i \in DOMAIN item.p.v : LET o == item.p.v[i] IN
                                         o.set # None /\ o.set.t = "rec" /\ \E e \in item.excl : Len(e) = 2 /\ e[1] = o.k /\ \E j \in DOMAIN o.set.v : o.set.v[j].k = e[2]]
    [] kind = "deldoc" -> [kind |-> kind, schema |-> sname, field |-> item.field.n, valid |-> Deletable(item.field)]
    [] kind = "union" -> [kind |-> kind, schema |-> sname, members |-> SetSeq(item.members), valid |-> UnionValid(sname, item.members)]
    [] kind = "enum"  -> [kind |-> kind, schema |-> sname, ordinal |-> item.ordinal, valid |-> EnumOrdinalValid(sname, item.ordinal),
                          symbols |-> SchemaOf[sname].syms]
    [] kind = "fixed" -> [kind |-> kind, schema |-> sname, len |-> item.len, valid |-> FixedLengthValid(sname, item.len)]))
=============================================================================
