CONSTANTS
  TextPool <- MCTextPool
  BytePool <- MCBytePool
  WithNullUnion = FALSE
SPECIFICATION Spec
INVARIANTS ReferenceRoundTrip CanonIdempotent NormCanonStable DelimitersAreStructural Export
CHECK_DEADLOCK FALSE
