CONSTANTS
  Adapters <- MCAdapters
  ErrFieldSets <- MCErrFieldSets
SPECIFICATION Spec
INVARIANTS ErrorsArriveFaithfully HeldIsWhatWasReturned Export
PROPERTY ErrorObjectUnmodified
CHECK_DEADLOCK FALSE
