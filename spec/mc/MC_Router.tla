----------------------------- MODULE MC_Router -----------------------------
EXTENDS Router, Json
CONSTANT MaxPath

AllRest == {"get", "create", "delete", "update", "partial_update", "batch_get", "batch_create", "batch_delete",
            "batch_update", "batch_partial_update", "get_all"}
N(coll, ms, fs, as, subs) == [coll |-> coll, methods |-> ms, finders |-> fs, actions |-> as, subs |-> subs]

\* T1: a full collection with a finder, an action and two sub-resources; a simple resource with an action and a
\*     collection below it
T1 == [id |-> "T1", roots |-> {"r1", "r2"},
       nodes |-> [r1 |-> N(TRUE, AllRest, {"f1"}, {"a1"}, {"s1", "s2"}),
                  r2 |-> N(FALSE, {"get", "update", "partial_update", "delete"}, {}, {"a1"}, {"s3"}),
                  s1 |-> N(TRUE, {"get", "batch_get"}, {}, {}, {}),
                  s2 |-> N(FALSE, {"get", "update"}, {}, {}, {}),
                  s3 |-> N(TRUE, {"get"}, {}, {}, {})]]
\* T2: a collection with a method subset only, and an action set
T2 == [id |-> "T2", roots |-> {"r1", "r2"},
       nodes |-> [r1 |-> N(TRUE, {"get", "batch_get"}, {}, {}, {}),
                  r2 |-> N(FALSE, {}, {}, {"a1"}, {})]]
\* T3: a collection without get but with create / get_all / finder / batch methods, a simple sub-resource of it
T3 == [id |-> "T3", roots |-> {"r1"},
       nodes |-> [r1 |-> N(TRUE, {"create", "get_all", "batch_create", "batch_delete", "batch_partial_update", "partial_update"}, {"f1"}, {}, {"s1"}),
                  s1 |-> N(FALSE, {"get", "delete", "partial_update"}, {}, {"a1"}, {})]]

\* T0: the quick tree: collection with everything and a simple sub-resource, a simple root resource with an action
T0 == [id |-> "T0", roots |-> {"r1", "r2"},
       nodes |-> [r1 |-> N(TRUE, AllRest, {"f1"}, {"a1"}, {"s1"}),
                  r2 |-> N(FALSE, {"get", "update", "partial_update", "delete"}, {}, {"a1"}, {}),
                  s1 |-> N(FALSE, {"get", "update"}, {}, {"a1"}, {})]]
MCTreesQuick == {T0, T2}
MCTreesThorough == {T1, T2, T3}

Names(t) == DOMAIN t.nodes
Tokens(t) == Names(t) \cup {"k", "", ")", "zz"}
\* paths whose first segment is a root resource, an unregistered name or empty (anything else is the same 404)
MCPathsOf(t) == {p \in UNION {[1..n -> Tokens(t)] : n \in 1..MaxPath} : p[1] \in t.roots \cup {"zz", ""}}
MCQs(t) == {"none", "f1", "zz"}
MCActs(t) == {"none", "a1", "zz"}

=============================================================================
