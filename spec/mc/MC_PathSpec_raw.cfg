CONSTANTS
  TextPool <- MCTextPool
  BytePool <- MCBytePool
  WithNullUnion = FALSE
SPECIFICATION Spec
INVARIANTS RawTrieIsDeclarative
CHECK_DEADLOCK FALSE
