------------------------------ MODULE MC_CodecPairs ------------------------------
(* Thorough tier of the codec properties: one state per (record schema, pair of fields, pair of variations) -- two    *)
(* positions vary at once, over a reduced text pool (the characters that interact: delimiters, escapes, quotes).      *)
EXTENDS Wire, Json

MCTextPool == { <<>>, <<"alnum">>, <<"(">>, <<")">>, <<",">>, <<":">>, <<"'">>, <<"%">>, <<"+">>, <<"\"">>, <<"\\">>, <<"uni">>, <<"'", "'">>, <<"&">> }
MCBytePool == { <<"hi">>, <<"x00">> }

PairSchemas == {n \in SchemaNames : SchemaOf[n].k = "record" /\ Len(SchemaOf[n].fields) >= 2}
TopType(n) == [k |-> "ref", n |-> n]
\* all pairs of fields for records of up to 8 fields, neighbouring fields for the larger ones -- as long as the two fields'
\* variation sets multiply to at most MaxPairProduct values (containers of containers have hundreds of variations each; their
\* single-position variations are covered by the quick tier, their products would take the better part of an hour)
MaxPairProduct == 2500
NVals(n, i) == Cardinality(Vals(SchemaOf[n].fields[i].ty))
PairsOf(n) == LET m == Len(SchemaOf[n].fields) IN
  {p \in (1..m) \X (1..m) : p[1] < p[2] /\ (m <= 8 \/ p[2] = p[1] + 1) /\ NVals(n, p[1]) * NVals(n, p[2]) <= MaxPairProduct}

VARIABLES sname, part, val
Init == sname \in PairSchemas /\ part \in PairsOf(sname) /\ val = [t |-> "none"]
Next == /\ val = [t |-> "none"]
        /\ val' \in RecValsPair(sname, part[1], part[2])
        /\ UNCHANGED <<sname, part>>
Spec == Init /\ [][Next]_<<sname, part, val>>

Set == val # [t |-> "none"]
CanonVal == Canon(TopType(sname), val)
Tree == JsonTree(CanonVal)

\* the reference ROR2 encoder and parser are inverse (on the textual view: ROR2 carries no types)
ReferenceRoundTrip == Set => LET r == ParseRor2(AsChars(EncRor2(Tree))) IN r.ok /\ r.tree = Textual(Tree)
\* abstract equality is a congruence for canonicalisation: equal values have equal canonical forms
NormCanonStable == Set => Norm(Canon(TopType(sname), CanonVal)) = Norm(CanonVal)
CanonIdempotent == Set => Canon(TopType(sname), CanonVal) = CanonVal
\* a data character never is a delimiter, a delimiter never is data: embedding is unambiguous
DelimitersAreStructural == Set => \A i \in DOMAIN EncRor2(Tree) : LET tk == EncRor2(Tree)[i] IN tk.d => tk.c \in Delims

SetSeq(S) == SetToSeq(S)
Export == Set => PrintT(ToJson([schema |-> sname, av |-> val, canon |-> CanonVal, json |-> JsonTree(val), cjson |-> Tree,
                                 ror2 |-> EncRor2(JsonTree(val)),
                                 norm |-> Norm(val), knorm |-> Norm(KeyPart(val))]))
=============================================================================
