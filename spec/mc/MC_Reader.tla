----------------------------- MODULE MC_Reader -----------------------------
EXTENDS Reader, Json
MCTextPool == { <<"alnum">> }
MCBytePool == {}
L(a) == [t |-> "rec", v |-> << [k |-> "a", v |-> Num("int32", a)] >>]
LB == [t |-> "rec", v |-> << [k |-> "a", v |-> Num("int32", "1")], [k |-> "b", v |-> Str(<<"alnum">>)] >>]
\* base documents: required fields at depth 1..3, inside a two-element array, a two-entry map, a union member, an
\* optional record, and behind one and two includes
NestDoc == [t |-> "rec", v |-> <<
   [k |-> "arr", v |-> [t |-> "arr", v |-> << L("1"), L("0") >>]],
   [k |-> "m", v |-> [t |-> "map", v |-> << [k |-> <<"k", "1">>, v |-> L("1")], [k |-> <<"k", "2">>, v |-> L("0")] >>]],
   [k |-> "u", v |-> [t |-> "union", a |-> "vt.Leaf", v |-> L("1")]],
   [k |-> "leaf", v |-> L("1")], [k |-> "oleaf", v |-> L("1")],
   [k |-> "e", v |-> [t |-> "enum", v |-> "RED"]], [k |-> "f", v |-> [t |-> "fixed", v |-> <<"alnum", "alnum">>]],
   [k |-> "t", v |-> Str(<<"alnum">>)] >>]
BaseDocs == { [s |-> "Nest", av |-> NestDoc], [s |-> "IncTop", av |-> RecBase("IncTop")], [s |-> "Prims", av |-> RecBase("Prims")],
              [s |-> "Leaf", av |-> LB], [s |-> "SibG", av |-> RecBase("SibG")], [s |-> "SibP", av |-> RecBase("SibP")], [s |-> "SibOnly", av |-> RecBase("SibOnly")], [s |-> "DefContainers", av |-> RecBase("DefContainers")], [s |-> "CK", av |-> RecBase("CK")],
              [s |-> "DefOuter", av |-> [t |-> "rec", v |-> SelectSeq(RecBase("DefOuter").v, LAMBDA e : e.k # "oinner")]] }
VARIABLES base, mdoc      \* mdoc: the marked document (removed fields carry NullV)
doc == IF mdoc = None THEN None ELSE StripNulls(mdoc)
Init == base \in BaseDocs /\ mdoc = None
Next == mdoc = None /\ mdoc' \in DocVariants([k |-> "ref", n |-> base.s], base.av) /\ UNCHANGED base
Spec == Init /\ [][Next]_<<base, mdoc>>
Ty == [k |-> "ref", n |-> base.s]
Set == doc # None
\* the traversal reports exactly the declarative set, keeps its scope stack balanced and ends with an empty stack
AccountingExact == Set => LET r == Read(Ty, doc) IN r.missing = Missing(Ty, doc, <<>>) /\ r.ok /\ r.scope = <<>>
\* defaulted and optional fields are never reported
OnlyRequiredReported == Set => \A p \in Missing(Ty, doc, <<>>) : p[Len(p)].idx = 0
SetSeq(S) == SetToSeq(S)
Export == Set => PrintT(ToJson([schema |-> base.s, av |-> doc, canon |-> Canon(Ty, doc), json |-> JsonTree(doc), jsonNulled |-> JsonTree(mdoc), ror2 |-> EncRor2(JsonTree(doc)), ror2u |-> EncRor2(WithUnknown(JsonTree(doc))),
                                 missing |-> SetSeq(Missing(Ty, doc, <<>>))]))
=============================================================================
