CONSTANTS
  N = 3
  Family = "shape"
  Order = "any"
  PackagePass = FALSE
  Types <- MCTypes
  Graphs <- MCGraphs
  TokRank <- MCTokRank
  Up <- MCUp
SPECIFICATION Spec
INVARIANTS Confluent
CHECK_DEADLOCK FALSE
