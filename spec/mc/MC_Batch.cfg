CONSTANTS
  Parts <- MCParts
  ParamVals <- MCParamVals
  HashOf <- MCHashOf
  MaxKeys = 2
  MaxReply = 2
SPECIFICATION Spec
INVARIANTS DuplicatesRejected EachIdOnce FiledUnderOriginal UnknownKeyIsAnError Export
CHECK_DEADLOCK FALSE
