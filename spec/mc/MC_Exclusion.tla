---------------------------- MODULE MC_Exclusion ----------------------------
(* C07 on values: what an encoder with an exclusion spec emits, whether a decoder with it rejects a document, and     *)
(* which required fields it may still report, for documents of Ent and Nest x a pool of specs.                        *)
EXTENDS PathSpec, Json
MCTextPool == { <<"alnum">> }
MCBytePool == {}
S(names) == [i \in DOMAIN names |-> IF names[i] = "*" THEN Star ELSE <<names[i]>>]
L2 == [t |-> "rec", v |-> << [k |-> "a", v |-> Num("int32", "1")], [k |-> "b", v |-> Str(<<"alnum">>)] >>]
EntDoc == [t |-> "rec", v |-> << [k |-> "id", v |-> Num("int64", "1")], [k |-> "name", v |-> Str(<<"alnum">>)],
             [k |-> "nested", v |-> L2], [k |-> "tags", v |-> [t |-> "arr", v |-> << L2, L2 >>]], [k |-> "created", v |-> Num("int64", "1")] >>]
NestDoc == [t |-> "rec", v |-> <<
   [k |-> "arr", v |-> [t |-> "arr", v |-> << L2 >>]],
   [k |-> "m", v |-> [t |-> "map", v |-> << [k |-> <<"k", "1">>, v |-> L2], [k |-> <<"k", "2">>, v |-> L2] >>]],
   [k |-> "u", v |-> [t |-> "union", a |-> "vt.Leaf", v |-> L2]],
   [k |-> "leaf", v |-> L2], [k |-> "t", v |-> Str(<<"alnum">>)] >>]
Cases == { [s |-> "Ent", av |-> EntDoc, specs |-> { {}, {S(<<"id">>)}, {S(<<"nested", "b">>)}, {S(<<"tags", "*", "b">>)}, {S(<<"created">>), S(<<"id">>)},
                                                   {S(<<"nested">>)}, {S(<<"name">>)}, {S(<<"tags", "*">>)}, {S(<<"*", "b">>)}, {S(<<"nested">>), S(<<"nested", "b">>)},
                                                   {S(<<"id">>), S(<<"nested", "b">>), S(<<"tags", "*", "b">>), S(<<"created">>)},
                                                   \* a nested record emptied by exclusion, then siblings with excluded content
                                                   {S(<<"nested", "a">>), S(<<"nested", "b">>), S(<<"tags", "*", "b">>)},
                                                   {S(<<"nested", "a">>), S(<<"nested", "b">>), S(<<"created">>)},
                                                   {S(<<"tags", "*", "a">>), S(<<"tags", "*", "b">>), S(<<"created">>)} }],
           [s |-> "Nest", av |-> NestDoc, specs |-> { {S(<<"arr", "*", "a">>)}, {S(<<"m", "*", "b">>)}, {S(<<"m", "*">>)}, {<< <<"m">>, <<"k", "1">> >>},
                                                     {S(<<"u", "vt.Leaf", "a">>)}, {S(<<"leaf">>)}, {S(<<"*", "a">>)}, {S(<<"leaf", "a">>), S(<<"t">>)},
                                                     {S(<<"leaf", "a">>), S(<<"leaf", "b">>), S(<<"t">>)}, {S(<<"m", "*", "a">>), S(<<"m", "*", "b">>), S(<<"u", "vt.Leaf", "a">>)},
                                                     {S(<<"arr", "*", "a">>), S(<<"arr", "*", "b">>), S(<<"leaf", "b">>)} }] }
VARIABLES case, spec, doc
Init == case \in Cases /\ spec \in case.specs /\ doc = None
Next == doc = None /\ doc' \in {StripNulls(d) : d \in DocVariants([k |-> "ref", n |-> case.s], case.av)} /\ UNCHANGED <<case, spec>>
Spec == Init /\ [][Next]_<<case, spec, doc>>
Ty == [k |-> "ref", n |-> case.s]
Set == doc # None
\* exclusion never removes anything else, and what it emits carries nothing excluded
StripIsIdempotent == Set => Strip(Strip(doc, spec, <<>>), spec, <<>>) = Strip(doc, spec, <<>>)
StrippedCarriesNothing == Set => ~Carries(Strip(doc, spec, <<>>), spec, <<>>)
SetSeq(X) == SetToSeq(X)
Export == Set => PrintT(ToJson([schema |-> case.s, spec |-> SetSeq(spec), av |-> doc, json |-> JsonTree(doc), ror2 |-> EncRor2(JsonTree(doc)),
                                 stripped |-> JsonTree(Strip(doc, spec, <<>>)), carries |-> Carries(doc, spec, <<>>),
                                 missing |-> SetSeq(MissingUnderExclusion(Ty, doc, spec)),
                                 complete |-> Missing(Ty, doc, <<>>) = {}]))
=============================================================================
