CONSTANTS
  Depth = 2
  KeySubset = {"int32", "int64", "string", "typeref", "enum", "custom", "complex", "bool", "bytes", "fixed", "float64"}
SPECIFICATION Spec
INVARIANT Export
CHECK_DEADLOCK FALSE
