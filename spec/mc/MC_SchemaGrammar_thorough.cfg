CONSTANTS
  Depth = 2
  KeySubset = {"int32", "int64", "string", "bool", "typeref", "enum", "custom", "complex"}
SPECIFICATION Spec
INVARIANT Export
CHECK_DEADLOCK FALSE
