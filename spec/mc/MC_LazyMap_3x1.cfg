\* every program of 3 goroutines x exactly 1 operation
CONSTANTS
  NP = 3
  Keys = {1, 2}
  MaxOps = 1
  OpTypes <- AllOps
  FixedLen = TRUE
SPECIFICATION Spec
INVARIANTS TypeOK ComputeAtMostOnce NoPlaceholderVisible NoBlockAfterDone PublishedBeforeDone
           PlaceholderHasOwner Linearizable RacersAgree
CHECK_DEADLOCK TRUE
