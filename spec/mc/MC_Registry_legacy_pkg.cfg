CONSTANTS
  N = 4
  Family = "shape-one"
  Order = "sorted"
  PackagePass = FALSE
  Types <- MCTypes
  Graphs <- MCGraphs
  TokRank <- MCTokRank
  Up <- MCUp
SPECIFICATION Spec
INVARIANTS ResultAcyclic
CHECK_DEADLOCK FALSE
