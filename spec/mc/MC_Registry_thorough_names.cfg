CONSTANTS
  N = 4
  Family = "names"
  Order = "sorted"
  PackagePass = TRUE
  Types <- MCTypes
  Graphs <- MCGraphs
  TokRank <- MCTokRank
  Up <- MCUp
SPECIFICATION Spec
INVARIANTS ResultAcyclic Total Confluent Export
CHECK_DEADLOCK FALSE
