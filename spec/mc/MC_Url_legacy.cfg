\* expected to FAIL: the implementation as it was before the repairs (documented counterexample generator)
CONSTANTS
  CtxSegs <- MCCtxSegs
  MaxCtx = 2
  ResourcePaths <- MCResourcePaths
SPECIFICATION Spec
INVARIANTS LegacyPathAsSpecified
CHECK_DEADLOCK FALSE
