CONSTANTS
  MaxPath = 4
  Trees <- MCTreesThorough
  PathsOf <- MCPathsOf
  Qs <- MCQs
  Acts <- MCActs
SPECIFICATION ExpSpec
INVARIANTS ExportRow
CHECK_DEADLOCK FALSE
