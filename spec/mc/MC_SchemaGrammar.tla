-------------------------- MODULE MC_SchemaGrammar --------------------------
EXTENDS SchemaGrammar, Json
CONSTANTS Depth, KeySubset
VARIABLES kind, item
SetSeq(S) == LET f[T \in SUBSET S] == IF T = {} THEN <<>> ELSE LET x == CHOOSE x \in T : TRUE IN <<x>> \o f[T \ {x}] IN f[S]
Init == \/ kind = "item" /\ item \in Items(Depth)
        \/ kind = "resource" /\ item \in {r \in Resources : r.key \in KeySubset \cup {"none"}}
Next == UNCHANGED <<kind, item>>
Spec == Init /\ [][Next]_<<kind, item>>
Export == PrintT(ToJson(IF kind = "item" THEN [kind |-> kind, e |-> item.e, m |-> item.m, pos |-> item.pos, lit |-> item.lit]
                        ELSE [kind |-> kind, rkind |-> item.kind, key |-> item.key, methods |-> SetSeq(item.methods)]))
=============================================================================
