CONSTANTS
  MaxDepth = 3
  MaxEntries = 2
SPECIFICATION Spec
INVARIANTS CleanMatchesExpected Idempotent UserFilesUntouched Export
CHECK_DEADLOCK FALSE
