CONSTANTS
  MaxDepth = 3
  ExtraKinds = {}
  MaxEntries = 2
SPECIFICATION Spec
INVARIANTS CleanMatchesExpected Idempotent UserFilesUntouched Export
CHECK_DEADLOCK FALSE
