\* two levels (a, a/a), 5 operations, goroutines scheduled promptly: enough for the placeholder defect
CONSTANTS
  Names = {"a"}
  MaxDepth = 2
  Values = {"1"}
  MaxOps = 5
  Repaired = FALSE
  EagerWake = TRUE
SPECIFICATION Spec
INVARIANTS Converges NoInvention
CHECK_DEADLOCK FALSE
