CONSTANTS
  CtxSegs <- MCCtxSegs
  MaxCtx = 3
  ResourcePaths <- MCResourcePaths
SPECIFICATION Spec
INVARIANTS PathAsSpecified RootExactlyOnce Export
CHECK_DEADLOCK FALSE
