CONSTANTS
  TextPool <- MCTextPool
  BytePool <- MCBytePool
  WithNullUnion = TRUE
SPECIFICATION Spec
INVARIANTS ShapeFaithful Export
CHECK_DEADLOCK FALSE
