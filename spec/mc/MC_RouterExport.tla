-------------------------- MODULE MC_RouterExport --------------------------
EXTENDS MC_Router
(* Model -> code: one JSON line per (tree, path, verb, hdr) with, for the 27 combinations of (q, ids, act) in the  *)
(* fixed order below, the admissible outcomes, whether the cell is unspecified, and the operational outcome.       *)
QV == <<"none", "f1", "zz">>
IV == <<"none", "some", "bad">>
AV == <<"none", "a1", "zz">>
Combo(i) == [q |-> QV[((i - 1) \div 9) + 1], ids |-> IV[(((i - 1) \div 3) % 3) + 1], act |-> AV[((i - 1) % 3) + 1]]

VARIABLE row
Enc(o) == IF o.st = "routed" THEN <<o.node, o.method, o.name, o.keys, o.segs>> ELSE <<o.st>>
SetSeq(S) == LET f[T \in SUBSET S] == IF T = {} THEN <<>> ELSE LET x == CHOOSE x \in T : TRUE IN <<x>> \o f[T \ {x}] IN f[S]
Full(c) == [verb |-> row.verb, hdr |-> row.hdr, path |-> path, q |-> c.q, ids |-> c.ids, act |-> c.act]
TreeSeq == SetSeq(Trees)
ASSUME PrintT(ToJson([trees |-> [i \in 1..Len(TreeSeq) |-> [id |-> TreeSeq[i].id, roots |-> SetSeq(TreeSeq[i].roots), nodes |-> [n \in DOMAIN TreeSeq[i].nodes |-> [coll |-> TreeSeq[i].nodes[n].coll, methods |-> SetSeq(TreeSeq[i].nodes[n].methods), finders |-> SetSeq(TreeSeq[i].nodes[n].finders), actions |-> SetSeq(TreeSeq[i].nodes[n].actions), subs |-> SetSeq(TreeSeq[i].nodes[n].subs)]]]]]))
ExpInit == tree \in Trees /\ path \in PathsOf(tree) /\ rest = <<>> /\ row = <<>>
ExpNext == row = <<>> /\ row' \in [verb : Verbs, hdr : Hdrs] /\ UNCHANGED <<tree, path, rest>>
ExpSpec == ExpInit /\ [][ExpNext]_<<tree, path, rest, row>>
ExportRow ==
  row # <<>> =>
  PrintT(ToJson([t |-> tree.id, path |-> path, verb |-> row.verb, hdr |-> row.hdr,
                 exp |-> [i \in 1..27 |-> SetSeq({Enc(o) : o \in Expected(tree, Full(Combo(i)))})],
                 unspec |-> [i \in 1..27 |-> Unspecified(tree, Full(Combo(i)))],
                 oper |-> [i \in 1..27 |-> Enc(Oper(tree, Full(Combo(i))))]]))
=============================================================================
