-------------------------------- MODULE D2 --------------------------------
(* d2.Client: tracking of announced URIs from ZooKeeper tree events (client.go: waitForUriUpdates,              *)
(* handleUriUpdate, waitForServiceUpdates) and host selection (serviceUris.go: chooseHost).                      *)
(*                                                                                                                *)
(* An announcement is a sequence (sorted by url) of records [u |-> url, s |-> scheme, w |-> weight].             *)
(* Snapshot objects live in an explicit heap so that copy-on-write -- and its absence -- is expressible:         *)
(* every state-changing event allocates a new object, objects handed out earlier must never change.              *)
EXTENDS Integers, Sequences, FiniteSets, TLC

CONSTANTS Nodes,        \* znode names that may appear (model-checking pool)
          AnnPool,      \* announcements that may appear (model-checking pool)
          SchemePool    \* prioritized-scheme lists that may appear

VARIABLES heap,     \* sequence of snapshot objects; an object is a function: announced node -> announcement
          cur,      \* index of the current object
          history,  \* uri events so far: [kind, node, ann]
          schemes,  \* current prioritizedSchemes
          last      \* outcome of the last resolution: [set, host, err]

vars == <<heap, cur, history, schemes, last>>

Range(f) == {f[x] : x \in DOMAIN f}
Without(f, n) == [x \in DOMAIN f \ {n} |-> f[x]]
With(f, n, a) == [x \in DOMAIN f \cup {n} |-> IF x = n THEN a ELSE f[x]]

-----------------------------------------------------------------------------
(* Declarative layer: fold of the history, eligible hosts *)

Apply(c, e) ==
  CASE e.kind = "set"    -> With(c, e.node, e.ann)
    [] e.kind = "delete" -> Without(c, e.node)
    [] OTHER             -> c          \* root, malformed, weightless: ignored

RECURSIVE Fold(_)
Fold(h) == IF h = <<>> THEN <<>> ELSE Apply(Fold(SubSeq(h, 1, Len(h) - 1)), h[Len(h)])

\* all announced (url, scheme, weight) entries of a snapshot, as records tagged with their node
Entries(c) == UNION {{[n |-> n, u |-> c[n][i].u, s |-> c[n][i].s, w |-> c[n][i].w] : i \in 1..Len(c[n])} : n \in DOMAIN c}

RECURSIVE FirstScheme(_, _, _)
FirstScheme(c, sl, i) ==      \* entries of the highest-priority scheme for which any host exists
  IF i > Len(sl) THEN {}
  ELSE LET es == {e \in Entries(c) : e.s = sl[i]} IN IF es # {} THEN es ELSE FirstScheme(c, sl, i + 1)

EligibleEntries(c, sl) ==
  LET pool == IF sl = <<>> THEN Entries(c) ELSE FirstScheme(c, sl, 1)
      pos  == {e \in pool : e.w > 0}
  IN IF pos # {} THEN pos ELSE pool

Eligible(c, sl) == {e.u : e \in EligibleEntries(c, sl)}

-----------------------------------------------------------------------------
(* Operational layer: what chooseHost computes, with the random draw as nondeterminism.                          *)
(* filterAndChooseHost sums the weights of the matching entries, draws r in (0, total] (r = 0 has measure zero)  *)
(* and walks the entries in map order subtracting weights until r <= 0: with total > 0 exactly the entries of    *)
(* positive weight can be hit; with total = 0 the first entry in (arbitrary) map order is returned.              *)
FilterAndChoose(c, pred(_)) ==
  LET es == {e \in Entries(c) : pred(e)}
      pos == {e \in es : e.w > 0}
  IN IF pos # {} THEN {e.u : e \in pos} ELSE {e.u : e \in es}

RECURSIVE ChooseByScheme(_, _, _)
ChooseByScheme(c, sl, i) ==
  IF i > Len(sl) THEN {}
  ELSE LET r == FilterAndChoose(c, LAMBDA e : e.s = sl[i]) IN IF r # {} THEN r ELSE ChooseByScheme(c, sl, i + 1)

CodeChoice(c, sl) == IF sl = <<>> THEN FilterAndChoose(c, LAMBDA e : TRUE) ELSE ChooseByScheme(c, sl, 1)

-----------------------------------------------------------------------------
Init == /\ heap = << <<>> >>
        /\ cur = 1
        /\ history = <<>>
        /\ schemes = <<>>
        /\ last = [set |-> FALSE, host |-> "", err |-> FALSE]

NoLast == last' = [set |-> FALSE, host |-> "", err |-> FALSE]
Record(kind, n, a) == history' = Append(history, [kind |-> kind, node |-> n, ann |-> a])

\* node added or changed with a well-formed, weighted announcement: copy, then replace the entry
UriSet(n, a) ==
  /\ heap' = Append(heap, With(heap[cur], n, a))
  /\ cur' = Len(heap) + 1
  /\ Record("set", n, a)
  /\ UNCHANGED schemes /\ NoLast

\* node deleted: copy, then remove the entry (also when it was not announced)
UriDelete(n) ==
  /\ heap' = Append(heap, Without(heap[cur], n))
  /\ cur' = Len(heap) + 1
  /\ Record("delete", n, <<>>)
  /\ UNCHANGED schemes /\ NoLast

\* malformed payload, weight-less (partition-only) announcement, event for the uris node itself: ignored
UriIgnored(kind, n) ==
  /\ kind \in {"malformed", "weightless", "root"}
  /\ Record(kind, n, <<>>)
  /\ UNCHANGED <<heap, cur, schemes>> /\ NoLast

ServiceUpdate(sl) ==
  /\ schemes' = sl
  /\ UNCHANGED <<heap, cur, history>> /\ NoLast

Resolve ==
  /\ LET cc == CodeChoice(heap[cur], schemes) IN
     IF cc = {} THEN last' = [set |-> TRUE, host |-> "", err |-> TRUE]
     ELSE \E u \in cc : last' = [set |-> TRUE, host |-> u, err |-> FALSE]
  /\ UNCHANGED <<heap, cur, history, schemes>>

Next == \/ \E n \in Nodes, a \in AnnPool : UriSet(n, a)
        \/ \E n \in Nodes : UriDelete(n)
        \/ \E n \in Nodes, k \in {"malformed", "weightless"} : UriIgnored(k, n)
        \/ UriIgnored("root", "")
        \/ \E sl \in SchemePool : ServiceUpdate(sl)
        \/ Resolve

Spec == Init /\ [][Next]_vars

-----------------------------------------------------------------------------
(* Properties *)

\* the snapshot used for resolution is the fold of the event history
FoldInvariant == heap[cur] = Fold(history)

\* snapshots handed out earlier are never modified (every earlier object is potentially held by a resolver)
SnapshotsImmutable == [][\A i \in 1..Len(heap) : heap'[i] = heap[i]]_vars

\* host selection: only eligible hosts, an error exactly when none is eligible
ResolveOK ==
  last.set =>
     /\ last.err <=> (Eligible(heap[cur], schemes) = {})
     /\ ~last.err => last.host \in Eligible(heap[cur], schemes)

\* the operational choice and the declarative eligible set coincide (every eligible host can be returned)
ChoiceRefinesEligible == CodeChoice(heap[cur], schemes) = Eligible(heap[cur], schemes)
=============================================================================
