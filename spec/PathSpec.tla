------------------------------ MODULE PathSpec ------------------------------
(* Field exclusion (restlicodec/pathspec.go, writer.go, missing_fields.go).                                           *)
(*                                                                                                                  *)
(* A directive is a sequence of segments; a segment is a token sequence (a field name is <<name>>, "*" is <<"*">>).    *)
(* DECLARATIVE: a scope is excluded iff some directive matches a prefix of it segment-wise, "*" standing for any       *)
(* array item or map key -- the value at that scope and its whole subtree are excluded.                                *)
(* OPERATIONAL: NewPathSpec builds a trie (a node is a function segment -> node); Matches walks it: at each level the  *)
(* wildcard child or the literal child is followed, reaching a node without children means excluded.  Scopes that      *)
(* contain the patch operators $set / $delete carry no obligation at this level (C07's statement defines partial       *)
(* updates end to end; Patch.tla covers them).                                                                         *)
EXTENDS Reader

Star == <<"*">>
SegMatches(d, s) == d = Star \/ d = s
DirMatches(d, scope) == Len(d) <= Len(scope) /\ \A i \in 1..Len(d) : SegMatches(d[i], scope[i])
Excl(spec, scope) == \E d \in spec : DirMatches(d, scope)

\* ---- operational trie: a set-of-directives view is enough to define the trie: Children(spec, prefix) = next segments
Children(spec, prefix) == {d[Len(prefix) + 1] : d \in {x \in spec : Len(x) > Len(prefix) /\ SubSeq(x, 1, Len(prefix)) = prefix}}
\* NewPathSpec inserts directives one after the other; a node is a leaf iff it has no children in the final trie.  A
\* directive that is a proper prefix of another one therefore stops being a leaf: the implementation keeps only the
\* longer one.  NormalizedTrie models the repaired construction (the shorter directive wins, as the declarative
\* reading demands); RawTrie the construction as it was.
RawLeaf(spec, prefix) == Children(spec, prefix) = {}
Shadowed(spec) == {d \in spec : \E e \in spec : e # d /\ Len(e) < Len(d) /\ SubSeq(d, 1, Len(e)) = e}
Normalized(spec) == spec \ Shadowed(spec)

RECURSIVE TrieMatches(_, _, _, _)
\* prefixes: the set of trie nodes (as literal directive prefixes) reached so far following wildcard or literal children
TrieMatches(spec, scope, i, nodes) ==
  IF nodes = {} THEN FALSE
  ELSE IF \E n \in nodes : n # <<>> /\ RawLeaf(spec, n) THEN TRUE
  ELSE IF i > Len(scope) THEN FALSE
  ELSE TrieMatches(spec, scope, i + 1,
         UNION {{Append(n, c) : c \in {x \in Children(spec, n) : x = Star \/ x = scope[i]}} : n \in nodes})
\* note: genericMatches tries the wildcard child first and the literal child only if the wildcard subtree does not
\* match (matches(WildCard) || matches(p0)): following both, as a set, is the same predicate
OperMatches(spec, scope) == spec # {} /\ TrieMatches(Normalized(spec), scope, 1, {<<>>})
OperMatchesRaw(spec, scope) == spec # {} /\ TrieMatches(spec, scope, 1, {<<>>})

-----------------------------------------------------------------------------
(* What an encoder configured with spec emits: the value without the subtrees at excluded scopes *)
RECURSIVE Strip(_, _, _)
Strip(av, spec, scope) ==
  CASE av.t = "rec" -> [t |-> "rec", v |-> LET keep == SelectSeq(av.v, LAMBDA e : ~Excl(spec, Append(scope, <<e.k>>)))
                                          IN [i \in DOMAIN keep |-> [k |-> keep[i].k, v |-> Strip(keep[i].v, spec, Append(scope, <<keep[i].k>>))]]]
    [] av.t = "map" -> [t |-> "map", v |-> LET keep == SelectSeq(av.v, LAMBDA e : ~Excl(spec, Append(scope, e.k)))
                                          IN [i \in DOMAIN keep |-> [k |-> keep[i].k, v |-> Strip(keep[i].v, spec, Append(scope, keep[i].k))]]]
    [] av.t = "arr" -> [t |-> "arr", v |-> [i \in DOMAIN av.v |-> Strip(av.v[i], spec, Append(scope, Star))]]
    [] av.t = "union" -> [t |-> "union", a |-> av.a, v |-> Strip(av.v, spec, Append(scope, <<av.a>>))]
    [] OTHER -> av
\* a decoder configured with spec rejects the document iff it carries a value at an excluded scope
Carries(av, spec, scope) == Strip(av, spec, scope) # av
\* required fields that are excluded are not reported missing
MissingUnderExclusion(ty, av, spec) ==
  {p \in Missing(ty, av, <<>>) : ~Excl(spec, [i \in DOMAIN p |-> IF p[i].idx > 0 THEN Star ELSE p[i].key])}
=============================================================================
