------------------------------- MODULE Filters -------------------------------
(* The filter chain around a routed request (restli/handler.go: pathNode.receive runs the PreRequest callbacks, then   *)
(* the method; rootNode.ServeHTTP runs the PostRequest callbacks).  A filter is one of                                 *)
(*    "pass"     does nothing                                                                                         *)
(*    "addctx"   PreRequest returns a context carrying its own marker                                                  *)
(*    "failpre"  PreRequest fails with an error response (status 403)                                                  *)
(*    "failpost" PostRequest fails with an error response (status 409)                                                 *)
(* Declarative layer (what C05 promises): PreRequest runs in registration order up to and including the first one that *)
(* fails; the method runs iff none failed, and sees every marker; PostRequest runs, only after the method SUCCEEDED,   *)
(* in reverse registration order up to and including the first one that fails; a filter's PreRequest sees the markers  *)
(* of the filters before it.  Operational layer: the two loops of the handler, step by step.  TLC checks that both     *)
(* produce the same call log and status for every chain of up to MaxFilters filters and both method outcomes.          *)
EXTENDS Integers, Sequences, FiniteSets, TLC

CONSTANTS MaxFilters
Kinds == {"pass", "addctx", "failpre", "failpost"}
Chains == UNION {[1..n -> Kinds] : n \in 0..MaxFilters}
MethodOutcomes == {"ok", "error"}        \* "error": the resource returns an error response with status 418

Call(what, i, seen) == [what |-> what, i |-> i, seen |-> seen]     \* seen: the markers visible in the context
Markers(chain, upto) == {j \in 1..upto : chain[j] = "addctx"}

\* ------------------------------------------------------------------------------------------------ declarative
FirstIn(S, n) == IF S = {} THEN n ELSE CHOOSE i \in S : \A j \in S : i <= j
LastIn(S) == IF S = {} THEN 1 ELSE CHOOSE i \in S : \A j \in S : i >= j
DeclLog(chain, outcome) ==
  LET n == Len(chain)
      fp == {i \in 1..n : chain[i] = "failpre"}
      k == FirstIn(fp, n)                                  \* last PreRequest that runs
      pre == [i \in 1..k |-> Call("pre", i, Markers(chain, i - 1))]
      all == Markers(chain, n)
      ran == fp = {}
      fq == {i \in 1..n : chain[i] = "failpost"}
      j == LastIn(fq)                                      \* last PostRequest that runs (going down from n)
      post == IF ran /\ outcome = "ok" THEN [x \in 1..(n - j + 1) |-> Call("post", n - x + 1, all)] ELSE <<>>
  IN pre \o (IF ran THEN << Call("method", 0, all) >> ELSE <<>>) \o post
DeclStatus(chain, outcome) ==
  LET n == Len(chain) IN
  IF \E i \in 1..n : chain[i] = "failpre" THEN 403
  ELSE IF outcome = "error" THEN 418
  ELSE IF \E i \in 1..n : chain[i] = "failpost" THEN 409
  ELSE 200

\* ------------------------------------------------------------------------------------------------ operational
VARIABLES chain, outcome, pc, i, ctx, log, status
vars == <<chain, outcome, pc, i, ctx, log, status>>
Init == /\ chain \in Chains /\ outcome \in MethodOutcomes
        /\ pc = "pre" /\ i = 1 /\ ctx = {} /\ log = <<>> /\ status = 200
\* for _, f := range filters { newCtx, err = f.PreRequest(req); if err != nil return; if newCtx != nil replace }
Pre == /\ pc = "pre"
       /\ IF i > Len(chain) THEN pc' = "method" /\ UNCHANGED <<i, ctx, log, status>>
          ELSE /\ log' = Append(log, Call("pre", i, ctx))
               /\ IF chain[i] = "failpre" THEN pc' = "respond" /\ status' = 403 /\ UNCHANGED <<i, ctx>>
                  ELSE /\ ctx' = IF chain[i] = "addctx" THEN ctx \cup {i} ELSE ctx
                       /\ i' = i + 1 /\ UNCHANGED <<pc, status>>
       /\ UNCHANGED <<chain, outcome>>
Method == /\ pc = "method"
          /\ log' = Append(log, Call("method", 0, ctx))
          /\ IF outcome = "ok" THEN pc' = "post" /\ i' = Len(chain) /\ UNCHANGED status
             ELSE pc' = "respond" /\ status' = 418 /\ UNCHANGED i
          /\ UNCHANGED <<chain, outcome, ctx>>
\* if err == nil { for i := len(filters)-1; i >= 0; i-- { err = PostRequest(...); if err != nil break } }
Post == /\ pc = "post"
        /\ IF i < 1 THEN pc' = "respond" /\ UNCHANGED <<i, log, status>>
           ELSE /\ log' = Append(log, Call("post", i, ctx))
                /\ IF chain[i] = "failpost" THEN pc' = "respond" /\ status' = 409 /\ UNCHANGED i
                   ELSE i' = i - 1 /\ UNCHANGED <<pc, status>>
        /\ UNCHANGED <<chain, outcome, ctx>>
Next == Pre \/ Method \/ Post \/ (pc = "respond" /\ UNCHANGED vars)
Spec == Init /\ [][Next]_vars

Agree == pc = "respond" => (log = DeclLog(chain, outcome) /\ status = DeclStatus(chain, outcome))
\* resource code never runs behind a failed PreRequest, and PostRequest never runs for a failed method
NoMethodBehindFailure == \A x \in DOMAIN log : log[x].what = "method" => \A y \in 1..(x - 1) : chain[log[y].i] # "failpre"
NoPostAfterError == outcome = "error" => \A x \in DOMAIN log : log[x].what # "post"
=============================================================================
