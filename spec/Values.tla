------------------------------- MODULE Values -------------------------------
(* Abstract values (AV) of the VT schema family and their enumeration.                                             *)
(*                                                                                                                *)
(* Text (strings, bytes, fixed, map keys) is a sequence of TOKENS: a token is an exact character ("a", "(", ...),   *)
(* an exact byte "xHH", or a class name -- "alnum", "uni" (a non-ASCII code point), "hi" (a byte >= 0x80, bytes     *)
(* only), "ctl" (a control character) -- that the harness concretises by seed.  Numbers are ATOMS ("0", "MAX64",    *)
(* "NaN", "1e21", ...): where a number must stand is the model's business, its digits are not (DESIGN section 6).    *)
(*                                                                                                                *)
(*   [t |-> "num", p |-> prim, v |-> atom]   [t |-> "bool", v |-> "true"|"false"]                                   *)
(*   [t |-> "str"|"bytes"|"fixed", v |-> tokens]   [t |-> "enum", v |-> symbol | "$UNKNOWN"]                        *)
(*   [t |-> "rec", v |-> << [k |-> field, v |-> AV] ... >>]      (absent optional fields simply do not occur)        *)
(*   [t |-> "arr", v |-> << AV ... >>]   [t |-> "map", v |-> << [k |-> tokens, v |-> AV] ... >>]  (insertion order)   *)
(*   [t |-> "union", a |-> alias, v |-> AV]   [t |-> "null"]                                                        *)
(*                                                                                                                *)
(* Vals(ty) enumerates, for every type, a base value and every SINGLE-POSITION variation of it (each text position  *)
(* takes every text of the pool, each numeric position every atom, each optional field absent, each container empty *)
(* / one / two elements, each union member), recursively: the quantifier "all values" of C01/C03/C10/C13 is made     *)
(* exhaustive per position rather than over the cross product.                                                      *)
EXTENDS Integers, Sequences, FiniteSets, TLC, Schemas

CONSTANTS TextPool,      \* set of token sequences used for strings / map keys
          BytePool,      \* extra token sequences used for bytes
          WithNullUnion  \* enumerate the null member of nullable unions (its wire form is not fixed by the property
                         \* statements, so the codec configurations leave it out; the validity check C11 includes it)

IntAtoms(p) == IF p = "int32" THEN {"0", "1", "-1", "MAX32", "MIN32"}
               ELSE {"0", "1", "-1", "MAX32", "MIN32", "MAX64", "MIN64", "2^53+1"}
\* ("1e21-" / "1e-7-" are the float64 neighbours just below the formatting switches; as float32 they collapse onto
\*  "1e21" / "1e-7", so the float32 pool does not list them: atoms of one pool denote pairwise different numbers)
FloatAtoms(p) == {"0", "-0", "1.5", "-2.5e-8", "NaN", "+Inf", "-Inf", "1e21", "1e-7", "MAXF32", "TINYF32"}
                 \cup (IF p = "float64" THEN {"MAXF64", "TINYF64", "0.1", "1e21-", "1e-7-"} ELSE {})

Num(p, a) == [t |-> "num", p |-> p, v |-> a]
Str(s) == [t |-> "str", v |-> s]

SetToSeq(S) == LET f[T \in SUBSET S] == IF T = {} THEN <<>> ELSE LET x == CHOOSE x \in T : TRUE IN <<x>> \o f[T \ {x}] IN f[S]
FieldsOf(n) == SchemaOf[n].fields
Idx(seq) == DOMAIN seq

PrimVals(p) ==
  CASE p \in {"int32", "int64"}     -> {Num(p, a) : a \in IntAtoms(p)}
    [] p \in {"float32", "float64"} -> {Num(p, a) : a \in FloatAtoms(p)}
    [] p = "bool"                   -> {[t |-> "bool", v |-> "true"], [t |-> "bool", v |-> "false"]}
    [] p = "string"                 -> {Str(s) : s \in TextPool}
    [] p = "bytes"                  -> {[t |-> "bytes", v |-> s] : s \in TextPool \cup BytePool}
PrimBase(p) ==
  CASE p \in {"int32", "int64"}     -> Num(p, "1")
    [] p \in {"float32", "float64"} -> Num(p, "1.5")
    [] p = "bool"                   -> [t |-> "bool", v |-> "true"]
    [] p = "string"                 -> Str(<<"alnum">>)
    [] p = "bytes"                  -> [t |-> "bytes", v |-> <<"alnum">>]

RECURSIVE Base(_), Vals(_), RecBase(_), RecVals(_), RecValsPart(_, _), RecValsPair(_, _, _), Other(_)

Base(ty) ==
  CASE ty.k = "prim" -> PrimBase(ty.p)
    [] ty.k = "raw"  -> [t |-> "rec", v |-> << [k |-> "x", v |-> Str(<<"alnum">>)] >>]
    [] ty.k = "arr"  -> [t |-> "arr", v |-> << Base(ty.e) >>]
    [] ty.k = "map"  -> [t |-> "map", v |-> << [k |-> <<"alnum">>, v |-> Base(ty.e)] >>]
    [] ty.k = "ref"  ->
         LET s == SchemaOf[ty.n] IN
         CASE s.k = "enum"    -> [t |-> "enum", v |-> s.syms[1]]
           [] s.k = "fixed"   -> [t |-> "fixed", v |-> [i \in 1..s.size |-> "alnum"]]
           [] s.k = "typeref" -> PrimBase(s.p)
           [] s.k = "union"   -> [t |-> "union", a |-> s.members[1].a, v |-> Base(s.members[1].ty)]
           [] s.k = "record"  -> RecBase(ty.n)

\* base record: every field present with its base value
RecBase(n) == [t |-> "rec", v |-> [i \in Idx(FieldsOf(n)) |-> [k |-> FieldsOf(n)[i].n, v |-> Base(FieldsOf(n)[i].ty)]]]

Without(seq, i) == SubSeq(seq, 1, i - 1) \o SubSeq(seq, i + 1, Len(seq))

\* the variations of record n, in parts (part i > 0: field i varies; part 0: base, absences, reversed order) so that
\* model-checking configurations can spread the enumeration over TLC's workers
RecValsPart(n, part) ==
  LET fs == FieldsOf(n)
      b == RecBase(n)
      optional(i) == fs[i].opt \/ fs[i].def # NoDefault
  IN IF part > 0
     THEN {[t |-> "rec", v |-> [b.v EXCEPT ![part] = [k |-> fs[part].n, v |-> x]]] : x \in Vals(fs[part].ty)}
     ELSE {b}
          \cup {[t |-> "rec", v |-> Without(b.v, i)] : i \in {j \in Idx(fs) : optional(j)}}
          \cup {[t |-> "rec", v |-> SelectSeq(b.v, LAMBDA e : \E j \in Idx(fs) : fs[j].n = e.k /\ ~optional(j))]}   \* every optional/defaulted field absent
          \cup {[t |-> "rec", v |-> [i \in Idx(fs) |-> b.v[Len(fs) + 1 - i]]]}                                        \* fields supplied in reverse order
RecVals(n) == UNION {RecValsPart(n, part) : part \in 0..Len(FieldsOf(n))}
\* some value of the type other than its base value
Other(ty) == CHOOSE x \in Vals(ty) : x # Base(ty) /\ (x.t \in {"arr", "map", "str", "bytes"} => x.v # <<>>)
\* TWO positions vary at once (thorough tier): fields i and j of record n both run through their variations
RecValsPair(n, i, j) ==
  LET fs == FieldsOf(n)
      b == RecBase(n)
  IN {[t |-> "rec", v |-> [b.v EXCEPT ![i] = [k |-> fs[i].n, v |-> x], ![j] = [k |-> fs[j].n, v |-> y]]] : x \in Vals(fs[i].ty), y \in Vals(fs[j].ty)}

Vals(ty) ==
  CASE ty.k = "prim" -> PrimVals(ty.p)
    [] ty.k = "raw"  -> {Base(ty), [t |-> "rec", v |-> <<>>],
                         [t |-> "rec", v |-> << [k |-> "n", v |-> Num("int64", "1")], [k |-> "o", v |-> [t |-> "rec", v |-> << [k |-> "b", v |-> [t |-> "bool", v |-> "true"]] >>]] >>]}
    [] ty.k = "arr"  -> {[t |-> "arr", v |-> <<>>], [t |-> "arr", v |-> << Base(ty.e), Base(ty.e) >>]}
                        \cup {[t |-> "arr", v |-> << x >>] : x \in Vals(ty.e)}
                        \cup {[t |-> "arr", v |-> << Base(ty.e), x >>] : x \in Vals(ty.e)}        \* the SECOND element varies too
    [] ty.k = "map"  -> {[t |-> "map", v |-> <<>>],
                         [t |-> "map", v |-> << [k |-> <<"b">>, v |-> Base(ty.e)], [k |-> <<"a">>, v |-> Base(ty.e)] >>],
                         [t |-> "map", v |-> << [k |-> <<"a">>, v |-> Base(ty.e)], [k |-> <<"b">>, v |-> Base(ty.e)] >>],
                         [t |-> "map", v |-> << [k |-> <<"a">>, v |-> Base(ty.e)], [k |-> <<"b">>, v |-> Base(ty.e)], [k |-> <<"B">>, v |-> Base(ty.e)] >>]}
                        \* two entries with DIFFERENT values, in both supply orders (an order-dependent fold over the entries shows)
                        \cup {[t |-> "map", v |-> << [k |-> <<"a">>, v |-> Base(ty.e)], [k |-> <<"b">>, v |-> Other(ty.e)] >>],
                              [t |-> "map", v |-> << [k |-> <<"b">>, v |-> Other(ty.e)], [k |-> <<"a">>, v |-> Base(ty.e)] >>]}
                        \cup {[t |-> "map", v |-> << [k |-> s, v |-> Base(ty.e)] >>] : s \in TextPool}
                        \cup {[t |-> "map", v |-> << [k |-> <<"alnum">>, v |-> x] >>] : x \in Vals(ty.e)}
    [] ty.k = "ref"  ->
         LET s == SchemaOf[ty.n] IN
         CASE s.k = "enum"    -> {[t |-> "enum", v |-> s.syms[i]] : i \in Idx(s.syms)}
           [] s.k = "fixed"   -> {[t |-> "fixed", v |-> [i \in 1..s.size |-> c]] : c \in {"alnum", "x00", "hi", "(", "\"", "%"}}
           [] s.k = "typeref" -> PrimVals(s.p)
           [] s.k = "union"   -> UNION {{[t |-> "union", a |-> s.members[i].a, v |-> x] : x \in Vals(s.members[i].ty)} : i \in Idx(s.members)}
                                 \cup (IF s.null /\ WithNullUnion THEN {[t |-> "null"]} ELSE {})
           [] s.k = "record"  -> RecVals(ty.n)

-----------------------------------------------------------------------------
(* Canon: what decoding yields -- absent defaulted fields carry the schema default, recursively; fields in schema order *)
RECURSIVE Canon(_, _)
FieldVal(rv, name) == LET is == {i \in Idx(rv) : rv[i].k = name} IN IF is = {} THEN [t |-> "none"] ELSE rv[CHOOSE i \in is : TRUE].v
Canon(ty, av) ==
  CASE ty.k = "arr" -> [t |-> "arr", v |-> [i \in Idx(av.v) |-> Canon(ty.e, av.v[i])]]
    [] ty.k = "map" -> [t |-> "map", v |-> [i \in Idx(av.v) |-> [k |-> av.v[i].k, v |-> Canon(ty.e, av.v[i].v)]]]
    [] ty.k = "ref" /\ SchemaOf[ty.n].k = "record" ->
         LET fs == FieldsOf(ty.n)
             val(i) == LET x == FieldVal(av.v, fs[i].n) IN
                       IF x # [t |-> "none"] THEN Canon(fs[i].ty, x) ELSE fs[i].def
             present == SelectSeq([i \in Idx(fs) |-> i], LAMBDA i : val(i) # [t |-> "none"])
         IN [t |-> "rec", v |-> [j \in Idx(present) |-> [k |-> fs[present[j]].n, v |-> val(present[j])]]]
    [] ty.k = "ref" /\ SchemaOf[ty.n].k = "union" /\ av.t = "union" ->
         LET m == CHOOSE m \in {SchemaOf[ty.n].members[i] : i \in Idx(SchemaOf[ty.n].members)} : m.a = av.a
         IN [t |-> "union", a |-> av.a, v |-> Canon(m.ty, av.v)]
    [] OTHER -> av

-----------------------------------------------------------------------------
(* Defaults (C13) *)
DefaultedIdx(n) == {i \in Idx(FieldsOf(n)) : FieldsOf(n)[i].def # NoDefault}
RECURSIVE HasDefaults(_), DefaultInstance(_)
HasDefaults(n) == DefaultedIdx(n) # {}
\* what a freshly constructed default instance carries: every defaulted field its default, and every required
\* record-typed field whose record declares defaults a default instance of that record
DefaultInstance(n) ==
  LET fs == FieldsOf(n)
      nested(i) == fs[i].def = NoDefault /\ ~fs[i].opt /\ fs[i].ty.k = "ref" /\ SchemaOf[fs[i].ty.n].k = "record" /\ HasDefaults(fs[i].ty.n)
      keep == SelectSeq([i \in Idx(fs) |-> i], LAMBDA i : fs[i].def # NoDefault \/ nested(i))
  IN [t |-> "rec", v |-> [j \in Idx(keep) |-> [k |-> fs[keep[j]].n,
                                                 v |-> IF fs[keep[j]].def # NoDefault THEN fs[keep[j]].def ELSE DefaultInstance(fs[keep[j]].ty.n)]]]
\* documents for C13: every SUBSET of the defaulted fields omitted, every other field present with a non-default value
OmitSubsets(n) == {[t |-> "rec", v |-> SelectSeq(RecBase(n).v, LAMBDA e : \A i \in S : FieldsOf(n)[i].n # e.k)] : S \in SUBSET DefaultedIdx(n)}

\* ... and documents that SUPPLY a defaulted container field as an empty container (a value that is present wins, even an
\* empty one over a non-empty default)
EmptyOf(ty) == IF ty.k = "arr" THEN [t |-> "arr", v |-> <<>>] ELSE [t |-> "map", v |-> <<>>]
EmptySupplied(n) ==
  {[t |-> "rec", v |-> [j \in DOMAIN RecBase(n).v |-> IF RecBase(n).v[j].k = FieldsOf(n)[i].n THEN [k |-> RecBase(n).v[j].k, v |-> EmptyOf(FieldsOf(n)[i].ty)] ELSE RecBase(n).v[j]]] :
      i \in {x \in DefaultedIdx(n) : FieldsOf(n)[x].ty.k \in {"arr", "map"}}}
\* ... and documents that SUPPLY a defaulted primitive field as the zero value of its type (0, false, the empty string):
\* present is present, whatever the value
ZeroOf(p) ==
  CASE p \in {"int32", "int64", "float32", "float64"} -> Num(p, "0")
    [] p = "bool"   -> [t |-> "bool", v |-> "false"]
    [] p = "string" -> Str(<<>>)
    [] p = "bytes"  -> [t |-> "bytes", v |-> <<>>]
\* ... and documents that supply a defaulted UNION field with another member than the default's, or a defaulted RECORD field
\* as the empty record (when every field of that record may be absent): nothing of the field's default may be merged in
AllMayBeAbsent(rn) == \A i \in Idx(FieldsOf(rn)) : FieldsOf(rn)[i].opt \/ FieldsOf(rn)[i].def # NoDefault
AltsOf(f) ==
  IF f.def.t = "union" THEN {x \in Vals(f.ty) : x.t = "union" /\ x.a # f.def.a}
  ELSE IF f.def.t = "rec" /\ f.ty.k = "ref" /\ SchemaOf[f.ty.n].k = "record" /\ AllMayBeAbsent(f.ty.n) THEN {[t |-> "rec", v |-> <<>>]}
  ELSE {}
AltSupplied(n) ==
  UNION {{[t |-> "rec", v |-> [j \in DOMAIN RecBase(n).v |-> IF RecBase(n).v[j].k = FieldsOf(n)[i].n THEN [k |-> RecBase(n).v[j].k, v |-> alt] ELSE RecBase(n).v[j]]] :
            alt \in AltsOf(FieldsOf(n)[i])} : i \in DefaultedIdx(n)}
ZeroSupplied(n) ==
  {[t |-> "rec", v |-> [j \in DOMAIN RecBase(n).v |-> IF RecBase(n).v[j].k = FieldsOf(n)[i].n THEN [k |-> RecBase(n).v[j].k, v |-> ZeroOf(FieldsOf(n)[i].ty.p)] ELSE RecBase(n).v[j]]] :
      i \in {x \in DefaultedIdx(n) : FieldsOf(n)[x].ty.k = "prim"}}
\* ... and documents in which that zero value is the ONLY member besides the required fields' base values is covered by
\* OmitSubsets; here: the zero value as the one and only member (records whose other fields are all optional or defaulted)
ZeroOnly(n) ==
  {[t |-> "rec", v |-> << [k |-> FieldsOf(n)[i].n, v |-> ZeroOf(FieldsOf(n)[i].ty.p)] >>] :
      i \in {x \in DefaultedIdx(n) : FieldsOf(n)[x].ty.k = "prim" /\ \A y \in Idx(FieldsOf(n)) : y # x => (FieldsOf(n)[y].opt \/ FieldsOf(n)[y].def # NoDefault)}}

-----------------------------------------------------------------------------
(* Norm: the normal form under abstract equality (C10).  Two values are abstractly equal iff their normal forms are  *)
(* identical: record fields and map entries become SETS (supply / insertion order is irrelevant), everything else is  *)
(* kept, so any difference in a field, element, union member or optional presence shows.  -0 is identified with 0     *)
(* (IEEE equality, which is what == means in Go); NaN stays a distinct atom and is excluded from reflexivity.         *)
RECURSIVE Norm(_)
Norm(av) ==
  CASE av.t = "num"  -> [t |-> "num", v |-> IF av.v = "-0" THEN "0" ELSE av.v]
    [] av.t = "rec"  -> [t |-> "rec", v |-> {[k |-> av.v[i].k, v |-> Norm(av.v[i].v)] : i \in DOMAIN av.v}]
    [] av.t = "map"  -> [t |-> "map", v |-> {[k |-> av.v[i].k, v |-> Norm(av.v[i].v)] : i \in DOMAIN av.v}]
    [] av.t = "arr"  -> [t |-> "arr", v |-> [i \in DOMAIN av.v |-> Norm(av.v[i])]]
    [] av.t = "union" -> [t |-> "union", a |-> av.a, v |-> Norm(av.v)]
    [] OTHER -> av
\* the key part of a complex key: the value without its $params
KeyPart(av) == IF av.t = "rec" THEN [t |-> "rec", v |-> SelectSeq(av.v, LAMBDA e : e.k # "$params")] ELSE av
=============================================================================
