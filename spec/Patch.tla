-------------------------------- MODULE Patch --------------------------------
(* Partial updates (codegen/types/record_partial_update.go, restli/patch): legality and the patch / $set / $delete    *)
(* wire shape; and the other schema validity constraints of C11 (union member count, enum range, fixed size).          *)
(*                                                                                                                    *)
(* A partial update of record n lists, per field, which of the three operations it requests (the generated struct has  *)
(* independent slots, so any combination can be expressed):                                                            *)
(*    [t |-> "patch", v |-> << [k |-> field, del |-> BOOLEAN, set |-> AV | None, sub |-> patch | None] ... >>]           *)
EXTENDS Wire

None == [t |-> "none"]
Touched(o) == o.del \/ o.set # None \/ o.sub # None
OpCount(o) == (IF o.del THEN 1 ELSE 0) + (IF o.set # None THEN 1 ELSE 0) + (IF o.sub # None THEN 1 ELSE 0)

Deletable(f) == f.opt \/ f.def # NoDefault
IsRecordType(ty) == ty.k = "ref" /\ SchemaOf[ty.n].k = "record"

RECURSIVE PatchVals(_, _), BuildOps(_, _, _)
OpsOf(f, depth) ==
  {[k |-> f.n, del |-> d, set |-> s, sub |-> p] :
      d \in (IF Deletable(f) THEN BOOLEAN ELSE {FALSE}),
      s \in {None, Base(f.ty)},
      p \in (IF IsRecordType(f.ty) /\ depth > 0 THEN {None} \cup PatchVals(f.ty.n, depth - 1) ELSE {None})}
BuildOps(n, i, depth) ==
  IF i > Len(FieldsOf(n)) THEN {<<>>}
  ELSE {<<o>> \o rest : o \in OpsOf(FieldsOf(n)[i], depth), rest \in BuildOps(n, i + 1, depth)}
PatchVals(n, depth) == {[t |-> "patch", v |-> ops] : ops \in BuildOps(n, 1, depth)}

\* exclusion: a set of paths (sequences of field names); a path is excluded iff it is one of them
Excluded(excl, path) == path \in excl

RECURSIVE Legal(_, _, _)
Legal(p, excl, scope) ==
  \A i \in DOMAIN p.v : LET o == p.v[i] IN
     Touched(o) => /\ ~Excluded(excl, Append(scope, o.k))
                   /\ OpCount(o) <= 1
                   /\ (o.sub # None => Legal(o.sub, excl, Append(scope, o.k)))

\* wire shape of the patch body: {"$delete": [...], "$set": {...}, "<field>": <nested patch>}
RECURSIVE PatchTree(_)
PatchTree(p) ==
  LET dels == SelectSeq(p.v, LAMBDA o : o.del)
      sets == SelectSeq(p.v, LAMBDA o : o.set # None)
      subs == SelectSeq(p.v, LAMBDA o : o.sub # None)
  IN [j |-> "obj", v |->
        (IF dels = <<>> THEN <<>> ELSE << [k |-> << "$delete" >>, v |-> [j |-> "arr", v |-> [i \in DOMAIN dels |-> [j |-> "str", v |-> << dels[i].k >>]]]] >>)
        \o (IF sets = <<>> THEN <<>> ELSE << [k |-> << "$set" >>, v |-> [j |-> "obj", v |-> [i \in DOMAIN sets |-> [k |-> << sets[i].k >>, v |-> JsonTree(sets[i].set)]]]] >>)
        \o [i \in DOMAIN subs |-> [k |-> << subs[i].k >>, v |-> PatchTree(subs[i].sub)]]]
Body(p) == [j |-> "obj", v |-> << [k |-> << "patch" >>, v |-> PatchTree(p)] >>]

-----------------------------------------------------------------------------
(* Unions, enums, fixed *)
UnionValid(n, membersSet) == LET c == Cardinality(membersSet) IN IF SchemaOf[n].null THEN c <= 1 ELSE c = 1
EnumOrdinalValid(n, k) == k \in 1..Len(SchemaOf[n].syms)
FixedLengthValid(n, len) == len = SchemaOf[n].size
=============================================================================
