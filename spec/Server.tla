------------------------------- MODULE Server -------------------------------
(* Error and status propagation from resource code to the calling client (handler.go ServeHTTP / receive,          *)
(* registerMethod, finders.go, actions.go, server.go; client side errors.go IsErrorResponse, http.go).              *)
(*                                                                                                                  *)
(* One exchange as a pipeline of four actions: Invoke (the resource implementation produces an outcome), Wrap (the   *)
(* Register* adapter turns it into (body, error)), Respond (ServeHTTP writes status / header / body) and ClientDecode *)
(* (the client turns the response into a value or an error).  `held` is the error object as the resource still holds *)
(* it; nothing after Invoke may change it.                                                                           *)
EXTENDS Integers, Sequences, FiniteSets, TLC

CONSTANTS Adapters,       \* adapter kinds
          ErrFieldSets    \* subsets of error-response fields the resource may set

\* default success status per adapter kind (A.2 of DESIGN.md)
DefaultStatus(a) == CASE a \in {"create", "create_ret"} -> 201
                      [] a \in {"update", "partial_update", "delete"} -> 204
                      [] OTHER -> 200
HasBody(a) == a \notin {"create", "update", "partial_update", "delete", "action_noresult"}
\* status the adapter uses when wrapping an error that is not an error response
WrapStatus(a) == IF a \in {"action", "action_noresult"} THEN 400 ELSE 500

ErrFields == {"status", "message", "code", "serviceErrorCode", "exceptionClass", "details"}
\* "wrapped": an ordinary error that merely WRAPS an error response (fmt.Errorf("...: %w", errResp)) -- it is not itself an error
\* response, so it is reported like any other error
\* "created200" / "created202": the implementation of a create chooses the status itself, in the entity it returns (200: the
\* entity existed already -- the lowest success status, right below the default 201)
CreatedStatus(o) == IF o.k = "created200" THEN 200 ELSE 202
Outcomes == {[k |-> "value"], [k |-> "override"], [k |-> "nil"], [k |-> "error"], [k |-> "wrapped"], [k |-> "panic"],
             [k |-> "created200"], [k |-> "created202"]}
            \cup {[k |-> "errresp", f |-> fs] : fs \in ErrFieldSets}
ErrStatus == 418       \* the status a resource sets in its error response
Unset == -1

VARIABLES adapter, outcome, held, pc, wrapped, http, client
vars == <<adapter, outcome, held, pc, wrapped, http, client>>

Init == /\ adapter \in Adapters
        /\ outcome \in Outcomes
        /\ (outcome.k = "nil" => HasBody(adapter))        \* only adapters that return an entity can return a nil one
        /\ (outcome.k \in {"created200", "created202"} => adapter \in {"create", "create_ret"})
        /\ held = {} /\ pc = "invoke" /\ wrapped = <<>> /\ http = <<>> /\ client = <<>>

\* the resource implementation runs; for an error response it keeps the object (set of fields it filled in)
Invoke == /\ pc = "invoke"
          /\ held' = IF outcome.k = "errresp" THEN outcome.f ELSE {}
          /\ pc' = "wrap"
          /\ UNCHANGED <<adapter, outcome, wrapped, http, client>>

\* the adapter: error responses pass through untouched, other errors are wrapped with the adapter's status,
\* a panic is recovered into a 500 error response, a nil entity without error is refused
Wrap == /\ pc = "wrap"
        /\ wrapped' =
             CASE outcome.k = "value"    -> [k |-> "ok", status |-> DefaultStatus(adapter)]
               [] outcome.k = "override" -> [k |-> "ok", status |-> 202]
               [] outcome.k \in {"created200", "created202"} -> [k |-> "ok", status |-> CreatedStatus(outcome)]
               [] outcome.k = "errresp"  -> [k |-> "err", status |-> IF "status" \in outcome.f THEN ErrStatus ELSE Unset,
                                             fields |-> outcome.f, msg |-> "resource"]
               [] outcome.k \in {"error", "wrapped"} -> [k |-> "err", status |-> WrapStatus(adapter), fields |-> {"status", "message"}, msg |-> "wrapped"]
               [] outcome.k = "panic"    -> [k |-> "err", status |-> 500, fields |-> {"status", "message"}, msg |-> "panic"]
               [] outcome.k = "nil"      -> [k |-> "err", status |-> 500, fields |-> {"status", "message"}, msg |-> "nil entity"]
        /\ pc' = "respond"
        /\ UNCHANGED <<adapter, outcome, held, http, client>>

\* ServeHTTP: status, error header, body.  Defaults (status 500, message = status text) go into the RESPONSE only.
Respond == /\ pc = "respond"
           /\ http' = IF wrapped.k = "ok"
                      THEN [status |-> wrapped.status, errhdr |-> FALSE, bodyfields |-> {}]
                      ELSE [status |-> IF wrapped.status = Unset THEN 500 ELSE wrapped.status, errhdr |-> TRUE,
                            bodyfields |-> wrapped.fields \cup {"message"}]
           /\ pc' = "client"
           /\ UNCHANGED <<adapter, outcome, held, wrapped, client>>     \* held is NOT touched

ClientDecode == /\ pc = "client"
                /\ client' = IF http.errhdr
                             THEN [k |-> "resterr", status |-> http.status, fields |-> http.bodyfields]
                             ELSE IF http.status \in 200..299 THEN [k |-> "value"] ELSE [k |-> "unexpected", status |-> http.status]
                /\ pc' = "done"
                /\ UNCHANGED <<adapter, outcome, held, wrapped, http>>

Next == Invoke \/ Wrap \/ Respond \/ ClientDecode \/ (pc = "done" /\ UNCHANGED vars)
Spec == Init /\ [][Next]_vars

-----------------------------------------------------------------------------
(* The property, declaratively, at the end of the exchange *)
Failure(s) == s \in 400..599

ErrorsArriveFaithfully ==
  pc = "done" =>
    CASE outcome.k = "errresp" ->
           /\ http.status = (IF "status" \in outcome.f THEN ErrStatus ELSE 500) /\ http.errhdr
           /\ client.k = "resterr" /\ outcome.f \subseteq client.fields
           /\ client.fields \subseteq outcome.f \cup {"message", "status"}     \* only defaults may be added
      [] outcome.k \in {"error", "wrapped", "panic", "nil"} ->
           /\ Failure(http.status) /\ http.errhdr /\ client.k = "resterr" /\ "message" \in client.fields
      [] outcome.k = "value" -> /\ http.status = DefaultStatus(adapter) /\ ~http.errhdr /\ client.k = "value"
      [] outcome.k = "override" -> /\ http.status = 202 /\ ~http.errhdr /\ client.k = "value"
      [] outcome.k \in {"created200", "created202"} -> /\ http.status = CreatedStatus(outcome) /\ ~http.errhdr /\ client.k = "value"

\* error objects returned by resource code are never modified
ErrorObjectUnmodified == [][pc # "invoke" => held' = held]_vars
HeldIsWhatWasReturned == (pc \notin {"invoke"} /\ outcome.k = "errresp") => held = outcome.f
=============================================================================
