--------------------------- MODULE Trace_Server ---------------------------
(* Code -> model for C08: every recorded exchange (adapter, outcome of the resource, what was on the wire, what     *)
(* the client call returned, whether the held error object is unchanged) must be a behaviour of Server.tla: the     *)
(* four pipeline actions are taken for the logged adapter / outcome and the logged observations must equal the      *)
(* specification's http / client state.                                                                             *)
EXTENDS Server, Json
CONSTANT TraceFile
Trace == ndJsonDeserialize(TraceFile)
VARIABLE l
RangeOf(s) == {s[i] : i \in DOMAIN s}
OutcomeOf(e) == IF e.outcome = "errresp" THEN [k |-> "errresp", f |-> RangeOf(e.fields)] ELSE [k |-> e.outcome]
TInit == l = 1 /\ adapter = "get" /\ outcome = [k |-> "value"] /\ held = {} /\ pc = "idle" /\ wrapped = <<>> /\ http = <<>> /\ client = <<>>
\* start the exchange logged at line l
TStart == /\ pc \in {"idle", "done"} /\ l <= Len(Trace)
          /\ adapter' = Trace[l].adapter /\ outcome' = OutcomeOf(Trace[l])
          /\ held' = {} /\ pc' = "invoke" /\ wrapped' = <<>> /\ http' = <<>> /\ client' = <<>>
          /\ UNCHANGED l
\* the pipeline runs (Server!Next), then the observations are compared and the line consumed
TStep == pc \notin {"idle", "done"} /\ (Invoke \/ Wrap \/ Respond \/ ClientDecode) /\
         (IF pc' = "done"
          THEN LET e == Trace[l] IN
               /\ e.held_same
               /\ e.errhdr = http'.errhdr
               /\ (outcome.k \in {"error", "panic", "nil"} => Failure(e.status))
               /\ (outcome.k \notin {"error", "panic", "nil"} => e.status = http'.status)
               /\ e.client = client'.k
               /\ (outcome.k = "errresp" => /\ outcome.f \subseteq RangeOf(e.clientfields)
                                            /\ RangeOf(e.clientfields) \subseteq outcome.f \cup {"message", "status"})
               /\ l' = l + 1
          ELSE UNCHANGED l)
TNext == TStart \/ TStep
TraceSpec == TInit /\ [][TNext]_<<vars, l>>
ASSUME TLCSet(1, 0)
HighWater == TLCSet(1, IF l > TLCGet(1) THEN l ELSE TLCGet(1))
TraceAccepted == /\ PrintT(<<"HIGHWATER", TLCGet(1), Len(Trace)>>)
                 /\ TLCGet(1) = Len(Trace) + 1
=============================================================================
