CONSTANTS
  TraceFile = "trace.ndjson"
  Adapters = {}
  ErrFieldSets = {}
SPECIFICATION TraceSpec
CONSTRAINT HighWater
INVARIANTS ErrorsArriveFaithfully HeldIsWhatWasReturned
POSTCONDITION TraceAccepted
CHECK_DEADLOCK FALSE
