-------------------------- MODULE Trace_TreeCache --------------------------
(* Code -> model for d2.TreeCache: executions of the real TreeCache (through the real go-zookeeper client) against an     *)
(* in-process ZooKeeper server, recorded in linearization order at the server: environment operations, the cache's       *)
(* reads, the TreeCacheEvents it emitted, and the points where the driver saw it idle.  Validated against the CONTRACT   *)
(* of TreeCache.tla:                                                                                                    *)
(*   - the server's own bookkeeping agrees with the model's tree (reads return what the model holds);                    *)
(*   - NoInvention: an emitted (path, data) was the node's data at some moment not older than the previous event for    *)
(*     that path, a deletion is emitted only for a node that was reported before and was absent at such a moment;        *)
(*   - Converges: at every idle point the emitted events, folded, give exactly the current tree.                        *)
EXTENDS Integers, Sequences, FiniteSets, TLC, Json

CONSTANT TraceFile
Trace == ndJsonDeserialize(TraceFile)
Absent == "absent"
HasPath(e) == "path" \in DOMAIN e
AllP == {Trace[i].path : i \in {j \in DOMAIN Trace : HasPath(Trace[j])}}

VARIABLES l, zk, hist, view, seen      \* hist[p]: every value p has had (hist[p][Len] = zk[p]); seen[p]: index reflected by the last event
vars == <<l, zk, hist, view, seen>>

Fresh == /\ zk = [p \in AllP |-> Absent] /\ hist = [p \in AllP |-> <<>>]
         /\ view = [p \in AllP |-> Absent] /\ seen = [p \in AllP |-> 0]
TInit == l = 1 /\ Fresh
Ev == Trace[l]
Is(e) == l <= Len(Trace) /\ Ev.ev = e /\ l' = l + 1
Change(p, v) == zk' = [zk EXCEPT ![p] = v] /\ hist' = [hist EXCEPT ![p] = Append(@, v)] /\ UNCHANGED <<view, seen>>
Kids(p) == {q \in AllP : zk[q] # Absent /\ Len(q) > Len(p) }   \* (children are compared by name below)

Reset == Is("reset") /\ zk' = [p \in AllP |-> Absent] /\ hist' = [p \in AllP |-> <<>>] /\ view' = [p \in AllP |-> Absent] /\ seen' = [p \in AllP |-> 0]
Create == Is("create") /\ zk[Ev.path] = Absent /\ Change(Ev.path, Ev.data)
Set == Is("set") /\ zk[Ev.path] # Absent /\ Change(Ev.path, Ev.data)
Delete == Is("delete") /\ zk[Ev.path] # Absent /\ Change(Ev.path, Absent)
\* the cache's reads: answered from the tree the model holds
GetData == Is("getdata") /\ (Ev.found <=> zk[Ev.path] # Absent) /\ (Ev.found => Ev.data = zk[Ev.path]) /\ UNCHANGED <<zk, hist, view, seen>>
GetChildren == Is("getchildren") /\ (Ev.found <=> zk[Ev.path] # Absent) /\ UNCHANGED <<zk, hist, view, seen>>
\* an emitted event: the earliest admissible moment is taken (it leaves the most room for later events)
Emit == /\ Is("emit")
        /\ LET p == Ev.path
               v == IF Ev.deleted THEN Absent ELSE Ev.data
               from == IF seen[p] = 0 THEN 1 ELSE seen[p]
               ok == {i \in from..Len(hist[p]) : hist[p][i] = v}
           IN /\ ok # {}
              /\ (Ev.deleted => view[p] # Absent)                 \* a deletion follows an announcement
              /\ view' = [view EXCEPT ![p] = v]
              /\ seen' = [seen EXCEPT ![p] = CHOOSE i \in ok : \A j \in ok : i <= j]
        /\ UNCHANGED <<zk, hist>>
Quiescent == Is("quiescent") /\ (\A p \in AllP : view[p] = zk[p]) /\ UNCHANGED <<zk, hist, view, seen>>

TNext == Reset \/ Create \/ Set \/ Delete \/ GetData \/ GetChildren \/ Emit \/ Quiescent
TraceSpec == TInit /\ [][TNext]_vars

ASSUME TLCSet(1, 0)
HighWater == TLCSet(1, IF l > TLCGet(1) THEN l ELSE TLCGet(1))
TraceAccepted == /\ PrintT(<<"HIGHWATER", TLCGet(1), Len(Trace)>>)
                 /\ TLCGet(1) = Len(Trace) + 1
=============================================================================
