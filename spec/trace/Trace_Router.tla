--------------------------- MODULE Trace_Router ---------------------------
(* Code -> model for C05: exchanges observed on the real server (sampled from the replay, and from random       *)
(* drivers) are checked against the DECLARATIVE layer of Router.tla: the observed outcome must be admitted.      *)
EXTENDS MC_Router, Json

CONSTANT TraceFile
Trace == ndJsonDeserialize(TraceFile)
VARIABLE l

TreeById(id) == CHOOSE t \in Trees : t.id = id

TInit == l = 1 /\ tree = (CHOOSE t \in Trees : TRUE) /\ path = <<>> /\ rest = <<>>
IsEvent(e) == l <= Len(Trace) /\ Trace[l].ev = e /\ l' = l + 1
TReset == IsEvent("reset") /\ UNCHANGED <<tree, path, rest>>
Obs(e) == IF e.st = "routed" THEN [st |-> "routed", node |-> e.node, method |-> e.method, name |-> e.name] ELSE [st |-> e.st]
Proj(o) == IF o.st = "routed" THEN [st |-> "routed", node |-> o.node, method |-> o.method, name |-> o.name] ELSE [st |-> o.st]
TReq == /\ IsEvent("req")
        /\ LET e == Trace[l]
               t == TreeById(e.t)
               rq == [verb |-> e.verb, hdr |-> e.hdr, path |-> e.path, q |-> e.q, ids |-> e.ids, act |-> e.act]
               adm == {Proj(o) : o \in Expected(t, rq)}
           IN /\ \/ Unspecified(t, rq)
                 \/ Obs(e) \in adm
                 \/ (e.fragile /\ e.st = "400" /\ \E o \in adm : o.st = "routed")
              /\ tree' = t /\ path' = e.path
              /\ rest' = [verb |-> e.verb, hdr |-> e.hdr, q |-> e.q, ids |-> e.ids, act |-> e.act]
TNext == TReset \/ TReq
TraceSpec == TInit /\ [][TNext]_<<tree, path, rest, l>>

ASSUME TLCSet(1, 0)
HighWater == TLCSet(1, IF l > TLCGet(1) THEN l ELSE TLCGet(1))
TraceAccepted == /\ PrintT(<<"HIGHWATER", TLCGet(1), Len(Trace)>>)
                 /\ TLCGet(1) = Len(Trace) + 1
=============================================================================
