CONSTANTS
  TraceFile = "trace.ndjson"
  Nodes = {}
  AnnPool = {}
  SchemePool = {}
SPECIFICATION TraceSpec
CONSTRAINT HighWater
INVARIANTS FoldInvariant ResolveOK
POSTCONDITION TraceAccepted
CHECK_DEADLOCK FALSE
