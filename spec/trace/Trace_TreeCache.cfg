CONSTANTS
  TraceFile = "trace.ndjson"
SPECIFICATION TraceSpec
CONSTRAINT HighWater
POSTCONDITION TraceAccepted
CHECK_DEADLOCK FALSE
