----------------------------- MODULE Trace_Url -----------------------------
(* Code -> model for C15: URLs built by the real client for random contexts and for keys / queries encoded by the *)
(* real ROR2 escapers (every byte value); the observed path, split into segments, must be ExpectedPath.           *)
EXTENDS Url, Json
CONSTANT TraceFile
Trace == ndJsonDeserialize(TraceFile)
VARIABLE l
TInit == l = 1 /\ ctx = <<>> /\ rp = <<>> /\ slash = FALSE /\ host = FALSE /\ query = "none"
TUrl == /\ l <= Len(Trace) /\ l' = l + 1
        /\ LET e == Trace[l] IN
           /\ ~e.err
           /\ Unspecified(e.ctx) \/ e.path = ExpectedPath(e.ctx, e.rp)
           /\ e.query_out = e.query_in
           /\ e.prefix_ok
           /\ ctx' = e.ctx /\ rp' = e.rp
        /\ UNCHANGED <<slash, host, query>>
TraceSpec == TInit /\ [][TUrl]_<<vars, l>>
ASSUME TLCSet(1, 0)
HighWater == TLCSet(1, IF l > TLCGet(1) THEN l ELSE TLCGet(1))
TraceAccepted == /\ PrintT(<<"HIGHWATER", TLCGet(1), Len(Trace)>>)
                 /\ TLCGet(1) = Len(Trace) + 1
=============================================================================
