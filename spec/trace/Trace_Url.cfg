CONSTANTS
  TraceFile = "trace.ndjson"
  CtxSegs = {}
  MaxCtx = 0
  ResourcePaths = {}
SPECIFICATION TraceSpec
CONSTRAINT HighWater
POSTCONDITION TraceAccepted
CHECK_DEADLOCK FALSE
