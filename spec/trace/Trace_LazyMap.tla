--------------------------- MODULE Trace_LazyMap ---------------------------
(* Code -> model for C18.  A history recorded from the real lazy map (call / compute / ret events of every        *)
(* goroutine, in execution order; many executions separated by reset events) is accepted iff it is a behaviour of *)
(* an ATOMIC map offering compute-if-absent: every operation takes effect at one silent linearization step        *)
(* between its call and its ret, its results are the sequential ones, and the caller-supplied compute function    *)
(* ran exactly when the operation found the key absent.  This is the declarative reference that LazyMap.tla is    *)
(* checked against (invariant Linearizable); here TLC searches for the linearization points of the real history.  *)
EXTENDS Integers, Sequences, TLC, Json

CONSTANT TraceFile
Trace == ndJsonDeserialize(TraceFile)

Keys == 1..3
G == 0..3          \* 0 is the controller's final Load of every key after quiescence

VARIABLES l,       \* next line of the trace
          am,      \* the abstract map: key -> value, 0 = absent
          pend     \* per goroutine: its operation in progress

vars == <<l, am, pend>>
None == [op |-> "none"]

Init == /\ l = 1
        /\ am = [k \in Keys |-> 0]
        /\ pend = [g \in G |-> None]

IsEvent(e) == l <= Len(Trace) /\ Trace[l].ev = e /\ l' = l + 1

TReset == /\ IsEvent("reset")
          /\ \A g \in G : pend[g] = None
          /\ am' = [k \in Keys |-> 0]
          /\ UNCHANGED pend

TCall == /\ IsEvent("call")
         /\ LET e == Trace[l] IN
            /\ pend[e.g] = None
            /\ pend' = [pend EXCEPT ![e.g] = [op |-> e.op, key |-> e.key, arg |-> e.arg, lin |-> FALSE,
                                              rv |-> 0, ok |-> FALSE, comp |-> FALSE, did |-> FALSE]]
         /\ UNCHANGED am

\* the linearization point of g's operation: silent, not in the trace
Lin(g) == /\ pend[g] # None /\ ~pend[g].lin
          /\ LET o == pend[g] k == o.key IN
             CASE o.op = "los" ->
                    IF am[k] = 0
                    THEN /\ am' = [am EXCEPT ![k] = o.arg]
                         /\ pend' = [pend EXCEPT ![g] = [o EXCEPT !.lin = TRUE, !.rv = o.arg, !.ok = TRUE, !.comp = TRUE]]
                    ELSE /\ am' = am
                         /\ pend' = [pend EXCEPT ![g] = [o EXCEPT !.lin = TRUE, !.rv = am[k], !.ok = TRUE]]
               [] o.op = "load" ->
                    /\ am' = am
                    /\ pend' = [pend EXCEPT ![g] = [o EXCEPT !.lin = TRUE, !.rv = am[k], !.ok = (am[k] # 0)]]
               [] o.op = "store" ->
                    /\ am' = [am EXCEPT ![k] = o.arg]
                    /\ pend' = [pend EXCEPT ![g] = [o EXCEPT !.lin = TRUE, !.rv = o.arg, !.ok = TRUE]]
          /\ UNCHANGED l

\* the caller-supplied compute function ran (at most once per operation, only for load-or-compute, on its key)
TCompute == /\ IsEvent("compute")
            /\ LET e == Trace[l] o == pend[e.g] IN
               /\ o # None /\ o.op = "los" /\ o.key = e.key /\ ~o.did
               /\ pend' = [pend EXCEPT ![e.g] = [o EXCEPT !.did = TRUE]]
            /\ UNCHANGED am

TRet == /\ IsEvent("ret")
        /\ LET e == Trace[l] o == pend[e.g] IN
           /\ o # None /\ o.lin
           /\ e.rv = o.rv /\ e.ok = o.ok
           /\ o.did = o.comp
           /\ pend' = [pend EXCEPT ![e.g] = None]
        /\ UNCHANGED am

Next == TReset \/ TCall \/ TCompute \/ TRet \/ \E g \in G : Lin(g)

TraceSpec == Init /\ [][Next]_vars

\* acceptance: some behaviour consumed every line (high-water mark, -workers 1)
ASSUME TLCSet(1, 0)
HighWater == TLCSet(1, IF l > TLCGet(1) THEN l ELSE TLCGet(1))
TraceAccepted == /\ PrintT(<<"HIGHWATER", TLCGet(1), Len(Trace)>>)
                 /\ TLCGet(1) = Len(Trace) + 1
=============================================================================
