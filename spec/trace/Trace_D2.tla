----------------------------- MODULE Trace_D2 -----------------------------
(* Code -> model for C19: event histories driven through the real D2 client (random, richer data than the        *)
(* model-checking pool) are replayed on D2.tla's own actions; the snapshot observed after every event, every      *)
(* later inspection of a snapshot handed out earlier, and every resolution result must be what the specification  *)
(* allows.  FoldInvariant and ResolveOK are evaluated on every state of the observed execution.                   *)
EXTENDS D2, Json

CONSTANT TraceFile
Trace == ndJsonDeserialize(TraceFile)

VARIABLE l
tvars == <<vars, l>>

\* a logged snapshot is a sequence of [n |-> node, a |-> announcement], sorted by node
StateOf(s) == [n \in {s[i].n : i \in DOMAIN s} |-> s[CHOOSE i \in DOMAIN s : s[i].n = n].a]

IsEvent(e) == l <= Len(Trace) /\ Trace[l].ev = e /\ l' = l + 1

TInit == Init /\ l = 1

TReset == /\ IsEvent("reset")
          /\ heap' = << <<>> >> /\ cur' = 1 /\ history' = <<>> /\ schemes' = <<>> /\ NoLast

TUri == /\ IsEvent("uri")
        /\ LET e == Trace[l] IN
           /\ CASE e.kind = "set"    -> UriSet(e.node, e.ann)
                [] e.kind = "delete" -> UriDelete(e.node)
                [] OTHER             -> UriIgnored(e.kind, e.node)
           /\ StateOf(e.state) = heap'[cur']          \* the snapshot the client now resolves against

TService == IsEvent("service") /\ ServiceUpdate(Trace[l].schemes)

TResolve == /\ IsEvent("resolve")
            /\ Resolve
            /\ last'.host = Trace[l].host /\ last'.err = Trace[l].err

\* a snapshot handed out earlier, looked at now, is still the object it was
TInspect == /\ IsEvent("inspect")
            /\ Trace[l].idx \in 1..Len(heap)
            /\ StateOf(Trace[l].state) = heap[Trace[l].idx]
            /\ UNCHANGED vars

TNext == TReset \/ TUri \/ TService \/ TResolve \/ TInspect
TraceSpec == TInit /\ [][TNext]_tvars

ASSUME TLCSet(1, 0)
HighWater == TLCSet(1, IF l > TLCGet(1) THEN l ELSE TLCGet(1))
TraceAccepted == /\ PrintT(<<"HIGHWATER", TLCGet(1), Len(Trace)>>)
                 /\ TLCGet(1) = Len(Trace) + 1
=============================================================================
