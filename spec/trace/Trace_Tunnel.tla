--------------------------- MODULE Trace_Tunnel ---------------------------
(* Code -> model for C14: exchanges run by a random driver through the real client / wire / server with queries   *)
(* far longer and richer than the model-checking pool.  Each logged exchange carries the byte length of its query,  *)
(* the threshold, the damage applied and what was observed; the specification decides what must have been          *)
(* observed (Tunnels, transparency, rejection).                                                                     *)
EXTENDS Integers, Sequences, TLC, Json
CONSTANT TraceFile
Trace == ndJsonDeserialize(TraceFile)
VARIABLE l
Tunnels(qlen, t) == t > 0 /\ qlen > t          \* same definition as Tunnel.tla, on the byte length
TInit == l = 1
TExchange ==
  /\ l <= Len(Trace) /\ l' = l + 1
  /\ LET e == Trace[l] IN
     /\ ~e.panic
     /\ e.tunnelled = Tunnels(e.qlen, e.th)                        \* TunnelledIffAbove
     /\ ~Tunnels(e.qlen, e.th) => e.untouched                      \* UntouchedBelowThreshold
     /\ (e.edit \in {"none", "stray_override"} \/ ~e.tunnelled) => e.transparent   \* Transparent (other edits of an untunnelled request are no-ops here)
     /\ (e.edit \notin {"none", "stray_override"} /\ e.tunnelled) => e.rejected    \* DamagedRejected
TraceSpec == TInit /\ [][TExchange]_l
ASSUME TLCSet(1, 0)
HighWater == TLCSet(1, IF l > TLCGet(1) THEN l ELSE TLCGet(1))
TraceAccepted == /\ PrintT(<<"HIGHWATER", TLCGet(1), Len(Trace)>>)
                 /\ TLCGet(1) = Len(Trace) + 1
=============================================================================
