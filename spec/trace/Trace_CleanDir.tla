-------------------------- MODULE Trace_CleanDir --------------------------
(* Code -> model for C20: directory trees built by a random driver on a real file system (more names, deeper,     *)
(* wider than the model-checking pool), cleaned by the real CleanTargetDir; the listing observed afterwards must   *)
(* be exactly what CleanDir.tla computes (operational layer) and what it specifies (declarative layer).            *)
EXTENDS CleanDir, Json

CONSTANT TraceFile
Trace == ndJsonDeserialize(TraceFile)
VARIABLE l

RangeOf(s) == {s[i] : i \in DOMAIN s}
RECURSIVE FromJ(_)
\* logged tree: [gone, files: sequence of [n, k], dirs: sequence of [n, d]]
FromJ(j) == IF j.gone THEN Gone
            ELSE Dir([n \in {f.n : f \in RangeOf(j.files)} \cup {d.n : d \in RangeOf(j.dirs)} |->
                        IF \E f \in RangeOf(j.files) : f.n = n
                        THEN File((CHOOSE f \in RangeOf(j.files) : f.n = n).k)
                        ELSE FromJ((CHOOSE d \in RangeOf(j.dirs) : d.n = n).d)])

TInit == l = 1 /\ target = Gone /\ isDot = FALSE /\ built = TRUE /\ top = {} /\ sub1 = Gone
TClean == /\ l <= Len(Trace) /\ l' = l + 1
          /\ LET e == Trace[l] t == FromJ(e.target) IN
             /\ FromJ(e.result) = Clean(t, e.dot)          \* what the code left is what the specification computes
             /\ FromJ(e.again) = Clean(t, e.dot)           \* and a second cleaning changes nothing
             /\ target' = t /\ isDot' = e.dot
          /\ UNCHANGED <<built, top, sub1>>
TraceSpec == TInit /\ [][TClean]_<<target, isDot, built, top, sub1, l>>

ASSUME TLCSet(1, 0)
HighWater == TLCSet(1, IF l > TLCGet(1) THEN l ELSE TLCGet(1))
TraceAccepted == /\ PrintT(<<"HIGHWATER", TLCGet(1), Len(Trace)>>)
                 /\ TLCGet(1) = Len(Trace) + 1
=============================================================================
