CONSTANTS
  TraceFile = "trace.ndjson"
  MaxDepth = 1
  ExtraKinds = {}
  MaxEntries = 1
SPECIFICATION TraceSpec
CONSTRAINT HighWater
INVARIANTS CleanMatchesExpected Idempotent UserFilesUntouched
POSTCONDITION TraceAccepted
CHECK_DEADLOCK FALSE
