CONSTANTS
  TraceFile = "trace.ndjson"
  MaxPath = 3
  Trees <- MCTreesQuick
  PathsOf <- MCPathsOf
  Qs <- MCQs
  Acts <- MCActs
SPECIFICATION TraceSpec
CONSTRAINT HighWater
POSTCONDITION TraceAccepted
CHECK_DEADLOCK FALSE
