CONSTANTS
  TraceFile = "trace.ndjson"
  MaxPath = 3
  Trees <- MCTreesThorough
  PathsOf <- MCPathsOf
  Qs <- MCQs
  Acts <- MCActs
SPECIFICATION TraceSpec
CONSTRAINT HighWater
POSTCONDITION TraceAccepted
CHECK_DEADLOCK FALSE
