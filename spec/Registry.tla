------------------------------- MODULE Registry -------------------------------
(* The generator's type registry (v2/codegen/utils/type_registry.go): which types are flagged cyclic and moved to the  *)
(* conflictResolution package, and how clashing names are resolved there.                                              *)
(*                                                                                                                    *)
(* A schema set is a reference graph gr: ns[t] (namespace, a sequence of segments), nm[t] (type name, a sequence of    *)
(* atomic tokens so that concatenation is sequence concatenation), refs[t] (referenced types).  A type lives in        *)
(* package ns[t] unless flagged, then in "conflictResolution".  flagCyclicDependencies looks, from every type, for a   *)
(* path that leaves a package and comes back to it (findCycle), flags the types of the cycle and everything they       *)
(* reference (flagCyclic), and repeats.  Go iterates maps in random order, so BOTH loops are nondeterministic choices   *)
(* here: Spec explores every order (the generator as it was); SortedRun is the one behaviour of the repaired           *)
(* generator (identifiers sorted by full name).  Checked: termination, the package import graph of every result is     *)
(* acyclic, SortedRun is one of Spec's behaviours, and CONFLUENCE -- the result is the same for every order (refuted   *)
(* for Spec by TLC: three types over two namespaces suffice; this is how the generator's nondeterministic output was   *)
(* found).  remediateConflictingNames then renames flagged types that share a name by prefixing namespace segments;    *)
(* NoDuplicateNames says the names in every package end up distinct.                                                   *)
EXTENDS Integers, Sequences, FiniteSets, TLC

CONSTANTS Types, Graphs,
          Order,         \* "sorted": the generator as repaired (identifiers visited in full-name order); "any": map iteration order, as it was
          PackagePass,   \* TRUE: the generator as repaired (package-level pass after the type-level one)
          TokRank(_),    \* byte order of the (single-character) tokens, for sorting by full name
          Up(_)          \* ExportedIdentifier of a namespace segment, as a name token

VARIABLES g, cyclic, todo, done
vars == <<g, cyclic, todo, done>>

CR == <<"conflictResolution">>
Pkg(gr, t, cyc) == IF t \in cyc THEN CR ELSE gr.ns[t]
Range(s) == {s[i] : i \in DOMAIN s}
Max(S) == CHOOSE x \in S : \A y \in S : y <= x

\* Path.IntroducesCycle: scanning the path backwards, the first node of next's package met after a node of another one
IntroducesCycle(gr, path, next, cyc) ==
  LET np == Pkg(gr, next, cyc)
      cand == {i \in DOMAIN path : Pkg(gr, path[i], cyc) = np /\ \E j \in (i + 1)..Len(path) : Pkg(gr, path[j], cyc) # np}
  IN IF cand = {} THEN <<>> ELSE Append(SubSeq(path, Max(cand), Len(path)), next)

RECURSIVE FindCycle(_, _, _, _)
\* the set of cycles findCycle may return: the first one met in DFS order, for some iteration order of the reference sets
FindCycle(gr, next, path, cyc) ==
  LET c == IntroducesCycle(gr, path, next, cyc) IN
  IF c # <<>> THEN {c}
  ELSE IF \E i \in DOMAIN path : path[i] = next THEN {}
  ELSE UNION {FindCycle(gr, ch, Append(path, next), cyc) : ch \in gr.refs[next] \ cyc}

\* flagCyclic: the node and, transitively, everything it references
RECURSIVE Closure(_, _, _)
Closure(gr, S, cyc) == LET more == UNION {gr.refs[t] : t \in S} \ (S \cup cyc) IN IF more = {} THEN S ELSE Closure(gr, S \cup more, cyc)

\* ------------------------------------------------------------------------------------------------ sorted order
\* full name "a.b.Name" as a sequence of byte ranks ('.' sorts before every letter)
FullName(gr, t) ==
  LET segs == gr.ns[t] IN
  [i \in 1..(2 * Len(segs)) |-> IF i % 2 = 1 THEN TokRank(segs[(i + 1) \div 2]) ELSE 0] \o [i \in 1..Len(gr.nm[t]) |-> TokRank(gr.nm[t][i])]
LexLess(s, t) ==
  \E i \in 1..(Len(s) + 1) :
    /\ \A j \in 1..(i - 1) : j <= Len(t) /\ s[j] = t[j]
    /\ \/ i = Len(s) + 1 /\ Len(t) >= i
       \/ i <= Len(s) /\ i <= Len(t) /\ s[i] < t[i]
MinOf(gr, S) == CHOOSE x \in S : \A y \in S \ {x} : LexLess(FullName(gr, x), FullName(gr, y))

RECURSIVE FindCycleSorted(_, _, _, _), FirstChild(_, _, _, _)
FindCycleSorted(gr, next, path, cyc) ==
  LET c == IntroducesCycle(gr, path, next, cyc) IN
  IF c # <<>> THEN c
  ELSE IF \E i \in DOMAIN path : path[i] = next THEN <<>>
  ELSE FirstChild(gr, gr.refs[next] \ cyc, Append(path, next), cyc)
FirstChild(gr, children, path, cyc) ==
  IF children = {} THEN <<>>
  ELSE LET c == MinOf(gr, children)
           r == FindCycleSorted(gr, c, path, cyc)
       IN IF r # <<>> THEN r ELSE FirstChild(gr, children \ {c}, path, cyc)
RECURSIVE SortedRun(_, _, _)
SortedRun(gr, remaining, cyc) ==
  IF remaining = {} THEN cyc
  ELSE LET t == MinOf(gr, remaining)
           c == FindCycleSorted(gr, t, <<>>, cyc)
       IN IF c = <<>> THEN SortedRun(gr, remaining \ {t}, cyc)
          ELSE SortedRun(gr, remaining, cyc \cup Closure(gr, Range(c), cyc))

\* flagPackageCycles: import cycles between packages that no chain of type references closes (m uses n through one type, n
\* uses m through an unrelated one).  Every reference crossing to a package that imports the first one back gets both
\* ends flagged.  The result does not depend on any iteration order.
CrossEdges(gr, cyc) == {e \in (Types \ cyc) \X (Types \ cyc) : e[2] \in gr.refs[e[1]] /\ gr.ns[e[1]] # gr.ns[e[2]]}
RECURSIVE ReachP(_, _)
ReachP(S, E) == LET more == {e[2] : e \in {x \in E : x[1] \in S}} \ S IN IF more = {} THEN S ELSE ReachP(S \cup more, E)
PassFlag(gr, cyc) ==
  LET ce == CrossEdges(gr, cyc)
      pe == {<<gr.ns[e[1]], gr.ns[e[2]]>> : e \in ce}
      bad == {e \in ce : gr.ns[e[1]] \in ReachP({gr.ns[e[2]]}, pe)}
      ends == {e[1] : e \in bad} \cup {e[2] : e \in bad}
  IN IF ends = {} THEN cyc ELSE cyc \cup Closure(gr, ends, cyc)
Legacy(gr) == SortedRun(gr, Types, {})
Canonical(gr) == IF PackagePass THEN PassFlag(gr, Legacy(gr)) ELSE Legacy(gr)

Init == g \in Graphs /\ cyclic = {} /\ todo = Types /\ done = FALSE

\* for id := range reg.types { for { cycle := findCycle(id); if none break; flag } }
Process(t) ==
  /\ ~done /\ t \in todo
  /\ Order = "sorted" => t = MinOf(g, todo)
  /\ LET cs == IF Order = "sorted" THEN {FindCycleSorted(g, t, <<>>, cyclic)} \ {<<>>} ELSE FindCycle(g, t, <<>>, cyclic) IN
     IF cs = {} THEN todo' = todo \ {t} /\ UNCHANGED cyclic
     ELSE \E c \in cs : cyclic' = cyclic \cup Closure(g, Range(c), cyclic) /\ UNCHANGED todo
  /\ UNCHANGED <<g, done>>
\* flagPackageCycles, then done
Finish == ~done /\ todo = {} /\ done' = TRUE /\ cyclic' = (IF PackagePass THEN PassFlag(g, cyclic) ELSE cyclic) /\ UNCHANGED <<g, todo>>
Next == (\E t \in Types : Process(t)) \/ Finish \/ (done /\ UNCHANGED vars)
Spec == Init /\ [][Next]_vars

\* ------------------------------------------------------------------------------------------------ names
Suffix(ns, k) == IF Len(ns) > k THEN SubSeq(ns, Len(ns) - k + 1, Len(ns)) ELSE ns
Override(gr, t, k) == [i \in 1..Len(Suffix(gr.ns[t], k)) |-> Up(Suffix(gr.ns[t], k)[i])] \o gr.nm[t]
Group(gr, cyc, t) == {u \in cyc : gr.nm[u] = gr.nm[t]}
\* resolveConflicts: the first attempt (number of namespace segments used as prefix) that makes the group's names distinct
Attempts(gr, S) == {k \in 1..Max({Len(gr.ns[t]) : t \in S}) : \A a, b \in S : a # b => Override(gr, a, k) # Override(gr, b, k)}
GenerationFails(gr, cyc) == \E t \in cyc : Cardinality(Group(gr, cyc, t)) > 1 /\ Attempts(gr, Group(gr, cyc, t)) = {}
FinalName(gr, cyc, t) ==
  IF t \in cyc /\ Cardinality(Group(gr, cyc, t)) > 1 /\ Attempts(gr, Group(gr, cyc, t)) # {}
  THEN LET S == Attempts(gr, Group(gr, cyc, t)) IN Override(gr, t, CHOOSE k \in S : \A j \in S : k <= j)
  ELSE gr.nm[t]
NoDuplicates(gr, cyc) == \A a, b \in Types : (a # b /\ Pkg(gr, a, cyc) = Pkg(gr, b, cyc)) => FinalName(gr, cyc, a) # FinalName(gr, cyc, b)

\* ------------------------------------------------------------------------------------------------ properties
PkgEdges(gr, cyc) == UNION {{<<Pkg(gr, a, cyc), Pkg(gr, b, cyc)>> : b \in gr.refs[a]} : a \in Types}
RECURSIVE Reach(_, _)
Reach(S, E) == LET more == {e[2] : e \in {x \in E : x[1] \in S}} \ S IN IF more = {} THEN S ELSE Reach(S \cup more, E)
Acyclic(E) == LET E2 == {x \in E : x[1] # x[2]} IN \A p \in {e[1] : e \in E2} : p \notin Reach({e[2] : e \in {x \in E2 : x[1] = p}}, E2)
\* the generated packages can be compiled: no import cycle between packages, whatever order the maps were iterated in
ResultAcyclic == done => Acyclic(PkgEdges(g, cyclic))
\* generation is total and yields distinct identifiers per package
Total == done => ~GenerationFails(g, cyclic)
NoDuplicateNames == done => NoDuplicates(g, cyclic)
\* (that the sorted run is one of Spec's behaviours is checked on the exported terminal states by run/props/c12.py)
\* every run ends with the same assignment (REFUTED for Order = "any": map iteration order matters)
Confluent == done => cyclic = Canonical(g)
\* the package-level pass changes nothing for schema sets whose output compiled without it
PassOnlyWhenNeeded == Acyclic(PkgEdges(g, Legacy(g))) => PassFlag(g, Legacy(g)) = Legacy(g)
=============================================================================
