-------------------------------- MODULE Batch --------------------------------
(* Batch calls (restli/batchkeyset, collection_batch_methods.go doBatchQuery, common.BatchResponse                  *)
(* UnmarshalWithKeyLocator): the caller's keys are collected in a key set (hash bucket + equality; complex keys       *)
(* compare on their key part only), each is sent once in the ids parameter, and every entry of the reply's results /    *)
(* statuses / errors maps is filed under the caller's ORIGINAL key.  The server's reply is adversarial: any subset,     *)
(* superset or permutation of the requested keys in each map, keys re-encoded with other params or other (legal)        *)
(* escapes, keys never requested.                                                                                      *)
EXTENDS Integers, Sequences, FiniteSets, TLC

CONSTANTS Parts,      \* key part values
          ParamVals,  \* params values ("none" = no params)
          HashOf,     \* key part -> hash bucket (collisions are forced by the configuration)
          MaxKeys, MaxReply

Key(p, q) == [part |-> p, params |-> q]
Keys == {Key(p, q) : p \in Parts, q \in ParamVals}
KeyEq(a, b) == a.part = b.part                      \* params are ignored
\* a key as the server writes it into a response map: possibly other params, possibly another legal escaping
WireKeys == {[part |-> p, params |-> q, alt |-> e] : p \in Parts, q \in ParamVals, e \in BOOLEAN}
Fields == {"results", "statuses", "errors"}

VARIABLES requested,   \* the caller's keys in call order; the index is the key's identity
          buckets,     \* hash -> sequence of indices into requested (the key set)
          pc, failed, ids, reply, filed
vars == <<requested, buckets, pc, failed, ids, reply, filed>>

Init == /\ requested = <<>> /\ buckets = [h \in {HashOf[p] : p \in Parts} |-> <<>>]
        /\ pc = "adding" /\ failed = FALSE /\ ids = {} /\ reply = <<>> /\ filed = <<>>

InBucket(k) == {buckets[HashOf[k.part]][i] : i \in DOMAIN buckets[HashOf[k.part]]}
Locate(part) == {i \in InBucket(Key(part, "none")) : requested[i].part = part}

\* AddKey: a duplicate under key equality makes the whole call fail before anything is sent
AddKey(k) ==
  /\ pc = "adding" /\ Len(requested) < MaxKeys
  /\ requested' = Append(requested, k)
  /\ IF \E i \in InBucket(k) : KeyEq(requested[i], k)
     THEN failed' = TRUE /\ pc' = "done" /\ UNCHANGED buckets
     ELSE /\ buckets' = [buckets EXCEPT ![HashOf[k.part]] = Append(@, Len(requested) + 1)]
          /\ UNCHANGED <<failed, pc>>
  /\ UNCHANGED <<ids, reply, filed>>

\* the ids parameter: the encoded form of every key of the set (exactly once each; the order is C09's business)
Send == /\ pc = "adding" /\ requested # <<>>
        /\ ids' = {requested[i] : i \in DOMAIN requested}
        /\ pc' = "sent"
        /\ UNCHANGED <<requested, buckets, failed, reply, filed>>

\* adversarial reply: each map holds any set of wire keys, at most one per key part (a JSON object with the same key
\* twice is not a conforming reply)
Reply(r) == /\ pc = "sent"
            /\ \A f \in Fields : \A a, b \in r[f] : a.part = b.part => a = b
            /\ reply' = r /\ pc' = "replied"
            /\ UNCHANGED <<requested, buckets, failed, ids, filed>>

\* UnmarshalWithKeyLocator: every wire key is decoded and located; an unknown key fails the call
Decode == /\ pc = "replied"
          /\ IF \E f \in Fields : \E w \in reply[f] : Locate(w.part) = {}
             THEN failed' = TRUE /\ filed' = <<>>
             ELSE /\ failed' = FALSE
                  /\ filed' = [f \in Fields |-> {[idx |-> CHOOSE i \in Locate(w.part) : TRUE, wire |-> w] : w \in reply[f]}]
          /\ pc' = "done"
          /\ UNCHANGED <<requested, buckets, ids, reply>>

\* results and errors are chosen independently; statuses is empty, mirrors results or mirrors errors (bounds the product)
SmallSets == IF MaxReply = 0 THEN {{}} ELSE {{}} \cup {{w} : w \in WireKeys} \cup (IF MaxReply >= 2 THEN {{a, b} : a \in WireKeys, b \in WireKeys} ELSE {})
Replies == {[results |-> r, errors |-> e, statuses |-> s] : r \in SmallSets, e \in SmallSets, s \in {{}}} \cup
           {[results |-> r, errors |-> e, statuses |-> r] : r \in SmallSets, e \in {{}}} \cup
           {[results |-> {}, errors |-> e, statuses |-> e] : e \in SmallSets}
Next == (\E k \in Keys : AddKey(k)) \/ Send \/ (\E r \in Replies : Reply(r)) \/ Decode \/ (pc = "done" /\ UNCHANGED vars)
Spec == Init /\ [][Next]_vars

-----------------------------------------------------------------------------
\* duplicates (under key equality) are rejected before any request is sent
DuplicatesRejected == (\E i, j \in DOMAIN requested : i # j /\ KeyEq(requested[i], requested[j])) => (failed /\ ids = {})
\* each id is transmitted exactly once: the set of ids has one element per requested key
EachIdOnce == pc \in {"sent", "replied"} => Cardinality(ids) = Len(requested)
\* every entry is filed under the caller's own key whose key part is the entry's, none lost, none attached elsewhere
FiledUnderOriginal ==
  (pc = "done" /\ ~failed /\ filed # <<>>) =>
     \A f \in Fields :
        /\ \A e \in filed[f] : requested[e.idx].part = e.wire.part
        /\ Cardinality(filed[f]) = Cardinality(reply[f])
        /\ \A a, b \in filed[f] : a.idx = b.idx => a = b
\* a reply mentioning a key that was never requested produces an error
UnknownKeyIsAnError ==
  (pc = "done" /\ reply # <<>>) => (failed <=> \E f \in Fields : \E w \in reply[f] : \A i \in DOMAIN requested : requested[i].part # w.part)
=============================================================================
