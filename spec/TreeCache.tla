------------------------------ MODULE TreeCache ------------------------------
(* d2/treecache.go: the mirror of a ZooKeeper subtree that feeds the D2 client with announcement events.              *)
(*                                                                                                                    *)
(* ZooKeeper side: a tree of znodes below a root that always exists; the environment creates, sets and deletes nodes;  *)
(* every read of the cache may leave a ONE-SHOT watch (data watch by GetW, child watch by ChildrenW) that fires on the  *)
(* next matching change.                                                                                               *)
(* Cache side, as the code does it: the loop goroutine handles one forwarded watch event at a time by re-reading the   *)
(* node the event names (recursiveNodeUpdate: GetW, emit an event if the data differs, ChildrenW, recurse into the      *)
(* children it does not know or knows as stopped, drop the children that vanished, start a forwarder goroutine for the  *)
(* two new watches).  The two reads of a node, and the reads of different nodes, are separate ZooKeeper calls: the      *)
(* environment may change the tree between any two of them -- those interleavings are what TLC explores.               *)
(*                                                                                                                    *)
(* Contract (what the D2 client relies on, and what real traces are validated against in Trace_TreeCache.tla):         *)
(*   NoInvention   every emitted (path, data) was the node's data at some moment not older than the previous event for  *)
(*                 that path; a deletion is emitted only for a node that was absent at some such moment                 *)
(*   Converges     whenever the cache is quiescent (nothing in flight, every change seen) the events emitted so far,    *)
(*                 folded, give exactly the current tree                                                               *)
EXTENDS Integers, Sequences, FiniteSets, TLC

CONSTANTS Names, MaxDepth, Values, MaxOps,
          Repaired,     \* TRUE: the cache as repaired (placeholder nodes are created stopped, a node that is read successfully
                        \* is live again); FALSE: as it was
          EagerWake     \* TRUE: a forwarder whose notification has arrived queues its event before anything else happens
                        \* (goroutines are scheduled promptly); FALSE: it may be delayed arbitrarily

Absent == "absent"
Root == <<>>
Paths == UNION {[1..d -> Names] : d \in 1..MaxDepth}          \* every node below the root
AllPaths == Paths \cup {Root}
Parent(p) == SubSeq(p, 1, Len(p) - 1)
ChildrenOf(p) == {q \in Paths : Len(q) = Len(p) + 1 /\ Parent(q) = p}

VARIABLES zk,        \* [Paths -> Values \cup {Absent}]: the data of every node (the root exists, its data never changes)
          ver,       \* [Paths -> Nat]: number of changes of the node so far (for NoInvention)
          hist,      \* [Paths -> Seq(value)]: the value after each change, hist[p][ver[p]] = zk[p]
          dataW, childW,      \* one-shot watches registered at the server
          cdata,     \* cache: [AllPaths -> value \cup {Absent}]: node.data (Absent = nil)
          known,     \* cache: set of paths present in their parent's children map
          stopped,   \* cache: set of paths whose node object is marked stopped
          chans,     \* watch channels handed out by the client library and not yet notified: set of [p, kind, id]
          firedCh,   \* ids of channels that carry a notification (buffered: it waits for whoever reads the channel)
          fwd,       \* live forwarder goroutines: set of [p, dch, cch]: select on the two channels of one read of node p
          sendq,     \* forwarders that took their notification and are blocked sending it to the loop: Go serves blocked
                     \* senders of a channel first come first served
          stack,     \* the loop's recursiveNodeUpdate call stack; <<>> = waiting for an event
          view,      \* the events emitted so far, folded: [Paths -> value \cup {Absent}]
          seenVer,   \* [Paths -> Nat]: version of the node reflected by the last event emitted for it
          ops,       \* environment operations so far
          nextId     \* forwarder ids
vars == <<zk, ver, hist, dataW, childW, chans, firedCh, cdata, known, stopped, fwd, sendq, stack, view, seenVer, ops, nextId>>

Exists(p) == IF Len(p) = 0 THEN TRUE ELSE zk[p] # Absent     \* (IF, not \/: inside an action TLC explores both disjuncts)
Kids(p) == {q \in ChildrenOf(p) : zk[q] # Absent}

\* ------------------------------------------------------------------------------------------------ server
\* firing a one-shot watch: the client library notifies every channel registered for (path, kind)
FireSets(ds, cs) ==     \* ds: paths whose data watch fires, cs: paths whose child watch fires
  LET hit == {c \in chans : (c.kind = "d" /\ c.p \in ds /\ c.p \in dataW) \/ (c.kind = "c" /\ c.p \in cs /\ c.p \in childW)}
  IN /\ dataW' = dataW \ ds
     /\ childW' = childW \ cs
     /\ chans' = chans \ hit
     /\ firedCh' = firedCh \cup {c.id : c \in hit}

Change(p, v) == /\ zk' = [zk EXCEPT ![p] = v]
                /\ ver' = [ver EXCEPT ![p] = @ + 1]
                /\ hist' = [hist EXCEPT ![p] = Append(@, v)]
                /\ ops' = ops + 1

EnvCreate(p, v) == /\ ops < MaxOps /\ zk[p] = Absent /\ Exists(Parent(p))
                   /\ Change(p, v)
                   /\ FireSets({}, {Parent(p)})
                   /\ UNCHANGED <<cdata, known, stopped, fwd, sendq, stack, view, seenVer, nextId>>
EnvSet(p, v) == /\ ops < MaxOps /\ zk[p] # Absent /\ zk[p] # v
                /\ Change(p, v)
                /\ FireSets({p}, {})
                /\ UNCHANGED <<cdata, known, stopped, fwd, sendq, stack, view, seenVer, nextId>>
EnvDelete(p) == /\ ops < MaxOps /\ zk[p] # Absent /\ Kids(p) = {}
                /\ Change(p, Absent)
                /\ FireSets({p}, {p, Parent(p)})
                /\ UNCHANGED <<cdata, known, stopped, fwd, sendq, stack, view, seenVer, nextId>>

\* ------------------------------------------------------------------------------------------------ cache
Emit(p, v) == /\ view' = IF Len(p) = 0 THEN view ELSE [view EXCEPT ![p] = v]
              /\ seenVer' = IF Len(p) = 0 THEN seenVer ELSE [seenVer EXCEPT ![p] = ver[p]]

Ready(f) == f.dch \in firedCh \/ f.cch \in firedCh
Queued(f) == \E i \in DOMAIN sendq : sendq[i] = f
Frame(p, phase) == [p |-> p, phase |-> phase, kids |-> {}, todo |-> {}, snap |-> [q \in Paths |-> 0], dch |-> 0, cch |-> 0]
\* recursiveDelete(p): stop the node, emit the deletion if it had data, recurse over the children map
RECURSIVE Subtree(_, _)
Subtree(p, kn) == {p} \cup UNION {Subtree(q, kn) : q \in {c \in ChildrenOf(p) : c \in kn}}
DeleteEffect(p) ==      \* effect on cdata / stopped / view / seenVer of recursiveDelete(p) (the children map is kept)
  LET S == Subtree(p, known)
      had == {q \in S : cdata[q] # Absent}
  IN /\ cdata' = [q \in AllPaths |-> IF q \in S THEN Absent ELSE cdata[q]]
     /\ stopped' = stopped \cup S
     /\ view' = [q \in Paths |-> IF q \in had THEN Absent ELSE view[q]]
     /\ seenVer' = [q \in Paths |-> IF q \in had THEN ver[q] ELSE seenVer[q]]
     \* done <- : the forwarders of stopped nodes exit, unless a notification is already waiting for them (select then
     \* picks either: both outcomes are explored)
     /\ \E keepReady \in BOOLEAN : fwd' = {f \in fwd : f.p \notin S \/ Queued(f) \/ (keepReady /\ Ready(f))}

Top == stack[Len(stack)]
Pop == SubSeq(stack, 1, Len(stack) - 1)
ReplaceTop(f) == [stack EXCEPT ![Len(stack)] = f]

\* a forwarder goroutine wakes up on its notification and blocks sending the event to the loop
Wake(f) == /\ f \in fwd /\ Ready(f) /\ ~Queued(f)
           /\ sendq' = Append(sendq, f)
           /\ UNCHANGED <<zk, ver, hist, dataW, childW, chans, firedCh, cdata, known, stopped, fwd, stack, view, seenVer, ops, nextId>>

\* the idle loop receives from the longest-waiting sender, walks to (or creates) the node and starts recursiveNodeUpdate on it;
\* the forwarder exits
Receive == /\ stack = <<>> /\ sendq # <<>>
           /\ LET f == Head(sendq)
                  onPath == {q \in Paths : \E i \in 1..Len(f.p) : q = SubSeq(f.p, 1, i)}
                  \* missing nodes on the way are created (as it was: live-looking objects without data or watches; repaired:
                  \* stopped objects, and stopped nodes met on the way are replaced by such fresh ones, children map and all)
                  created == IF Repaired THEN onPath \ (known \ stopped) ELSE onPath \ known
                  below == IF Repaired THEN UNION {Subtree(q, known) \ {q} : q \in created \cap known} \ onPath ELSE {}
              IN /\ fwd' = fwd \ {f}
                 /\ sendq' = Tail(sendq)
                 /\ known' = (known \ below) \cup onPath
                 /\ stopped' = IF Repaired THEN stopped \cup created ELSE stopped \ created
                 /\ stack' = << Frame(f.p, "getdata") >>
           /\ UNCHANGED <<zk, ver, hist, dataW, childW, chans, firedCh, cdata, view, seenVer, ops, nextId>>

\* GetW
StepGetData ==
  /\ stack # <<>> /\ Top.phase = "getdata"
  /\ LET p == Top.p IN
     IF ~Exists(p)
     THEN \* ErrNoNode: recursiveDelete, return
          /\ DeleteEffect(p)
          /\ stack' = Pop
          /\ UNCHANGED <<dataW, childW, chans, firedCh, known, sendq, nextId>>
     ELSE /\ dataW' = dataW \cup {p}
          /\ chans' = chans \cup {[p |-> p, kind |-> "d", id |-> nextId]}
          /\ nextId' = nextId + 1
          /\ LET d == IF Len(p) = 0 THEN "root" ELSE zk[p] IN
             IF cdata[p] # d
             THEN cdata' = [cdata EXCEPT ![p] = d] /\ Emit(p, d)
             ELSE UNCHANGED <<cdata, view, seenVer>>
          /\ stack' = ReplaceTop([Top EXCEPT !.phase = "getchildren", !.dch = nextId])
          /\ stopped' = IF Repaired THEN stopped \ {p} ELSE stopped
          /\ UNCHANGED <<childW, firedCh, known, fwd, sendq>>
  /\ UNCHANGED <<zk, ver, hist, ops>>

\* ChildrenW
StepGetChildren ==
  /\ stack # <<>> /\ Top.phase = "getchildren"
  /\ LET p == Top.p IN
     IF ~Exists(p)
     THEN /\ DeleteEffect(p)
          /\ stack' = Pop
          /\ UNCHANGED <<dataW, childW, chans, firedCh, known, sendq, nextId>>
     ELSE /\ childW' = childW \cup {p}
          /\ chans' = chans \cup {[p |-> p, kind |-> "c", id |-> nextId]}
          /\ nextId' = nextId + 1
          /\ LET kids == Kids(p)
                 fresh == {q \in kids : q \notin known \/ q \in stopped}     \* childNode == nil || childNode.stopped
                 below == UNION {Subtree(q, known) \ {q} : q \in fresh}       \* the new object starts with an empty children map
             IN /\ stack' = ReplaceTop([Top EXCEPT !.phase = "children", !.kids = kids, !.todo = fresh, !.snap = ver, !.cch = nextId])
                /\ known' = (known \ below) \cup fresh
                /\ stopped' = stopped \ (fresh \cup below)      \* a new node object replaces the stopped one
                /\ cdata' = [q \in AllPaths |-> IF q \in fresh THEN Absent ELSE cdata[q]]
          /\ UNCHANGED <<dataW, firedCh, fwd, sendq, view, seenVer>>
  /\ UNCHANGED <<zk, ver, hist, ops>>

\* for _, child := range children { ... recursiveNodeUpdate(child) } -- in any order (a Go slice from the server: fixed,
\* but the order is irrelevant to the contract, so it is left open)
StepDescend ==
  /\ stack # <<>> /\ Top.phase = "children" /\ Top.todo # {}
  /\ \E q \in Top.todo :
       stack' = Append(ReplaceTop([Top EXCEPT !.todo = @ \ {q}]), Frame(q, "getdata"))
  /\ UNCHANGED <<zk, ver, hist, dataW, childW, chans, firedCh, cdata, known, stopped, fwd, sendq, view, seenVer, ops, nextId>>

\* all children visited: remove the vanished ones, start the forwarder, return
StepFinish ==
  /\ stack # <<>> /\ Top.phase = "children" /\ Top.todo = {}
  /\ LET p == Top.p
         gone == {q \in ChildrenOf(p) : q \in known /\ q \notin Top.kids}     \* (node.data == nil cannot hold here: GetW succeeded)
         S == UNION {Subtree(q, known) : q \in gone}
         had == {q \in S : cdata[q] # Absent}
     IN /\ cdata' = [q \in AllPaths |-> IF q \in S THEN Absent ELSE cdata[q]]
        /\ stopped' = stopped \cup S
        /\ view' = [q \in Paths |-> IF q \in had THEN Absent ELSE view[q]]
        \* the deletion reflects the moment the children were listed (the node, hence its subtree, was absent then)
        /\ seenVer' = [q \in Paths |-> IF q \in had THEN Top.snap[q] ELSE seenVer[q]]
        /\ known' = known \ S                         \* delete(node.children, name); their own children maps go with them
        /\ \E keepReady \in BOOLEAN :
             fwd' = {f \in fwd : f.p \notin S \/ Queued(f) \/ (keepReady /\ Ready(f))} \cup {[p |-> p, dch |-> Top.dch, cch |-> Top.cch]}
        /\ stack' = Pop
  /\ UNCHANGED <<zk, ver, hist, dataW, childW, chans, firedCh, sendq, ops, nextId>>

Init == /\ zk = [p \in Paths |-> Absent] /\ ver = [p \in Paths |-> 0] /\ hist = [p \in Paths |-> <<>>]
        /\ dataW = {} /\ childW = {}
        /\ cdata = [p \in AllPaths |-> Absent] /\ known = {} /\ stopped = {}
        /\ chans = {} /\ firedCh = {} /\ fwd = {} /\ sendq = <<>>
        /\ stack = << Frame(Root, "getdata") >>          \* NewTreeCache: the initial recursiveNodeUpdate of the root
        /\ view = [p \in Paths |-> Absent] /\ seenVer = [p \in Paths |-> 0]
        /\ ops = 0 /\ nextId = 1

PendingWake == \E f \in fwd : Ready(f) /\ ~Queued(f)
\* With EagerWake the cache takes no step while a notified forwarder has not queued its event yet; forwarders notified in
\* one burst of environment operations (nothing of the cache in between) still queue in any order, as goroutines woken at
\* about the same time do.
Next == \/ \E f \in fwd : Wake(f)
        \/ \E p \in Paths, v \in Values : EnvCreate(p, v) \/ EnvSet(p, v)
        \/ \E p \in Paths : EnvDelete(p)
        \/ /\ (EagerWake => ~PendingWake)
           /\ (Receive \/ StepGetData \/ StepGetChildren \/ StepDescend \/ StepFinish)
Spec == Init /\ [][Next]_vars

\* ------------------------------------------------------------------------------------------------ contract
\* nothing in flight: the loop is idle and no forwarder has an event to deliver
Quiescent == stack = <<>> /\ ~\E f \in fwd : Ready(f)
Converges == Quiescent => \A p \in Paths : view[p] = zk[p]
\* what has been emitted for a path is a value the node really had, not older than the previous event for it
NoInvention == \A p \in Paths : (seenVer[p] = 0 /\ view[p] = Absent) \/ (seenVer[p] > 0 /\ seenVer[p] <= ver[p] /\ view[p] = hist[p][seenVer[p]])
\* every node the cache believes in has somebody listening for its changes (otherwise a later change would be missed)
Watched == Quiescent => \A p \in Paths : zk[p] # Absent => (\E f \in fwd : f.p = p /\ p \in dataW /\ \E c \in chans : c.id = f.dch)
=============================================================================
