--------------------------------- MODULE Call ---------------------------------
(* One call through the generated client and the generated server bindings (C02): composition of the client's        *)
(* request construction with the router's DECLARATIVE decision table (Router.tla Expected) on the resource tree of     *)
(* the VT family (Schemas.tla VTTree), and the protocol's per-method envelope table.                                   *)
(*                                                                                                                    *)
(* ClientWire(call) is what the generated client puts on the wire for a method: verb, X-RestLi-Method header, path      *)
(* (parent keys, entity key when the method addresses an entity) and the reserved q / ids / action parameters.  TLC     *)
(* checks that the protocol routes that request back to exactly the called method of the called resource, with the      *)
(* caller's keys -- for every method of every resource, tunnelled or not -- and exports every call x argument content   *)
(* x client configuration x server mounting for the replay through real HTTP.                                           *)
EXTENDS Router, Schemas

Nodes == DOMAIN VTTree.nodes
Parent(n) == CHOOSE p \in Nodes : n \in VTTree.nodes[p].subs
Calls ==
  UNION {{[node |-> n, method |-> m, name |-> ""] : m \in VTTree.nodes[n].methods}
         \cup {[node |-> n, method |-> "finder", name |-> f] : f \in VTTree.nodes[n].finders}
         \cup {[node |-> n, method |-> "action", name |-> a] : a \in VTTree.nodes[n].actions} : n \in Nodes}

OnEntity(c) == LET nd == VTTree.nodes[c.node] IN
               nd.coll /\ (c.method \in NeedsEntity \/ (c.method = "action" /\ c.name \in nd.entityActions))
VerbFor(m) == CASE m \in {"get", "batch_get", "get_all", "finder"} -> "GET"
                [] m \in {"create", "batch_create", "partial_update", "batch_partial_update", "action"} -> "POST"
                [] m \in {"update", "batch_update"} -> "PUT"
                [] m \in {"delete", "batch_delete"} -> "DELETE"
PathTo(n) == IF VTTree.nodes[n].depth = 1 THEN <<n>>
             ELSE IF VTTree.nodes[n].parentColl THEN <<Parent(n), "k", n>> ELSE <<Parent(n), n>>
ClientWire(c) ==
  [verb |-> VerbFor(c.method), hdr |-> c.method,
   path |-> PathTo(c.node) \o (IF OnEntity(c) THEN <<"k">> ELSE <<>>),
   q |-> IF c.method = "finder" THEN c.name ELSE "none",
   ids |-> IF c.method \in {"batch_get", "batch_update", "batch_partial_update", "batch_delete"} THEN "some" ELSE "none",
   act |-> IF c.method = "action" THEN c.name ELSE "none"]

\* the envelope table of the protocol (DESIGN.md A.2)
SuccessStatus(c) == CASE c.method \in {"create"} -> 201
                      [] c.method \in {"update", "delete"} -> 204
                      [] c.method = "partial_update" -> 204       \* 200 with return-entity
                      [] OTHER -> 200
HasRequestBody(c) == VerbFor(c.method) \in {"POST", "PUT"}
\* request and response bodies (C03, last clause): kinds -- "none" (no body), "entity" (the record itself), "params" (an
\* object of action parameters) or "object" with its required and allowed top-level members.  Where the resource
\* definition decides between two shapes (return-entity, an action with or without result) both are admitted.
Obj(needed, allowed) == [kinds |-> {"object"}, required |-> needed, allowed |-> allowed]
Plain(kinds) == [kinds |-> kinds, required |-> {}, allowed |-> {}]
RequestEnvelope(c) ==
  CASE c.method \in {"create", "update"} -> Plain({"entity"})
    [] c.method = "partial_update" -> Obj({"patch"}, {"patch"})
    [] c.method = "batch_create" -> Obj({"elements"}, {"elements"})
    [] c.method \in {"batch_update", "batch_partial_update"} -> Obj({"entities"}, {"entities"})
    [] c.method = "action" -> Plain({"params"})
    [] OTHER -> Plain({"none"})
ResponseEnvelope(c) ==
  CASE c.method = "get" -> Plain({"entity"})
    [] c.method \in {"create", "partial_update"} -> Plain({"none", "entity"})
    [] c.method \in {"update", "delete"} -> Plain({"none"})
    [] c.method \in {"get_all", "finder"} -> Obj({"elements"}, {"elements", "paging", "metadata"})
    [] c.method = "action" -> [kinds |-> {"none", "object"}, required |-> {"value"}, allowed |-> {"value"}]
    [] c.method = "batch_create" -> Obj({"elements"}, {"elements"})
    [] OTHER -> Obj({"results"}, {"results", "statuses", "errors"})       \* batch_get / _update / _partial_update / _delete

VARIABLES call, cfg
Configs == [threshold : {0, 1, 100000}, strict : BOOLEAN, ctx : BOOLEAN, mount : {"bare", "mux", "prefix"}, text : 1..6]
CInit == /\ call \in Calls /\ cfg = <<>>
         /\ tree = VTTree /\ path = <<>> /\ rest = <<>>
CNext == cfg = <<>> /\ cfg' \in Configs /\ UNCHANGED <<call, tree, path, rest>>
CSpec == CInit /\ [][CNext]_<<call, cfg, tree, path, rest>>

\* the request the client builds is routed by the protocol to exactly the method that was called, with the caller's keys
RoutesBackToCalledMethod ==
  LET w == ClientWire(call)
      keys == [i \in 1..(Len(SelectSeq(w.path, LAMBDA s : s = "k"))) |-> "k"]
  IN \A o \in Expected(VTTree, w) : o.st = "routed" /\ o.node = call.node /\ o.method = call.method /\ o.name = call.name /\ o.keys = keys
\* ... and the client never relies on a cell the statement leaves unspecified
ClientRequestIsSpecified == ~Unspecified(VTTree, ClientWire(call))
=============================================================================
