------------------------------- MODULE Router -------------------------------
(* restli server: routing of one request and Rest.li method inference (handler.go: ServeHTTP, receive).          *)
(*                                                                                                                *)
(* Two layers.  Expected(tree, req) is DECLARATIVE: the set of admissible outcomes according to the property      *)
(* statement and the Rest.li protocol's inference table, written without looking at the code's algorithm.         *)
(* Oper(tree, req) is OPERATIONAL: a stage-by-stage transcription of what ServeHTTP/receive do (prefix, root       *)
(* lookup, recursive path walk, header lookup, query parsing, inference switch, entity validation, handler         *)
(* lookup).  TLC checks Oper(tree, req) \in Expected(tree, req) for every request of the bound against every tree. *)
(* (Two deviations of the code found with this model -- 404 for an undecodable key, 500 for an unparseable query -- *)
(* were repaired in /repo, see known_findings.json; the flags that modelled them are gone.)                        *)
(*                                                                                                                *)
(* A tree is [roots |-> set of node names, nodes |-> [name -> [coll, methods, finders, actions, subs]]].          *)
(* A request is [verb, hdr, path, q, ids, act]: path is a sequence of segment tokens (resource names, "k" = a     *)
(* well-formed key, "" = empty segment, ")" = a key with unbalanced delimiters, "zz" = a name nobody registered); *)
(* q / act are "none", a registered name or "zz"; ids is "none", "some" or "bad" (a parameter value that is not    *)
(* well-formed ROR2, which makes the whole query string unparseable).                                             *)
EXTENDS Integers, Sequences, FiniteSets, TLC

MethodNames == {"get", "create", "delete", "update", "partial_update", "batch_get", "batch_create", "batch_delete",
                "batch_update", "batch_partial_update", "get_all", "action", "finder"}
Verbs == {"GET", "POST", "PUT", "DELETE", "PATCH"}
Hdrs == MethodNames \cup {"absent", "unknown"}

NeedsEntity   == {"get", "delete", "update", "partial_update"}
ForbidsEntity == {"finder", "create", "batch_get", "batch_create", "batch_delete", "batch_update",
                  "batch_partial_update", "get_all"}          \* "action": either

ValidKey(tok) == tok # ")"

Tail2(s) == SubSeq(s, 3, Len(s))

Routed(node, method, name, keys, segs) ==
  [st |-> "routed", node |-> node, method |-> method, name |-> name, keys |-> keys, segs |-> segs]
Rejected(code) == [st |-> code, node |-> "", method |-> "", name |-> "", keys |-> <<>>, segs |-> <<>>]

-----------------------------------------------------------------------------
(* DECLARATIVE *)

\* Resolve the path: which registered resource does it name, with which entity keys?  Returns a set of readings
\* (a trailing empty segment after a collection may be read as "no entity" or as an entity with an empty key; an
\* empty segment anywhere else names no resource).
RECURSIVE Readings(_, _, _, _, _)
Readings(tree, name, rest, keys, segs) ==
  \* we are at registered node `name`; rest = the segments after its name
  LET n == tree.nodes[name]
      segs2 == Append(segs, name)
  IN IF rest = <<>> THEN {[st |-> "node", node |-> name, ent |-> FALSE, keys |-> keys, segs |-> segs2]}
     ELSE IF n.coll
     THEN LET key == rest[1]
              after == Tail(rest)
          IN (IF key = "" /\ after = <<>>                \* trailing slash on a collection
              THEN {[st |-> "node", node |-> name, ent |-> FALSE, keys |-> keys, segs |-> segs2],
                    [st |-> "node", node |-> name, ent |-> TRUE, keys |-> Append(keys, key), segs |-> segs2]}
              ELSE IF ~ValidKey(key) THEN {[st |-> "badkey"]} \cup (IF after # <<>> THEN {[st |-> "unknown"]} ELSE {})
              ELSE IF after = <<>>
                   THEN {[st |-> "node", node |-> name, ent |-> TRUE, keys |-> Append(keys, key), segs |-> segs2]}
                   ELSE IF after[1] \in n.subs
                        THEN Readings(tree, after[1], Tail(after), Append(keys, key), segs2)
                        ELSE {[st |-> "unknown"]})
     ELSE IF rest[1] \in n.subs THEN Readings(tree, rest[1], Tail(rest), keys, segs2)
          ELSE IF rest = <<"">> THEN {[st |-> "unknown"],      \* trailing slash on a simple resource / action set
                                     [st |-> "node", node |-> name, ent |-> FALSE, keys |-> keys, segs |-> segs2]}
          ELSE {[st |-> "unknown"]}

PathReadings(tree, path) ==
  IF path = <<>> \/ path[1] \notin tree.roots THEN {[st |-> "unknown"]}
  ELSE Readings(tree, path[1], Tail(path), <<>>, <<>>)

\* The protocol's method: named by the header; inferred when the header is absent (or not a method name) on GET, PUT,
\* DELETE; POST requires the header.  Simple resources: from the verb and the action parameter.
\* Returns a set: {} = no method (400), or the set of admissible methods (two readings in unspecified cells).
InferredMethod(coll, verb, hdr, ent, q, ids, act) ==
  IF ~coll
  THEN CASE verb = "GET"    -> {"get"}
         [] verb = "PUT"    -> {"update"}
         [] verb = "DELETE" -> {"delete"}
         [] verb = "POST"   -> IF act # "none" THEN {"action"} ELSE {"partial_update"}
         [] OTHER           -> IF hdr \in MethodNames THEN MethodNames \cup {"none"} ELSE {}  \* unspecified by the statement
  ELSE IF hdr \in MethodNames THEN {hdr}
  ELSE CASE verb = "GET"    -> IF ent THEN {"get"} ELSE IF q # "none" THEN {"finder"}
                               ELSE IF ids # "none" THEN {"batch_get"} ELSE {"get_all"}
         \* PUT / DELETE carrying both an entity key and ids: protocol and statement admit two readings
         [] verb = "PUT"    -> IF ids # "none" THEN (IF ent THEN {"batch_update", "update"} ELSE {"batch_update"}) ELSE {"update"}
         [] verb = "DELETE" -> IF ids # "none" THEN (IF ent THEN {"batch_delete", "delete"} ELSE {"batch_delete"}) ELSE {"delete"}
         [] OTHER           -> {}

\* Is the header contradicting the verb?  (left unspecified by the statement: the header wins, nothing is demanded)
VerbOf(m) == CASE m \in {"get", "batch_get", "get_all", "finder"} -> {"GET"}
               [] m \in {"create", "batch_create", "partial_update", "batch_partial_update", "action"} -> {"POST"}
               [] m \in {"update", "batch_update"} -> {"PUT"}
               [] m \in {"delete", "batch_delete"} -> {"DELETE"}
Contradicts(coll, verb, hdr) == coll /\ hdr \in MethodNames /\ verb \notin VerbOf(hdr)

Dispatch(tree, rd, req) ==     \* rd: a "node" reading
  LET n == tree.nodes[rd.node]
      ms == InferredMethod(n.coll, req.verb, req.hdr, rd.ent, req.q, req.ids, req.act)
      one(m) ==
        IF m = "none" THEN Rejected("400")
        ELSE IF m \in NeedsEntity /\ ~rd.ent /\ n.coll THEN Rejected("400")
        ELSE IF m \in ForbidsEntity /\ rd.ent THEN Rejected("400")
        ELSE IF m = "finder" THEN IF req.q \in n.finders THEN Routed(rd.node, m, req.q, rd.keys, rd.segs) ELSE Rejected("400")
        ELSE IF m = "action" THEN IF req.act \in n.actions THEN Routed(rd.node, m, req.act, rd.keys, rd.segs) ELSE Rejected("400")
        ELSE IF m \in n.methods THEN Routed(rd.node, m, "", rd.keys, rd.segs) ELSE Rejected("400")
  IN (IF ms = {} THEN {Rejected("400")} ELSE {one(m) : m \in ms})
     \cup (IF req.hdr = "unknown" THEN {Rejected("400")} ELSE {})   \* a header naming no method may also be refused

Expected(tree, req) ==
  LET rds == PathReadings(tree, req.path)
      perReading(rd) ==
        CASE rd.st = "unknown" -> {Rejected("404")}
          [] rd.st = "badkey"  -> {Rejected("400")}
          [] rd.st = "node"    ->
               IF req.ids = "bad" THEN {Rejected("400")}         \* parameters do not decode
               ELSE Dispatch(tree, rd, req)
  IN UNION {perReading(rd) : rd \in rds}

\* requests about which the statement demands nothing
Unspecified(tree, req) ==
  \E rd \in PathReadings(tree, req.path) :
     rd.st = "node" /\ LET n == tree.nodes[rd.node] IN
        \/ Contradicts(n.coll, req.verb, req.hdr)
        \/ (~n.coll /\ req.verb \notin {"GET", "POST", "PUT", "DELETE"} /\ req.hdr \in MethodNames)

-----------------------------------------------------------------------------
(* OPERATIONAL: ServeHTTP + receive, stage by stage *)

\* receive(): recursive descent; segments[1] is the node's own name
RECURSIVE Receive(_, _, _, _, _)
Receive(tree, name, rem, keys, segs) ==
  LET p == tree.nodes[name]
      segs2 == Append(segs, name)
      takesKey == p.coll /\ Len(rem) > 1
  IN IF takesKey /\ ~ValidKey(rem[2])
     THEN [st |-> "400"]        \* ValidateRor2Input failed
     ELSE LET rest == IF takesKey THEN Tail2(rem) ELSE Tail(rem)
              keys2 == IF takesKey THEN Append(keys, rem[2]) ELSE keys
          IN IF rest # <<>>
             THEN IF rest[1] \in p.subs THEN Receive(tree, rest[1], rest, keys2, segs2)
                  ELSE [st |-> "404"]
             ELSE [st |-> "node", node |-> name, ent |-> takesKey, keys |-> keys2, segs |-> segs2]

\* the inference switch and the entity validation of receive()
OperMethod(coll, verb, hdr, ent, q, ids, act) ==
  LET m0 == IF hdr \in MethodNames THEN hdr ELSE "Unknown"
  IN IF coll
     THEN IF m0 # "Unknown" THEN m0
          ELSE CASE verb = "GET" -> IF ent THEN "get" ELSE IF q # "none" THEN "finder"
                                    ELSE IF ids = "some" THEN "batch_get" ELSE "get_all"
                 [] verb = "POST" -> "reject400"
                 [] verb = "DELETE" -> IF ids = "some" THEN "batch_delete" ELSE "delete"
                 [] verb = "PUT" -> IF ids = "some" THEN "batch_update" ELSE "update"
                 [] OTHER -> "Unknown"
     ELSE CASE verb = "GET" -> "get" [] verb = "PUT" -> "update" [] verb = "DELETE" -> "delete"
            [] verb = "POST" -> IF act # "none" THEN "action" ELSE "partial_update"
            [] OTHER -> m0

Oper(tree, req) ==
  IF req.path = <<>> \/ req.path[1] \notin tree.roots THEN Rejected("404")       \* r.subNodes[segments[0]] == nil
  ELSE LET w == Receive(tree, req.path[1], req.path, <<>>, <<>>) IN
       IF w.st # "node" THEN Rejected(w.st)
       ELSE IF req.ids = "bad" THEN Rejected("400")  \* ParseQueryParams error
       ELSE LET p == tree.nodes[w.node]
                m == OperMethod(p.coll, req.verb, req.hdr, w.ent, req.q, req.ids, req.act)
            IN IF m = "reject400" THEN Rejected("400")
               ELSE IF p.coll /\ m \in NeedsEntity /\ ~w.ent THEN Rejected("400")
               ELSE IF p.coll /\ m \in ForbidsEntity /\ w.ent THEN Rejected("400")
               ELSE IF m = "finder" THEN IF req.q \in p.finders THEN Routed(w.node, m, req.q, w.keys, w.segs) ELSE Rejected("400")
               ELSE IF m = "action" THEN IF req.act \in p.actions THEN Routed(w.node, m, req.act, w.keys, w.segs) ELSE Rejected("400")
               ELSE IF m \in p.methods THEN Routed(w.node, m, "", w.keys, w.segs) ELSE Rejected("400")

-----------------------------------------------------------------------------
(* The check, function-shaped: one initial state per (tree, path), one successor per remaining request field   *)
(* combination (so that TLC's workers share the enumeration).                                                    *)
CONSTANTS Trees, PathsOf(_), Qs(_), Acts(_)

VARIABLES tree, path, rest
Rests(t) == [verb : Verbs, hdr : Hdrs, q : Qs(t), ids : {"none", "some", "bad"}, act : Acts(t)]
req == [verb |-> rest.verb, hdr |-> rest.hdr, path |-> path, q |-> rest.q, ids |-> rest.ids, act |-> rest.act]

Init == tree \in Trees /\ path \in PathsOf(tree) /\ rest = <<>>
Next == rest = <<>> /\ rest' \in Rests(tree) /\ UNCHANGED <<tree, path>>
Spec == Init /\ [][Next]_<<tree, path, rest>>

\* the property: the implementation's decision is one the statement admits (unspecified cells excluded)
RoutesAsSpecified == rest # <<>> => (Unspecified(tree, req) \/ Oper(tree, req) \in Expected(tree, req))

\* the negative space: what the statement does not route is not routed, and is answered 4xx
NotRoutedMeans4xx ==
  (rest # <<>> /\ ~Unspecified(tree, req) /\ \A o \in Expected(tree, req) : o.st # "routed")
     => Oper(tree, req).st \in {"400", "404"}
=============================================================================
