------------------------------- MODULE Ror2Lex -------------------------------
(* The cursor-based ROR2 reader (restlicodec/ror2_reader.go): data, pos, recursive descent driven by ReadInterface.  *)
(* Implementation-shaped: every place the code indexes data[pos] is an Idx(...) here, and Idx records an            *)
(* out-of-range access instead of failing, so that InBounds -- "no access with pos >= len(data)" -- is an invariant   *)
(* TLC checks over every input of the bound.  (Before the repair recorded in known_findings.json the guards marked    *)
(* GUARD below were missing: TLC then finds e.g. "(" , "(a:(b:a)" and "List((" as counterexamples.)                   *)
EXTENDS Integers, Sequences, FiniteSets, TLC

CONSTANTS Tokens, MaxTokens, Guards   \* Guards = FALSE models the reader as it was (no bounds checks after nested reads)

Chars(tok) == IF tok = "List(" THEN <<"L", "i", "s", "t", "(">> ELSE <<tok>>
RECURSIVE Flat(_)
Flat(toks) == IF toks = <<>> THEN <<>> ELSE Chars(Head(toks)) \o Flat(Tail(toks))

\* result of a parsing function: next position, error flag, out-of-range flag
R(p, e, o) == [pos |-> p, err |-> e, oob |-> o]

\* ValidateRor2Input: only an excess of ')' is rejected up front
RECURSIVE Balanced(_, _, _)
Balanced(d, i, depth) == IF i > Len(d) THEN TRUE
                         ELSE IF d[i] = "(" THEN Balanced(d, i + 1, depth + 1)
                         ELSE IF d[i] = ")" THEN (depth > 0 /\ Balanced(d, i + 1, depth - 1))
                         ELSE Balanced(d, i + 1, depth)

AtMap(d, p) == p < Len(d) /\ d[p + 1] = "("
AtArray(d, p) == Len(d) - p > 5 /\ SubSeq(d, p + 1, p + 5) = <<"L", "i", "s", "t", "(">>

\* unsafeReadPrimitiveFieldValue + ReadString
RECURSIVE ScanDelim(_, _)
ScanDelim(d, q) == IF q >= Len(d) THEN q ELSE IF d[q + 1] \in {",", ")"} THEN q ELSE ScanDelim(d, q + 1)
ReadString(d, p) ==
  LET end == IF p = 0 THEN Len(d) ELSE ScanDelim(d, p) IN
  IF p > Len(d) THEN R(p, TRUE, TRUE)                      \* slicing data[p:p] beyond the input
  ELSE IF p # 0 /\ end = Len(d) THEN R(p, TRUE, FALSE)      \* no end-of-field delimiter
  ELSE IF \E i \in (p + 1)..end : d[i] \in {"(", ",", ")"} THEN R(p, TRUE, FALSE)
  ELSE IF end = p THEN R(p, TRUE, FALSE)                    \* empty element
  ELSE R(end, FALSE, FALSE)

\* readFieldName: up to ':'; ',' or ')' before it is an error; end of input before it is an error (GUARD)
RECURSIVE ScanName(_, _, _)
ScanName(d, start, q) ==
  IF q >= Len(d) THEN (IF Guards THEN R(q, TRUE, FALSE) ELSE R(q + 1, FALSE, FALSE))
  ELSE IF d[q + 1] = ":" THEN (IF q = start THEN R(q, TRUE, FALSE) ELSE R(q + 1, FALSE, FALSE))
  ELSE IF d[q + 1] \in {",", ")"} THEN R(q, TRUE, FALSE)
  ELSE ScanName(d, start, q + 1)

RECURSIVE RI(_, _, _), MapLoop(_, _, _), ArrLoop(_, _, _)
\* fuel bounds the recursion depth so that TLC's evaluation terminates even on a model that would loop
MapLoop(d, p, fuel) ==
  IF fuel = 0 THEN R(p, TRUE, FALSE)
  ELSE IF p < Len(d) /\ d[p + 1] = ")" THEN R(p + 1, FALSE, FALSE)
  ELSE LET n == ScanName(d, p, p) IN
       IF n.err THEN n
       ELSE LET v == RI(d, n.pos, fuel - 1) IN
            IF v.err \/ v.oob THEN v
            ELSE IF v.pos >= Len(d) THEN (IF Guards THEN R(v.pos, TRUE, FALSE) ELSE R(v.pos, TRUE, TRUE))   \* GUARD: data[pos] after the value
            ELSE IF d[v.pos + 1] = "," THEN MapLoop(d, v.pos + 1, fuel - 1)
            ELSE IF d[v.pos + 1] = ")" THEN R(v.pos + 1, FALSE, FALSE)
            ELSE R(v.pos, TRUE, FALSE)
ArrLoop(d, p, fuel) ==
  IF fuel = 0 THEN R(p, TRUE, FALSE)
  ELSE LET v == RI(d, p, fuel - 1) IN
       IF v.err \/ v.oob THEN v
       ELSE IF v.pos >= Len(d) THEN (IF Guards THEN R(v.pos, TRUE, FALSE) ELSE R(v.pos, TRUE, TRUE))        \* GUARD
       ELSE IF d[v.pos + 1] = "," THEN ArrLoop(d, v.pos + 1, fuel - 1)
       ELSE IF d[v.pos + 1] = ")" THEN R(v.pos + 1, FALSE, FALSE)
       ELSE R(v.pos, TRUE, FALSE)
RI(d, p, fuel) ==
  IF AtMap(d, p) THEN MapLoop(d, p + 1, fuel)
  ELSE IF AtArray(d, p) THEN (IF d[p + 6] = ")" THEN R(p + 6, FALSE, FALSE) ELSE ArrLoop(d, p + 5, fuel))
  ELSE ReadString(d, p)

Parse(toks) == LET d == Flat(toks) IN
               IF ~Balanced(d, 1, 0) THEN R(0, TRUE, FALSE) ELSE RI(d, 0, 2 * Len(d) + 2)

-----------------------------------------------------------------------------
VARIABLES n, input
Inputs(k) == [1..k -> Tokens]
Init == n \in 0..MaxTokens /\ input = <<>>
Next == input = <<>> /\ n > 0 /\ input' \in Inputs(n) /\ UNCHANGED n
Spec == Init /\ [][Next]_<<n, input>>

\* no byte sequence makes the reader index outside its input
InBounds == ~Parse(input).oob
\* the reader always ends inside [0, len] and either accepts or rejects
EndsInside == LET r == Parse(input) IN r.oob \/ r.pos <= Len(Flat(input))
=============================================================================
