-------------------------------- MODULE Reader --------------------------------
(* Required-field accounting of the streaming readers (restlicodec/reader.go readRecord, missing_fields.go, and the  *)
(* scope pushes / pops each reader performs around every key and array index).                                       *)
(*                                                                                                                  *)
(* Documents are abstract values from which record fields have been removed.  Missing(ty, av, path) is DECLARATIVE:   *)
(* the set of full paths of required fields (not optional, no default) that are absent, at any depth, through arrays,  *)
(* maps, unions and included records.  Read(...) is OPERATIONAL: a traversal with an explicit scope stack, a           *)
(* remaining-required set per record and an accumulated missing list, one step per enter / exit, as the readers do it; *)
(* the scope stack must equal the path of the cursor at every step and be empty at the end.                            *)
EXTENDS Patch

Seg(k) == [key |-> k, idx |-> 0]            \* object key / field name (token sequence)
ASeg(i) == [key |-> <<>>, idx |-> i]        \* array index i >= 1 (rendered [i-1])

RequiredNames(n) == {FieldsOf(n)[i].n : i \in {j \in Idx(FieldsOf(n)) : ~FieldsOf(n)[j].opt /\ FieldsOf(n)[j].def = NoDefault}}
FieldType(n, name) == FieldsOf(n)[CHOOSE i \in Idx(FieldsOf(n)) : FieldsOf(n)[i].n = name].ty
IsField(n, name) == \E i \in Idx(FieldsOf(n)) : FieldsOf(n)[i].n = name
MemberType(n, alias) == LET ms == SchemaOf[n].members IN ms[CHOOSE i \in DOMAIN ms : ms[i].a = alias].ty

-----------------------------------------------------------------------------
(* DECLARATIVE *)
RECURSIVE Missing(_, _, _)
Missing(ty, av, path) ==
  CASE ty.k = "arr" -> UNION {Missing(ty.e, av.v[i], Append(path, ASeg(i))) : i \in DOMAIN av.v}
    [] ty.k = "map" -> UNION {Missing(ty.e, av.v[i].v, Append(path, Seg(av.v[i].k))) : i \in DOMAIN av.v}
    [] ty.k = "ref" /\ SchemaOf[ty.n].k = "record" ->
         LET present == {av.v[i].k : i \in DOMAIN av.v} IN
         {Append(path, Seg(<<f>>)) : f \in RequiredNames(ty.n) \ present}
         \cup UNION {IF IsField(ty.n, av.v[i].k) THEN Missing(FieldType(ty.n, av.v[i].k), av.v[i].v, Append(path, Seg(<<av.v[i].k>>))) ELSE {} : i \in DOMAIN av.v}
    [] ty.k = "ref" /\ SchemaOf[ty.n].k = "union" /\ av.t = "union" ->
         Missing(MemberType(ty.n, av.a), av.v, Append(path, Seg(<<av.a>>)))
    [] OTHER -> {}

-----------------------------------------------------------------------------
(* OPERATIONAL: state threaded through the traversal: [scope, missing, ok]; ok records the scope invariant *)
RECURSIVE ReadVal(_, _, _), ReadEntries(_, _, _, _, _), ReadItems(_, _, _, _), ReadMapEntries(_, _, _, _)
Enter(st, seg) == [st EXCEPT !.scope = Append(@, seg)]
Exit(st) == [st EXCEPT !.scope = SubSeq(@, 1, Len(@) - 1)]

\* readRecord: the fields of the object in document order; remaining = required names not yet seen
ReadEntries(n, entries, i, remaining, st) ==
  IF i > Len(entries)
  THEN \* recordMissingRequiredFields: scope string + field, for every remaining required field
       [st EXCEPT !.missing = @ \cup {Append(st.scope, Seg(<<f>>)) : f \in remaining}]
  ELSE LET e == entries[i]
           st1 == Enter(st, Seg(<<e.k>>))                                   \* enterMapScope(key)
           st2 == IF IsField(n, e.k) THEN ReadVal(FieldType(n, e.k), e.v, st1) ELSE st1   \* unknown field: Skip()
           st3 == Exit(st2)                                                   \* exitScope()
       IN ReadEntries(n, entries, i + 1, remaining \ {e.k}, [st3 EXCEPT !.ok = @ /\ st3.scope = st.scope])
ReadItems(ety, items, i, st) ==
  IF i > Len(items) THEN st
  ELSE ReadItems(ety, items, i + 1, Exit(ReadVal(ety, items[i], Enter(st, ASeg(i)))))
ReadMapEntries(ety, entries, i, st) ==
  IF i > Len(entries) THEN st
  ELSE ReadMapEntries(ety, entries, i + 1, Exit(ReadVal(ety, entries[i].v, Enter(st, Seg(entries[i].k)))))
ReadVal(ty, av, st) ==
  CASE ty.k = "arr" -> ReadItems(ty.e, av.v, 1, st)
    [] ty.k = "map" -> ReadMapEntries(ty.e, av.v, 1, st)
    [] ty.k = "ref" /\ SchemaOf[ty.n].k = "record" -> ReadEntries(ty.n, av.v, 1, RequiredNames(ty.n), st)
    [] ty.k = "ref" /\ SchemaOf[ty.n].k = "union" /\ av.t = "union" ->
         Exit(ReadVal(MemberType(ty.n, av.a), av.v, Enter(st, Seg(<<av.a>>))))
    [] OTHER -> st
Read(ty, av) == ReadVal(ty, av, [scope |-> <<>>, missing |-> {}, ok |-> TRUE])

-----------------------------------------------------------------------------
(* Documents: every way of removing record fields from a value, recursively.  A removed field is MARKED (its value   *)
(* is NullV): StripNulls(doc) is the document with the field absent, the marked document is the one with the field null;   *)
(* the property gives both the same meaning, so everything above is evaluated on StripNulls(doc).                          *)
NullV == [t |-> "null"]
RECURSIVE StripNulls(_)
StripNulls(av) ==
  CASE av.t = "rec" -> [t |-> "rec", v |-> LET kept == SelectSeq(av.v, LAMBDA e : e.v # NullV) IN [i \in DOMAIN kept |-> [k |-> kept[i].k, v |-> StripNulls(kept[i].v)]]]
    [] av.t = "map" -> [t |-> "map", v |-> [i \in DOMAIN av.v |-> [k |-> av.v[i].k, v |-> StripNulls(av.v[i].v)]]]
    [] av.t = "arr" -> [t |-> "arr", v |-> [i \in DOMAIN av.v |-> StripNulls(av.v[i])]]
    [] av.t = "union" -> [t |-> "union", a |-> av.a, v |-> StripNulls(av.v)]
    [] OTHER -> av
RECURSIVE DocVariants(_, _), EntryChoices(_, _, _)
\* all sequences obtained by dropping any subset of the record's entries and varying the kept ones
EntryChoices(n, entries, i) ==
  IF i > Len(entries) THEN {<<>>}
  ELSE LET rest == EntryChoices(n, entries, i + 1)
           kept == {<<[k |-> entries[i].k, v |-> x]>> \o r : x \in DocVariants(FieldType(n, entries[i].k), entries[i].v), r \in rest}
           nulled == {<<[k |-> entries[i].k, v |-> NullV]>> \o r : r \in rest}
       IN kept \cup nulled
RECURSIVE SeqProduct(_, _, _)
SeqProduct(ety, items, i) ==
  IF i > Len(items) THEN {<<>>} ELSE {<<x>> \o r : x \in DocVariants(ety, items[i]), r \in SeqProduct(ety, items, i + 1)}
RECURSIVE MapProduct(_, _, _)
MapProduct(ety, entries, i) ==
  IF i > Len(entries) THEN {<<>>} ELSE {<<[k |-> entries[i].k, v |-> x]>> \o r : x \in DocVariants(ety, entries[i].v), r \in MapProduct(ety, entries, i + 1)}
DocVariants(ty, av) ==
  CASE ty.k = "arr" -> {[t |-> "arr", v |-> s] : s \in SeqProduct(ty.e, av.v, 1)}
    [] ty.k = "map" -> {[t |-> "map", v |-> s] : s \in MapProduct(ty.e, av.v, 1)}
    [] ty.k = "ref" /\ SchemaOf[ty.n].k = "record" -> {[t |-> "rec", v |-> s] : s \in EntryChoices(ty.n, av.v, 1)}
    [] ty.k = "ref" /\ SchemaOf[ty.n].k = "union" /\ av.t = "union" ->
         {[t |-> "union", a |-> av.a, v |-> x] : x \in DocVariants(MemberType(ty.n, av.a), av.v)}
    [] OTHER -> {av}
=============================================================================
