#!/usr/bin/env python3
"""The VT verification schema family (namespace vt): single source for the v2 generator manifest and for the
specification-side schema table (schemas used by Values.tla / harnesses are derived from the same dict).

  python3 vt.py manifest <packageRoot>   -> v2 manifest JSON on stdout
"""
import json, os, sys

NS = "vt"

def P(t): return {"primitive": t}
def R(n, ns=NS): return {"reference": {"name": n, "namespace": ns}}
def A(t): return {"array": t}
def M(t): return {"map": t}
RAW = {"rawRecord": True}

def F(name, type_, optional=False, default=None):
    f = {"name": name, "doc": "", "type": type_, "isOptional": optional}
    if default is not None:
        f["defaultValue"] = default
    return f

def named(kind, name, **kw):
    d = {"name": name, "namespace": NS, "sourceFile": "vt", "doc": ""}
    d.update(kw)
    return {kind: d}

EMPTY_RECORD = ("EmptyRecord", "com.linkedin.restli.common")    # the runtime's own fieldless record: known to the generators

def record(name, fields, includes=()):
    return named("record", name, includes=[({"name": i[0], "namespace": i[1]} if isinstance(i, tuple) else {"name": i, "namespace": NS}) for i in includes], fields=fields)

PRIMS = [("i32", "int32"), ("i64", "int64"), ("f32", "float32"), ("f64", "float64"), ("b", "bool"), ("s", "string"), ("by", "bytes")]
PRIM_DEFAULTS = {"i32": "-7", "i64": "9007199254740993", "f32": "1.5", "f64": "-2.5e-8", "b": "true", "s": "\"d'(e),f:\\\"g\\\\\"", "by": "\"\\u0000\\u0001ab\""}

TYPES = [
    named("enum", "Color", Symbols=["RED", "GREEN", "BLUE"], SymbolToDoc={}),
    named("fixed", "F2", Size=2),
    named("typeref", "TrStr", type="string", isCustom=False),
    named("typeref", "TrInt", type="int64", isCustom=False),
    record("Leaf", [F("a", P("int32")), F("b", P("string"), optional=True)]),
    record("Prims", [F(n, P(t)) for n, t in PRIMS]),
    record("OptPrims", [F(n, P(t), optional=True) for n, t in PRIMS]),
    record("DefPrims", [F(n, P(t), default=PRIM_DEFAULTS[n]) for n, t in PRIMS]),
    record("IncBase", [F("x", P("int32"), default="5"), F("y", P("string"))]),
    record("IncMid", [F("m", P("int32"))], includes=["IncBase"]),
    record("IncTop", [F("t", P("string"), optional=True)], includes=["IncMid"]),
    # the fieldless EmptyRecord listed BEFORE a record that does have fields
    record("IncEmpty", [F("own", P("int32"), optional=True)], includes=[EMPTY_RECORD, "IncBase"]),
    # two records including the same record, which itself includes one (shared required-field lists)
    record("SibA", [F("a1", P("int32")), F("a2", P("string"))]),
    record("SibE", [F("e", P("int32"))], includes=["SibA"]),
    record("SibG", [F("g", P("string"))], includes=["SibE"]),
    record("SibP", [F("p", P("int32"))], includes=["SibE"]),
    record("SibOnly", [], includes=["SibE"]),     # includes only, no field of its own
    named("standaloneUnion", "U", Union={"HasNull": False, "Members": [
        {"Type": P("int32"), "Alias": "int"}, {"Type": P("string"), "Alias": "string"},
        {"Type": R("Leaf"), "Alias": "vt.Leaf"}, {"Type": R("Color"), "Alias": "vt.Color"},
        {"Type": A(P("string")), "Alias": "array"}]}),
    named("standaloneUnion", "UN", Union={"HasNull": True, "Members": [
        {"Type": P("int64"), "Alias": "long"}, {"Type": R("Leaf"), "Alias": "vt.Leaf"}]}),
    record("Nest", [
        F("arr", A(R("Leaf"))), F("m", M(R("Leaf"))), F("mm", M(A(M(P("string")))), optional=True),
        F("u", R("U")), F("ou", R("U"), optional=True), F("un", R("UN"), optional=True),
        F("leaf", R("Leaf")), F("oleaf", R("Leaf"), optional=True),
        F("e", R("Color")), F("f", R("F2")), F("t", R("TrStr")), F("ti", R("TrInt"), optional=True),
        F("raw", RAW, optional=True)]),
    record("DefContainers", [
        F("arr", A(P("int32")), default="[1,2]"), F("earr", A(P("string")), default="[]"),
        F("m", M(P("string")), default="{\"k\":\"v\"}"), F("emap", M(P("int32")), default="{}"),
        F("leaf", R("Leaf"), default="{\"a\":1}"), F("u", R("U"), default="{\"int\":3}"),
        F("e", R("Color"), default="\"GREEN\""), F("f", R("F2"), default="\"ab\""), F("t", R("TrStr"), default="\"x\""),
        F("req", P("int32"))]),
    record("DefRec", [F("opts", R("DefPrims"), default="{}"), F("part", R("DefPrims"), default="{\"i32\":1,\"b\":false}"), F("req", P("int32"))]),
    record("OptDef", [F("od", P("int32"), optional=True, default="30"), F("otags", A(P("string")), optional=True, default="[\"a\",\"b\"]"),
                      F("plain", P("string"), optional=True), F("req", P("int32"))]),
    # container defaults that merely CONTAIN an empty container or the text of one
    record("DefNested", [F("aa", A(A(P("int32"))), default="[[1],[]]"), F("mm", M(M(P("string"))), default="{\"k\":{}}"),
                         F("texts", A(P("string")), default="[\"x[]y\",\"{}\",\"two  words\",\" padded \"]"),
                         F("sp", M(P("string")), default="{\"first key\":\"a\\tb c\"}"),
                         F("fx", R("F2"), default="\"\\u00ca\\u00fe\""),      # a fixed default with bytes >= 0x80 (one character per byte)
                         F("req", P("int32"))]),
    record("DefAfter", [F("n", P("int32"), default="3"), F("s", P("string")), F("arr", A(P("int32")), optional=True), F("inner", R("DefPrims")), F("tail", R("DefContainers"))]),
    record("DefOuter", [F("inner", R("DefPrims")), F("n", P("int32"), default="3"), F("oinner", R("DefPrims"), optional=True)]),
    # annotated field names that are STRING prefixes (not path prefixes) of one another
    record("Pfx", [F("name", P("string")), F("created", P("int64"), optional=True), F("createdBy", P("string"), optional=True),
                   F("address", R("Leaf"), optional=True), F("addressLine2", P("string"), optional=True),
                   F("zAudit", P("string"), optional=True)]),     # read-only and the LAST field an encoder writes
    record("KeyPart", [F("id", P("string")), F("n", P("int64"))]),
    record("KeyParams", [F("p", P("string"))]),
    named("complexKey", "CK", Key={"name": "KeyPart", "namespace": NS}, Params={"name": "KeyParams", "namespace": NS}),
    record("Ent", [F("id", P("int64"), optional=True), F("name", P("string")), F("nested", R("Leaf"), optional=True),
                   F("tags", A(R("Leaf")), optional=True), F("created", P("int64"), optional=True)]),
]

def method(mt, name, **kw):
    d = {"methodType": mt, "name": name, "doc": "", "onEntity": False, "params": [], "isPagingSupported": False,
         "return": None, "metadata": None, "returnEntity": False}
    d.update(kw)
    return d

ALL_REST = ["get", "create", "delete", "update", "partial_update", "batch_get", "batch_create", "batch_delete",
            "batch_update", "batch_partial_update", "get_all"]
ENTITY_METHODS = {"get", "delete", "update", "partial_update"}

def rest(names, paging_get_all=True, return_entity=(), coll=True, params=None):
    """params: {method name: [declared query parameters]} (Rest.li lets every method declare its own)"""
    out = []
    for n in names:
        out.append(method("REST_METHOD", n, onEntity=coll and n in ENTITY_METHODS, isPagingSupported=(n == "get_all" and paging_get_all),
                          returnEntity=n in return_entity, params=(params or {}).get(n, [])))
    return out

def seg(name, key=None, keytype=None):
    return {"resourceName": name, "pathKey": ({"name": key, "type": keytype} if key else None)}

def resource(segments, schema, methods, ro=(), co=()):
    return {"namespace": NS + "." + segments[-1]["resourceName"], "doc": "", "sourceFile": "vt",
            "resourcePathSegments": segments, "resourceSchema": schema, "methods": methods,
            "readOnlyFields": list(ro), "createOnlyFields": list(co)}

RESOURCES = [
    resource([seg("collStr", "collStrId", P("string"))], R("Ent"),
             rest(ALL_REST) + [
                 method("FINDER", "search", params=[F("kw", P("string")), F("lim", P("int32"), optional=True), F("zone", P("string"), optional=True)], isPagingSupported=True, metadata=R("Leaf"), **{"return": R("Ent")}),
                 method("FINDER", "plain", **{"return": R("Ent")}),
                 method("ACTION", "act", params=[F("x", P("int32")), F("leaf", R("Leaf"), optional=True)], **{"return": P("string")}),
                 method("ACTION", "noret"),
                 method("ACTION", "entAct", onEntity=True, **{"return": R("Leaf")}),
             ], ro=["id", "nested/b", "tags/*/b"], co=["created"]),
    resource([seg("collRet", "collRetId", P("int64"))], R("Ent"),
             rest(["get", "create", "batch_create", "partial_update"], return_entity=("create", "batch_create", "partial_update"))),
    # return-entity variants of create / batch_create / partial_update on a resource WITH read-only annotations (the server
    # registers them through other adapters than the plain variants, each with its own leading-scope offset)
    resource([seg("collRR", "collRRId", P("int64"))], R("Ent"),
             rest(["get", "create", "batch_create", "partial_update"], return_entity=("create", "batch_create", "partial_update")), ro=["id", "nested/b"]),
    # exclusion shapes of their own: a directive naming a whole record-typed field; create-only annotations without any read-only one
    resource([seg("collRO", "collROId", P("int64"))], R("Ent"), rest(["get", "create", "update", "partial_update", "batch_partial_update"]), ro=["nested"]),
    resource([seg("collCO", "collCOId", P("int64"))], R("Ent"), rest(["get", "create", "update", "partial_update", "batch_update"]), co=["created"]),
    resource([seg("collPfx", "collPfxId", P("int64"))], R("Pfx"), rest(["get", "create", "update", "partial_update", "batch_update"]),
             ro=["created", "address", "zAudit"], co=["createdBy", "addressLine2"]),
    resource([seg("collCK", "collCKId", R("CK"))], R("Leaf"),
             rest(["get", "create", "batch_get", "batch_update", "batch_partial_update", "batch_delete"])),
    # declared query parameters on rest methods: names sorting before and after the reserved `ids`, and only before it
    resource([seg("collTr", "collTrId", R("TrInt"))], R("Leaf"), rest(["get", "batch_get", "batch_delete"], params={
        "get": [F("view", P("string"), optional=True)],
        "batch_get": [F("fields", P("string"), optional=True), F("viewer", P("string"), optional=True)],
        "batch_delete": [F("fields", P("string"), optional=True)]})),
    # a collection with collection-level methods only (no method takes an entity key)
    resource([seg("collTop", "collTopId", P("int64"))], R("Leaf"), rest(["create", "get_all", "batch_get"]) + [
        method("FINDER", "byTitle", params=[F("title", P("string")), F("author", P("string"), optional=True)], **{"return": R("Leaf")})]),
    resource([seg("collStr", "collStrId", P("string")), seg("subColl", "subCollId", P("int64"))], R("Leaf"), rest(["get", "batch_get"])),
    resource([seg("collStr", "collStrId", P("string")), seg("subSimple")], R("Leaf"), rest(["get", "update"], coll=False)),
    resource([seg("simple")], R("Ent"), rest(["get", "update", "partial_update", "delete"], coll=False) + [
        method("ACTION", "sact", params=[F("s", P("string"))], **{"return": P("int64")})]),
    resource([seg("actions")], None, [
        method("ACTION", "echo", params=[F("s", P("string")), F("arr", A(P("int32"))), F("m", M(P("string")), optional=True)], **{"return": A(P("string"))}),
        method("ACTION", "mk", params=[F("leaf", R("Leaf"))], **{"return": R("Leaf")}),
        method("ACTION", "nothing"),
    ]),
]

# the root generation cannot compile partial_update with return-entity (open C12 finding): its callers leave those
# resources out (VT_SKIP_RESOURCES=collRet,collRR)
_skip = set(x for x in os.environ.get("VT_SKIP_RESOURCES", "").split(",") if x)
RESOURCES = [r for r in RESOURCES if r["resourcePathSegments"][-1]["resourceName"] not in _skip]


def manifest(package_root):
    return {"packageRoot": package_root, "inputDataTypes": TYPES, "dependencyDataTypes": [], "resources": RESOURCES}

# ----------------------------------------------------------------------------- Schemas.tla

def tla_str(x): return '"' + x.replace('\\', '\\\\').replace('"', '\\"') + '"'

def tla_type(t):
    if "primitive" in t: return '[k |-> "prim", p |-> %s]' % tla_str(t["primitive"])
    if t.get("rawRecord"): return '[k |-> "raw"]'
    if "reference" in t: return '[k |-> "ref", n |-> %s]' % tla_str(t["reference"]["name"])
    if "array" in t: return '[k |-> "arr", e |-> %s]' % tla_type(t["array"])
    if "map" in t: return '[k |-> "map", e |-> %s]' % tla_type(t["map"])
    raise ValueError(t)

BYTE_TOKENS = {0: "b00", 1: "b01"}

def str_tokens(text):
    """A default literal's text as a TLA+ sequence of single-character tokens (exact characters)."""
    out = []
    for ch in text:
        o = ord(ch)
        if o < 0x20 or o == 0x7f: out.append("x%02X" % o)
        else: out.append(ch)
    return "<<" + ", ".join(tla_str(c) for c in out) + ">>"

def byte_tokens(text):
    """A bytes / fixed default literal: one character per byte; bytes outside printable ASCII as xNN tokens."""
    out = []
    for ch in text:
        o = ord(ch)
        if o < 0x20 or o >= 0x7f: out.append("x%02X" % o)
        else: out.append(ch)
    return "<<" + ", ".join(tla_str(c) for c in out) + ">>"

def find_type(name):
    for t in TYPES:
        for kind, d in t.items():
            if d["name"] == name: return kind, d
    raise KeyError(name)

def tla_default(t, lit):
    """Abstract value (AV) of the JSON default literal `lit` for restli type t."""
    if "primitive" in t:
        p = t["primitive"]
        if p in ("int32", "int64"): return '[t |-> "num", p |-> %s, v |-> %s]' % (tla_str(p), tla_str(str(lit)))
        if p in ("float32", "float64"): return '[t |-> "num", p |-> %s, v |-> %s]' % (tla_str(p), tla_str(repr(float(lit)) if not isinstance(lit, str) else lit))
        if p == "bool": return '[t |-> "bool", v |-> %s]' % tla_str("true" if lit else "false")
        if p == "string": return '[t |-> "str", v |-> %s]' % str_tokens(lit)
        if p == "bytes": return '[t |-> "bytes", v |-> %s]' % byte_tokens(lit)
    if "array" in t: return '[t |-> "arr", v |-> <<%s>>]' % ", ".join(tla_default(t["array"], x) for x in lit)
    if "map" in t: return '[t |-> "map", v |-> <<%s>>]' % ", ".join('[k |-> %s, v |-> %s]' % (str_tokens(k), tla_default(t["map"], v)) for k, v in lit.items())
    if "reference" in t:
        kind, d = find_type(t["reference"]["name"])
        if kind == "enum": return '[t |-> "enum", v |-> %s]' % tla_str(lit)
        if kind == "fixed": return '[t |-> "fixed", v |-> %s]' % byte_tokens(lit)
        if kind == "typeref": return tla_default({"primitive": d["type"]}, lit)
        if kind == "record":
            fs = all_fields(d)
            # a record literal denotes the record with its own defaulted fields filled in where the literal omits them
            val = lambda f: lit[f["name"]] if f["name"] in lit else json.loads(f["defaultValue"])
            return '[t |-> "rec", v |-> <<%s>>]' % ", ".join('[k |-> %s, v |-> %s]' % (tla_str(f["name"]), tla_default(f["type"], val(f))) for f in fs if f["name"] in lit or "defaultValue" in f)
        if kind == "standaloneUnion":
            (alias, v), = lit.items()
            m = [m for m in d["Union"]["Members"] if m["Alias"] == alias][0]
            return '[t |-> "union", a |-> %s, v |-> %s]' % (tla_str(alias), tla_default(m["Type"], v))
    raise ValueError((t, lit))

def all_fields(rec):
    out = []
    for inc in rec.get("includes", []):
        if inc["namespace"] != NS:
            continue        # EmptyRecord: no fields
        out += all_fields(find_type(inc["name"])[1])
    return out + rec["fields"]

def schemas_tla():
    lines = ["------------------------------ MODULE Schemas ------------------------------",
             "(* GENERATED by schemas/vt.py from the VT schema family -- do not edit.  The same source produces the v2      *)",
             "(* generator manifest, so specification and bindings cannot drift.                                           *)",
             "EXTENDS Sequences", "", "NoDefault == [t |-> \"none\"]", ""]
    entries = []
    for t in TYPES:
        for kind, d in t.items():
            n = d["name"]
            if kind == "enum":
                entries.append('%s |-> [k |-> "enum", syms |-> <<%s>>]' % (n, ", ".join(tla_str(x) for x in d["Symbols"])))
            elif kind == "fixed":
                entries.append('%s |-> [k |-> "fixed", size |-> %d]' % (n, d["Size"]))
            elif kind == "typeref":
                entries.append('%s |-> [k |-> "typeref", p |-> %s]' % (n, tla_str(d["type"])))
            elif kind == "record":
                fs = []
                for f in all_fields(d):
                    dv = "NoDefault"
                    if "defaultValue" in f:
                        dv = tla_default(f["type"], json.loads(f["defaultValue"]))
                    fs.append('[n |-> %s, ty |-> %s, opt |-> %s, def |-> %s]' % (tla_str(f["name"]), tla_type(f["type"]), "TRUE" if f["isOptional"] else "FALSE", dv))
                entries.append('%s |-> [k |-> "record", fields |-> <<\n      %s>>]' % (n, ",\n      ".join(fs)))
            elif kind == "standaloneUnion":
                ms = ", ".join('[a |-> %s, ty |-> %s]' % (tla_str(m["Alias"]), tla_type(m["Type"])) for m in d["Union"]["Members"])
                entries.append('%s |-> [k |-> "union", null |-> %s, members |-> <<%s>>]' % (n, "TRUE" if d["Union"]["HasNull"] else "FALSE", ms))
            elif kind == "complexKey":
                kf = all_fields(find_type(d["Key"]["name"])[1])
                fs = ['[n |-> %s, ty |-> %s, opt |-> %s, def |-> NoDefault]' % (tla_str(f["name"]), tla_type(f["type"]), "TRUE" if f["isOptional"] else "FALSE") for f in kf]
                fs.append('[n |-> "$params", ty |-> [k |-> "ref", n |-> %s], opt |-> TRUE, def |-> NoDefault]' % tla_str(d["Params"]["name"]))
                entries.append('%s |-> [k |-> "record", fields |-> <<\n      %s>>]' % (n, ",\n      ".join(fs)))
    lines.append("SchemaOf == [\n  " + ",\n  ".join(entries) + "]")
    lines.append("")
    lines.append("SchemaNames == DOMAIN SchemaOf")
    lines.append("")
    lines.append("\\* the resources of the VT family as a router tree (Router.tla) and their methods")
    nodes = []
    roots = []
    for r in RESOURCES:
        segs = r["resourcePathSegments"]
        n = segs[-1]["resourceName"]
        coll = segs[-1]["pathKey"] is not None
        if len(segs) == 1: roots.append(n)
        subs = [x["resourcePathSegments"][-1]["resourceName"] for x in RESOURCES if len(x["resourcePathSegments"]) == len(segs) + 1 and x["resourcePathSegments"][-2]["resourceName"] == n]
        ms = [m["name"] for m in r["methods"] if m["methodType"] == "REST_METHOD"]
        fs = [m["name"] for m in r["methods"] if m["methodType"] == "FINDER"]
        acts = [m["name"] for m in r["methods"] if m["methodType"] == "ACTION"]
        eacts = [m["name"] for m in r["methods"] if m["methodType"] == "ACTION" and m["onEntity"]]
        st = lambda xs: "{" + ", ".join(tla_str(x) for x in xs) + "}"
        nodes.append('%s |-> [coll |-> %s, methods |-> %s, finders |-> %s, actions |-> %s, subs |-> %s, entityActions |-> %s, depth |-> %d, parentColl |-> %s]'
                     % (n, "TRUE" if coll else "FALSE", st(ms), st(fs), st(acts), st(subs), st(eacts), len(segs), "TRUE" if len(segs) > 1 and segs[-2]["pathKey"] is not None else "FALSE"))
    lines.append("VTTree == [id |-> \"VT\", roots |-> {%s},\n  nodes |-> [\n    %s]]" % (", ".join(tla_str(x) for x in roots), ",\n    ".join(nodes)))
    lines.append("=============================================================================")
    return "\n".join(lines) + "\n"

def ctor_exists(gendir, name, d):
    if gendir is None:
        return any("defaultValue" in f for f in d["fields"])
    needle = "func New%sWithDefaultValues(" % name
    for f in os.listdir(gendir):
        if f.endswith(".go") and needle in open(os.path.join(gendir, f)).read():
            return True
    return False


if __name__ == "__main__":
    if sys.argv[1] == "manifest":
        json.dump(manifest(sys.argv[2]), sys.stdout, indent=1)
    elif sys.argv[1] == "enums":
        json.dump({d["name"]: d["Symbols"] for t in TYPES for k, d in t.items() if k == "enum"}, sys.stdout)
    elif sys.argv[1] == "registry":
        # Go source: schema name -> reflect.Type of the generated type
        pkg = sys.argv[2]
        print("// GENERATED by schemas/vt.py\npackage main\n\nimport (\n\t\"reflect\"\n\n\t\"github.com/PapaCharlie/go-restli/v2/restlicodec\"\n\tvt \"%s/vt\"\n)\n\nvar registry = map[string]reflect.Type{" % pkg)
        for t in TYPES:
            for k, d in t.items():
                n = d["name"]
                if k == "enum": print('\t"%s": reflect.TypeOf(vt.%s(0)),' % (n, n))
                elif k == "typeref": print('\t"%s": reflect.TypeOf(vt.%s(%s)),' % (n, n, '""' if d["type"] == "string" else "0"))
                else: print('\t"%s": reflect.TypeOf(vt.%s{}),' % (n, n))
                if k == "record": print('\t"%s_PartialUpdate": reflect.TypeOf(vt.%s_PartialUpdate{}),' % (n, n))
        print("}")
        print("\n// decoding through the library's generic helper (what every client method does)\nvar genericDecoders = map[string]func(restlicodec.Reader) (any, error){")
        for t in TYPES:
            for k, d in t.items():
                if k == "record":
                    print('\t"%s": func(r restlicodec.Reader) (any, error) { return restlicodec.UnmarshalRestLi[*vt.%s](r) },' % (d["name"], d["name"]))
        print("}")
        print("\n// constructors of default instances (only generated for records that declare a default themselves)\nvar defaultCtors = map[string]func() any{")
        for t in TYPES:
            for k, d in t.items():
                # every record that carries a default, its own or inherited -- if the generator emitted the constructor at all
                # (argv[3]: the generated package directory; the harness reports the absent ones)
                if k == "record" and any("defaultValue" in f for f in all_fields(d)) and ctor_exists(sys.argv[3] if len(sys.argv) > 3 else None, d["name"], d):
                    print('\t"%s": func() any { return vt.New%sWithDefaultValues() },' % (d["name"], d["name"]))
        print("}")
    elif sys.argv[1] == "resources":
        pkg = sys.argv[2]
        names = []
        for r in RESOURCES:
            n = r["resourcePathSegments"][-1]["resourceName"]
            names.append(n)
        print("// GENERATED by schemas/vt.py\npackage main\n\nimport (\n\t\"reflect\"\n\n\t\"github.com/PapaCharlie/go-restli/v2/restli\"")
        for n in names:
            print('\t%s "%s/vt/%s"' % (n.lower(), pkg, n))
            print('\t%stest "%s/vt/%s_test"' % (n.lower(), pkg, n))
        print(")\n\ntype resInfo struct {\n\tnewClient func(c *restli.Client) any\n\tregister  func(s restli.Server, r any)\n\tmock      reflect.Type\n\tsegments  []string\n\treadOnly  []string\n\tcreateOnly []string\n}\n\nvar resources = map[string]resInfo{")
        for r in RESOURCES:
            n = r["resourcePathSegments"][-1]["resourceName"]; l = n.lower()
            segs = ", ".join('"%s"' % s["resourceName"] for s in r["resourcePathSegments"])
            print('\t"%s": {newClient: func(c *restli.Client) any { return %s.NewClient(c) }, register: func(s restli.Server, r any) { %s.RegisterResource(s, r.(%s.Resource)) }, mock: reflect.TypeOf(%stest.MockResource{}), segments: []string{%s}, readOnly: []string{%s}, createOnly: []string{%s}},'
                  % (n, l, l, l, l, segs, ", ".join('"%s"' % x for x in r["readOnlyFields"]), ", ".join('"%s"' % x for x in r["createOnlyFields"])))
        print("}")
    elif sys.argv[1] == "tla":
        sys.stdout.write(schemas_tla())
