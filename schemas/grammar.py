#!/usr/bin/env python3
"""Manifests for C12, built from what TLC exports (SchemaGrammar.tla items/resources, Registry.tla graphs).

Everything here is a pure function of the exported rows, so one export always gives the same manifest bytes.
"""
import json

NS = "gr"


def P(t): return {"primitive": t}
def R(n, ns=NS): return {"reference": {"name": n, "namespace": ns}}


def F(name, type_, optional=False, default=None):
    f = {"name": name, "doc": "", "type": type_, "isOptional": optional}
    if default is not None:
        f["defaultValue"] = default
    return f


def named(kind, name, ns=NS, **kw):
    d = {"name": name, "namespace": ns, "sourceFile": "grammar", "doc": ""}
    d.update(kw)
    return {kind: d}


def record(name, fields, includes=(), ns=NS):
    return named("record", name, ns=ns, includes=[{"name": i, "namespace": ns} for i in includes], fields=fields)


LEAF_TYPE = {
    "enum": R("Color"), "fixed": R("F2"), "typeref": R("Tr"), "custom": R("CT"), "record": R("Leaf"), "union": R("U"),
    "raw": {"rawRecord": True},
}
ONS = "gr.other"
LEAF_TYPE.update({"o_enum": R("OColor", ONS), "o_fixed": R("OF2", ONS), "o_typeref": R("OTr", ONS), "o_record": R("OLeaf", ONS), "o_union": R("OU", ONS)})
LEAF_DEFAULT = {
    "o_enum": "\"BLUE\"", "o_fixed": "\"xyz\"", "o_typeref": "7", "o_record": "{}", "o_union": "{\"string\":\"s\"}",
    "int32": "1", "int64": "2", "float32": "1.5", "float64": "2.5", "bool": "true", "string": "\"s\"", "bytes": "\"ab\"",
    "enum": "\"RED\"", "fixed": "\"ab\"", "typeref": "\"t\"", "custom": "\"c\"", "record": "{\"a\":1}", "union": "{\"int\":3}",
}

# extreme default literals: type minima, escapes and non-ASCII text, bytes >= 0x80 (one character per byte in the schema
# language), the last symbol / member
LEAF_DEFAULT_X = {
    "o_enum": "\"PINK\"", "o_fixed": "\"\\u0000\\u00ff\\u007f\"", "o_typeref": "-7", "o_record": "{\"country\":\"\\u00e9\\\"\",\"zip\":0}",
    "o_union": "{\"gr.other.OLeaf\":{}}",
    "int32": "-2147483648", "int64": "-9223372036854775808", "float32": "-1.5e-3", "float64": "1e300", "bool": "false",
    "string": "\"a\\\"b\\\\c\\n\\u00e9\\u4e16\"", "bytes": "\"\\u00ff\\u0001\\\"\"",
    "enum": "\"GREEN\"", "fixed": "\"\\u00ca\\u00fe\"", "typeref": "\"\"", "custom": "\"\"", "record": "{\"a\":-1,\"b\":\"\\\\\"}",
    "union": "{\"string\":\"\"}",
}

BASE_TYPES = [
    named("enum", "Color", Symbols=["RED", "GREEN"], SymbolToDoc={}),
    named("fixed", "F2", Size=2),
    named("typeref", "Tr", type="string", isCustom=False),
    named("typeref", "TrInt", type="int64", isCustom=False),
    named("typeref", "CT", type="string", isCustom=False),   # custom BY LOCATION: the hand-written gr/CT.go is found by the generator
    record("Leaf", [F("a", P("int32")), F("b", P("string"), optional=True)]),
    named("standaloneUnion", "U", Union={"HasNull": False, "Members": [
        {"Type": P("int32"), "Alias": "int"}, {"Type": P("string"), "Alias": "string"}]}),
    record("KeyPart", [F("id", P("string")), F("n", P("int64"))]),
    record("KeyParams", [F("p", P("string"))]),
    named("complexKey", "CK", Key={"name": "KeyPart", "namespace": NS}, Params={"name": "KeyParams", "namespace": NS}),
    record("Ent", [F("id", P("int64"), optional=True), F("name", P("string"))]),
    # the other namespace: a record with defaults of its own (its constructor is called from gr), and one of every kind
    named("enum", "OColor", ns=ONS, Symbols=["BLUE", "PINK"], SymbolToDoc={}),
    named("fixed", "OF2", ns=ONS, Size=3),
    named("typeref", "OTr", ns=ONS, type="int64", isCustom=False),
    record("OLeaf", [F("country", P("string"), default="\"US\""), F("zip", P("int32"), optional=True)], ns=ONS),
    named("standaloneUnion", "OU", ns=ONS, Union={"HasNull": False, "Members": [
        {"Type": P("string"), "Alias": "string"}, {"Type": R("OLeaf", ONS), "Alias": "gr.other.OLeaf"}]}),
]

# the hand-written implementation of the custom typeref gr.CT, living beside the generated code
CUSTOM_TYPEREF_FILE = "gr/CT.go"
CUSTOM_TYPEREF_SRC = '''package gr

import "github.com/PapaCharlie/go-restli/v2/fnv1a"

// CT is a hand-written custom typeref over string. The generator must locate this file and never touch it.
type CT struct{ V string }

func MarshalCT(c CT) (string, error)   { return c.V, nil }
func UnmarshalCT(s string) (CT, error) { return CT{V: s}, nil }
func EqualsCT(a, b CT) bool            { return a == b }
func ComputeHashCT(c CT) fnv1a.Hash {
	h := fnv1a.NewHash()
	h.AddString(c.V)
	return h
}
'''


def type_of(e):
    leaf = e[-1]
    t = LEAF_TYPE.get(leaf) or P(leaf)
    for c in reversed(e[:-1]):
        t = {c: t}
    return t


def default_of(e, lit="plain"):
    if lit == "empty":                       # the outermost container is empty
        return "[]" if e[0] == "array" else "{}"
    d = (LEAF_DEFAULT_X if lit == "extreme" else LEAF_DEFAULT)[e[-1]]
    for c in reversed(e[:-1]):
        if lit == "extreme":                 # two entries, awkward map keys
            d = "[%s,%s]" % (d, d) if c == "array" else "{\"\":%s,\"k \\\"q\\\"\":%s}" % (d, d)
        else:
            d = "[%s]" % d if c == "array" else "{\"k\":%s}" % d
    return d


def field_of(name, it):
    m = it["m"]
    return F(name, type_of(it["e"]), optional=m in ("opt", "optdef"), default=default_of(it["e"], it.get("lit", "plain")) if m in ("def", "optdef") else None)


def chunks(xs, n):
    return [xs[i:i + n] for i in range(0, len(xs), n)]


def method(mt, name, **kw):
    d = {"methodType": mt, "name": name, "doc": "", "onEntity": False, "params": [], "isPagingSupported": False,
         "return": None, "metadata": None, "returnEntity": False}
    d.update(kw)
    return d


def seg(name, key=None, keytype=None):
    return {"resourceName": name, "pathKey": ({"name": key, "type": keytype} if key else None)}


def resource(segments, schema, methods):
    return {"namespace": NS + "." + segments[-1]["resourceName"], "doc": "", "sourceFile": "grammar",
            "resourcePathSegments": segments, "resourceSchema": schema, "methods": methods,
            "readOnlyFields": [], "createOnlyFields": []}


KEY_TYPE = {"typeref": R("TrInt"), "enum": R("Color"), "custom": R("CT"), "complex": R("CK"), "fixed": R("F2")}
ENTITY_METHODS = {"get", "delete", "update", "partial_update"}
REST_ORDER = ["get", "create", "delete", "update", "partial_update", "batch_get", "batch_create", "batch_delete",
              "batch_update", "batch_partial_update", "get_all"]


def item_key(it):
    # the modes of one type expression sit next to each other, so every packed record mixes required, optional and
    # defaulted fields (a record needs a default of its own to get a default constructor at all)
    return (it["pos"], len(it["e"]), it["e"], it["m"], it.get("lit", "plain"))


def grammar_types(items, per=24):
    """The named types that carry every exported (expr, mode, position) item with a data-type position."""
    items = sorted(items, key=item_key)
    by = lambda pos: [it for it in items if it["pos"] == pos]
    types = list(BASE_TYPES)
    for i, ch in enumerate(chunks(by("field"), per)):
        types.append(record("Fields%d" % i, [field_of("f%d" % j, it) for j, it in enumerate(ch)]))
    for i, ch in enumerate(chunks(by("included"), per)):
        types.append(record("IncBase%d" % i, [field_of("b%d" % j, it) for j, it in enumerate(ch)]))
        types.append(record("IncMid%d" % i, [F("mid", P("int32"), optional=True)], includes=["IncBase%d" % i]))
        types.append(record("IncTop%d" % i, [F("top", P("string"))], includes=["IncMid%d" % i]))
        # several direct includes next to each other (one embedded struct each, in declaration order)
        types.append(record("IncMulti%d" % i, [F("own", P("int32"), optional=True)], includes=["IncBase%d" % i, "Leaf", "KeyParams", "KeyPart"]))
    for i, ch in enumerate(chunks(by("member"), per)):
        types.append(named("standaloneUnion", "Members%d" % i, Union={"HasNull": i % 2 == 1, "Members": [
            {"Type": type_of(it["e"]), "Alias": "m%d" % j} for j, it in enumerate(ch)]}))
    return types


def flatten_includes(types):
    """The root generation's manifest has no `includes`: the schema parser hands it every inherited field as a field of
    the including record, marked includedFrom = the record that DECLARES it (included fields first, in include order)."""
    recs = {d["name"]: d for t in types for k, d in t.items() if k == "record"}

    def inherited(d):
        out = []
        for inc in d.get("includes", []):
            if inc["name"] not in recs:
                continue            # the runtime's own EmptyRecord: nothing to inherit
            p = recs[inc["name"]]
            for f in inherited(p):
                out.append(f)
            for f in p["fields"]:
                out.append(dict(f, includedFrom={"name": p["name"], "namespace": p["namespace"]}))
        return out
    res = []
    for t in types:
        (k, d), = t.items()
        if k == "record" and d.get("includes"):
            d = dict(d, fields=inherited(d) + d["fields"])
            d.pop("includes")
            res.append({k: d})
        else:
            if k == "record":
                d = {x: y for x, y in d.items() if x != "includes"}
            res.append({k: d})
    return res


def grammar_resources(items, per=8):
    items = sorted(items, key=item_key)
    by = lambda pos: [it for it in items if it["pos"] == pos]
    out = []
    acts = []
    for i, ch in enumerate(chunks(by("actparam"), per)):
        acts.append(method("ACTION", "p%d" % i, params=[field_of("a%d" % j, it) for j, it in enumerate(ch)]))
    for i, it in enumerate(by("actret")):
        acts.append(method("ACTION", "r%d" % i, **{"return": type_of(it["e"])}))
    if acts:
        for i, ch in enumerate(chunks(acts, 40)):
            out.append(resource([seg("acts%d" % i)], None, ch))
    finders = []
    for i, ch in enumerate(chunks(by("finderparam"), per)):
        finders.append(method("FINDER", "q%d" % i, params=[field_of("a%d" % j, it) for j, it in enumerate(ch)], **{"return": R("Ent")}))
    for i, it in enumerate(by("findermeta")):
        finders.append(method("FINDER", "meta%d" % i, metadata=type_of(it["e"]), isPagingSupported=True, **{"return": R("Ent")}))
    if finders:
        for i, ch in enumerate(chunks(finders, 40)):
            out.append(resource([seg("finders%d" % i, "fid", P("int64"))], R("Ent"), ch))
    return out


def resource_of(idx, r):
    name = "r%d" % idx
    kind, key = r["rkind"], r["key"]
    coll = kind in ("collection", "subCollection")
    segs = []
    if kind.startswith("sub"):
        segs.append(seg("parent%d" % idx, "parentId", P("string")))
    segs.append(seg(name, name + "Id", KEY_TYPE.get(key) or P(key)) if coll else seg(name))
    ms = []
    order = {m: i for i, m in enumerate(REST_ORDER)}
    for m in sorted(r["methods"], key=lambda m: (order.get(m, 99), m)):
        if m in order:
            ms.append(method("REST_METHOD", m, onEntity=coll and m in ENTITY_METHODS))
        elif m in ("create_ret", "batch_create_ret", "partial_update_ret"):
            b = m[:-4]
            ms.append(method("REST_METHOD", b, onEntity=coll and b in ENTITY_METHODS, returnEntity=True))
        elif m == "finder_late":
            ms.append(method("FINDER", "f4", params=[F("title", P("string")), F("zone", P("string"), optional=True), F("a", P("int32"), optional=True)],
                             isPagingSupported=True, **{"return": R("Ent")}))
        elif m in ("get_params", "batch_get_params", "batch_update_params"):
            b = m[:-7]
            ps = {"get_params": [F("view", P("string"), optional=True)],
                  "batch_get_params": [F("fields", P("string"), optional=True), F("viewer", P("string"), optional=True)],
                  "batch_update_params": [F("fields", P("string"), optional=True)]}[m]
            ms.append(method("REST_METHOD", b, onEntity=coll and b in ENTITY_METHODS, params=ps))
        elif m == "get_all_paged":
            ms.append(method("REST_METHOD", "get_all", isPagingSupported=True))
        elif m == "finder":
            ms.append(method("FINDER", "f1", params=[F("kw", P("string")), F("lim", P("int32"), optional=True)], **{"return": R("Ent")}))
        elif m == "finder_paged":
            ms.append(method("FINDER", "f2", isPagingSupported=True, **{"return": R("Ent")}))
        elif m == "finder_meta":
            ms.append(method("FINDER", "f3", isPagingSupported=True, metadata=R("Leaf"), **{"return": R("Ent")}))
        elif m == "action":
            ms.append(method("ACTION", "a1", params=[F("x", P("int32")), F("leaf", R("Leaf"), optional=True)], **{"return": P("string")}))
        elif m == "action_entity":
            ms.append(method("ACTION", "a2", onEntity=True, **{"return": R("Leaf")}))
        elif m == "action_void":
            ms.append(method("ACTION", "a3"))
        else:
            raise ValueError(m)
    return resource(segs, None if kind == "actionsSet" else R("Ent"), ms)


def res_key(r):
    return (r["rkind"], r["key"], len(r["methods"]), sorted(r["methods"]))


def grammar_manifest(rows, package_root, with_items=True, with_resources=True):
    items = [r for r in rows if r["kind"] == "item"]
    res = sorted([r for r in rows if r["kind"] == "resource"], key=res_key)
    resources = []
    if with_items:
        resources += grammar_resources(items)
    if with_resources:
        resources += [resource_of(i, r) for i, r in enumerate(res)]
    return {"packageRoot": package_root, "inputDataTypes": grammar_types(items if with_items else []), "dependencyDataTypes": [],
            "resources": resources}


# ------------------------------------------------------------------------------------------------ Registry graphs

def graph_manifest(g, package_root):
    """g = {"ns": {type: [segments]}, "nm": {type: [tokens]}, "refs": {type: [types]}}: one record per type, one optional
    field per reference."""
    types = []
    ident = lambda t: {"name": "".join(g["nm"][t]), "namespace": ".".join(g["ns"][t])}
    for t in sorted(g["refs"]):
        i = ident(t)
        types.append({"record": {"name": i["name"], "namespace": i["namespace"], "sourceFile": "graph", "doc": "", "includes": [],
                                 "fields": [F("to" + u, {"reference": ident(u)}, optional=True) for u in sorted(g["refs"][t])]}})
    return {"packageRoot": package_root, "inputDataTypes": types, "dependencyDataTypes": [], "resources": []}


if __name__ == "__main__":
    import sys
    rows = [json.loads(json.loads(l)) if l.startswith('"') else json.loads(l) for l in open(sys.argv[1]) if l.strip()]
    json.dump(grammar_manifest(rows, sys.argv[2]), sys.stdout, indent=1)
