package main

// wire-level clauses of C07 -- filled in by c07wire.go when the resource has annotations
func c07(stats map[string]int) {
	c07wire(stats)
	c07wireShapes(stats)
	c07wireReturnEntity(stats)
	c07wirePrefixNames(stats)
}
