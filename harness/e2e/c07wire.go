package main

import (
	"encoding/json"
	"fmt"
	"net/http"
	"net/url"
	"reflect"
	"strings"

	"github.com/PapaCharlie/go-restli/v2/restli"
)

// C07 through the generated bindings of collStr (readOnly: id, nested/b, tags/*/b; createOnly: created):
//   - create / batch_create never transmit read-only fields; update / batch_update never transmit read-only or
//     create-only fields (request body on the recording transport), and the resource still runs;
//   - a partial update touching such a field fails on the client before anything is sent;
//   - a server answers 400 without invoking the resource to any create / update / partial update carrying one.
func c07wire(stats map[string]int) {
	info := resources["collStr"]
	invoked := 0
	mock := reflect.New(info.mock)
	retGen := &gen{text: "x", n: 500}
	for i := 0; i < info.mock.NumField(); i++ {
		ft := info.mock.Field(i).Type
		mock.Elem().Field(i).Set(reflect.MakeFunc(ft, func(args []reflect.Value) []reflect.Value {
			invoked++
			rets := make([]reflect.Value, ft.NumOut())
			for o := 0; o < ft.NumOut(); o++ {
				if ft.Out(o).Name() == "error" {
					rets[o] = reflect.Zero(ft.Out(o))
				} else {
					rets[o] = scripted(retGen, ft.Out(o), args[1:])
				}
			}
			return rets
		}))
	}
	server := restli.NewServer()
	info.register(server, mock.Interface())
	rec := &wireRec{}
	bu, _ := url.Parse("http://host.example")
	tr := &transport{h: server.Handler(), rec: rec}
	rc := &restli.Client{Client: &http.Client{Transport: tr}, HostnameResolver: &restli.SimpleHostnameResolver{Hostname: bu}}
	client := reflect.ValueOf(info.newClient(rc))
	full := &gen{text: "x", noExcl: false}
	carries := func(body string, fields ...string) []string {
		var doc any
		json.Unmarshal([]byte(body), &doc)
		var found []string
		var walk func(x any, path string)
		walk = func(x any, path string) {
			switch v := x.(type) {
			case map[string]any:
				for k, e := range v {
					p := path + "/" + k
					for _, f := range fields {
						if strings.HasSuffix(p, "/"+f) {
							found = append(found, p)
						}
					}
					walk(e, p)
				}
			case []any:
				for _, e := range v {
					walk(e, path)
				}
			}
		}
		walk(doc, "")
		return found
	}
	// ---- client side: what is transmitted
	type call struct {
		method    string
		forbidden []string
	}
	ro := []string{"id", "nested/b", "b"}
	roco := []string{"id", "nested/b", "b", "created"}
	for _, c := range []call{{"Create", ro}, {"BatchCreate", ro}, {"Update", roco}, {"BatchUpdate", roco}} {
		m := client.MethodByName(c.method)
		var args []reflect.Value
		for i := 0; i < m.Type().NumIn(); i++ {
			args = append(args, full.value(m.Type().In(i), ""))
		}
		before := invoked
		*rec = wireRec{}
		rets := m.Call(args)
		stats["c07_client_calls"]++
		cs := map[string]any{"method": c.method, "request_body": rec.body}
		if leaked := carries(rec.body, c.forbidden...); len(leaked) > 0 {
			// "b" also matches the legitimate name? Leaf.b only occurs under nested and tags: both annotated
			violation("C07/wire/client-transmits-excluded-field/"+c.method, fmt.Sprintf("%s transmitted %v", c.method, leaked), cs)
		}
		if e := rets[len(rets)-1]; !e.IsNil() || invoked != before+1 {
			violation("C07/wire/client-call-with-excluded-fields-failed/"+c.method, fmt.Sprintf("the call did not reach the resource (error %v): excluded fields are to be omitted, not refused", rets[len(rets)-1]), cs)
		}
	}
	// ---- client side: partial updates touching an excluded field fail before anything is sent
	pu := client.MethodByName("PartialUpdate")
	puType := pu.Type().In(1)
	for _, touch := range []string{"set:Id", "set:Created", "delete:Id", "delete:Created", "delete:Nested", "nested-set:B", "nested-delete:B", "set-whole:Nested"} {
		p := reflect.New(puType.Elem())
		kind, field, _ := strings.Cut(touch, ":")
		expectFail := true
		switch kind {
		case "set":
			f := p.Elem().FieldByName("Set_Fields").FieldByName(field)
			f.Set(reflect.New(f.Type().Elem()))
		case "delete":
			p.Elem().FieldByName("Delete_Fields").FieldByName(field).SetBool(true)
			if field == "Nested" {
				expectFail = false // nested itself is not annotated, only nested/b
			}
		case "nested-set":
			n := p.Elem().FieldByName("Nested")
			n.Set(reflect.New(n.Type().Elem()))
			f := n.Elem().FieldByName("Set_Fields").FieldByName(field)
			f.Set(reflect.New(f.Type().Elem()))
		case "nested-delete":
			n := p.Elem().FieldByName("Nested")
			n.Set(reflect.New(n.Type().Elem()))
			n.Elem().FieldByName("Delete_Fields").FieldByName(field).SetBool(true)
		case "set-whole": // $set of the whole record, read-only sub-field b included
			f := p.Elem().FieldByName("Set_Fields").FieldByName(field)
			f.Set(full.value(f.Type(), ""))
		}
		*rec = wireRec{}
		before := invoked
		rets := pu.Call([]reflect.Value{reflect.ValueOf("k"), p})
		stats["c07_client_calls"]++
		failed := !rets[0].IsNil()
		sent := rec.verb != ""
		cs := map[string]any{"touch": touch, "sent": sent, "error": fmt.Sprint(rets[0]), "request_body": rec.body}
		if kind == "set-whole" {
			// $set of a whole record whose value carries the read-only sub-field: refusing it, or sending the record without
			// that sub-field, both keep the promise; transmitting the sub-field does not
			if sent && len(carries(rec.body, "nested/b", "b")) > 0 {
				violation("C07/wire/client-transmits-excluded-field/PartialUpdate/"+touch, fmt.Sprintf("the partial update transmitted the read-only sub-field: %s", rec.body), cs)
			}
			continue
		}
		if expectFail && (!failed || sent || invoked != before) {
			violation("C07/wire/client-partial-update-not-refused/"+touch, fmt.Sprintf("a partial update touching an excluded field (%s): failed=%v, request sent=%v", touch, failed, sent), cs)
		}
		if !expectFail && failed {
			violation("C07/wire/client-partial-update-wrongly-refused/"+touch, fmt.Sprint(rets[0]), cs)
		}
	}
	// ---- server side: bodies carrying an excluded field are answered 400 without invoking the resource
	h := server.Handler()
	type probe struct {
		name, verb, target, method, body string
		offending                        bool
	}
	probes := []probe{
		{"create/id", "POST", "/collStr", "create", `{"name":"n","id":5}`, true},
		{"create/nested.b", "POST", "/collStr", "create", `{"name":"n","nested":{"a":1,"b":"x"}}`, true},
		{"create/tags.b", "POST", "/collStr", "create", `{"name":"n","tags":[{"a":1},{"a":2,"b":"x"}]}`, true},
		{"create/created-allowed", "POST", "/collStr", "create", `{"name":"n","created":5}`, false},
		{"create/clean", "POST", "/collStr", "create", `{"name":"n","nested":{"a":1},"tags":[{"a":1}]}`, false},
		{"batch_create/id", "POST", "/collStr", "batch_create", `{"elements":[{"name":"n"},{"name":"m","id":5}]}`, true},
		{"batch_create/clean", "POST", "/collStr", "batch_create", `{"elements":[{"name":"n"},{"name":"m"}]}`, false},
		{"update/id", "PUT", "/collStr/k", "update", `{"name":"n","id":5}`, true},
		{"update/created", "PUT", "/collStr/k", "update", `{"name":"n","created":5}`, true},
		{"update/clean", "PUT", "/collStr/k", "update", `{"name":"n"}`, false},
		{"batch_update/created", "PUT", "/collStr?ids=List(k)", "batch_update", `{"entities":{"k":{"name":"n","created":5}}}`, true},
		{"batch_update/clean", "PUT", "/collStr?ids=List(k)", "batch_update", `{"entities":{"k":{"name":"n"}}}`, false},
		{"partial_update/set-id", "POST", "/collStr/k", "partial_update", `{"patch":{"$set":{"id":5}}}`, true},
		{"partial_update/set-created", "POST", "/collStr/k", "partial_update", `{"patch":{"$set":{"created":5}}}`, true},
		{"partial_update/delete-id", "POST", "/collStr/k", "partial_update", `{"patch":{"$delete":["id"]}}`, true},
		{"partial_update/nested-set-b", "POST", "/collStr/k", "partial_update", `{"patch":{"nested":{"$set":{"b":"x"}}}}`, true},
		{"partial_update/nested-delete-b", "POST", "/collStr/k", "partial_update", `{"patch":{"nested":{"$delete":["b"]}}}`, true},
		{"partial_update/clean", "POST", "/collStr/k", "partial_update", `{"patch":{"$set":{"name":"n"},"nested":{"$set":{"a":2}}}}`, false},
		// $set of a WHOLE record / array that carries a read-only sub-field: the document carries a value at nested/b, tags/*/b
		{"partial_update/set-nested-carrying-b", "POST", "/collStr/k", "partial_update", `{"patch":{"$set":{"nested":{"a":1,"b":"x"}}}}`, true},
		{"partial_update/set-tags-carrying-b", "POST", "/collStr/k", "partial_update", `{"patch":{"$set":{"tags":[{"a":1},{"a":2,"b":"x"}]}}}`, true},
		{"partial_update/set-nested-without-b", "POST", "/collStr/k", "partial_update", `{"patch":{"$set":{"nested":{"a":1}}}}`, false},
		{"batch_partial_update/set-id", "POST", "/collStr?ids=List(k)", "batch_partial_update", `{"entities":{"k":{"patch":{"$set":{"id":5}}}}}`, true},
		{"batch_partial_update/clean", "POST", "/collStr?ids=List(k)", "batch_partial_update", `{"entities":{"k":{"patch":{"$set":{"name":"n"}}}}}`, false},
	}
	for _, p := range probes {
		before := invoked
		*rec = wireRec{}
		req, _ := http.NewRequest(p.verb, "http://host.example"+p.target, strings.NewReader(p.body))
		req.Header.Set("X-RestLi-Method", p.method)
		req.Header.Set("X-RestLi-Protocol-Version", "2.0.0")
		req.Header.Set("Content-Type", "application/json")
		res, _ := (&transport{h: h, rec: rec}).RoundTrip(req)
		stats["c07_server_probes"]++
		ran := invoked != before
		cs := map[string]any{"probe": p.name, "body": p.body, "status": res.StatusCode, "resource_invoked": ran}
		if p.offending && (res.StatusCode != 400 || ran) {
			violation("C07/wire/server-accepts-excluded-field/"+p.name, fmt.Sprintf("%s %s with body %s: status %d, resource invoked: %v (expected 400, not invoked)", p.verb, p.target, p.body, res.StatusCode, ran), cs)
		}
		if !p.offending && (res.StatusCode >= 400 || !ran) {
			violation("C07/wire/server-rejects-clean-body/"+p.name, fmt.Sprintf("%s %s with body %s: status %d, resource invoked: %v", p.verb, p.target, p.body, res.StatusCode, ran), cs)
		}
	}
}

// c07wireShapes covers two exclusion shapes the collStr resource does not have: collRO declares the whole record-typed
// field `nested` read-only (so a nested patch INTO it touches a read-only field), collCO declares create-only fields
// and no read-only field at all.
func c07wireShapes(stats map[string]int) {
	for _, name := range []string{"collRO", "collCO"} {
		info, ok := resources[name]
		if !ok {
			violation("C07/wire/no-such-resource/"+name, "generated bindings lack resource "+name, nil)
			continue
		}
		invoked := 0
		mock := reflect.New(info.mock)
		retGen := &gen{text: "x", n: 500}
		for i := 0; i < info.mock.NumField(); i++ {
			ft := info.mock.Field(i).Type
			mock.Elem().Field(i).Set(reflect.MakeFunc(ft, func(args []reflect.Value) []reflect.Value {
				invoked++
				rets := make([]reflect.Value, ft.NumOut())
				for o := 0; o < ft.NumOut(); o++ {
					if ft.Out(o).Name() == "error" {
						rets[o] = reflect.Zero(ft.Out(o))
					} else {
						rets[o] = scripted(retGen, ft.Out(o), args[1:])
					}
				}
				return rets
			}))
		}
		server := restli.NewServer()
		info.register(server, mock.Interface())
		rec := &wireRec{}
		bu, _ := url.Parse("http://host.example")
		rc := &restli.Client{Client: &http.Client{Transport: &transport{h: server.Handler(), rec: rec}}, HostnameResolver: &restli.SimpleHostnameResolver{Hostname: bu}}
		client := reflect.ValueOf(info.newClient(rc))
		full := &gen{text: "x", noExcl: false}
		excluded := map[string]string{"collRO": "nested", "collCO": "created"}[name]
		// client: update must not transmit the excluded field, and must still reach the resource
		for _, mname := range []string{"Update", "BatchUpdate"} {
			m := client.MethodByName(mname)
			if !m.IsValid() {
				continue
			}
			var args []reflect.Value
			for i := 0; i < m.Type().NumIn(); i++ {
				args = append(args, full.value(m.Type().In(i), ""))
			}
			*rec = wireRec{}
			before := invoked
			rets := m.Call(args)
			stats["c07_client_calls"]++
			cs := map[string]any{"resource": name, "method": mname, "request_body": rec.body}
			if strings.Contains(rec.body, `"`+excluded+`"`) {
				violation("C07/wire/client-transmits-excluded-field/"+name+"."+mname, fmt.Sprintf("%s.%s transmitted %q: %s", name, mname, excluded, rec.body), cs)
			}
			if e := rets[len(rets)-1]; !e.IsNil() || invoked != before+1 {
				violation("C07/wire/client-call-with-excluded-fields-failed/"+name+"."+mname, fmt.Sprintf("the call did not reach the resource (error %v)", rets[len(rets)-1]), cs)
			}
		}
		// client: partial updates touching the excluded field are refused before anything is sent
		pu := client.MethodByName("PartialUpdate")
		puType := pu.Type().In(1)
		touches := map[string][]string{"collRO": {"set:Nested", "delete:Nested", "nested-set:A", "nested-delete:B"}, "collCO": {"set:Created", "delete:Created"}}[name]
		for _, touch := range append(touches, "clean") {
			p := reflect.New(puType.Elem())
			kind, field, _ := strings.Cut(touch, ":")
			switch kind {
			case "set":
				f := p.Elem().FieldByName("Set_Fields").FieldByName(field)
				f.Set(full.value(f.Type(), ""))
			case "delete":
				p.Elem().FieldByName("Delete_Fields").FieldByName(field).SetBool(true)
			case "nested-set":
				n := p.Elem().FieldByName("Nested")
				n.Set(reflect.New(n.Type().Elem()))
				f := n.Elem().FieldByName("Set_Fields").FieldByName(field)
				f.Set(reflect.New(f.Type().Elem()))
			case "nested-delete":
				n := p.Elem().FieldByName("Nested")
				n.Set(reflect.New(n.Type().Elem()))
				n.Elem().FieldByName("Delete_Fields").FieldByName(field).SetBool(true)
			case "clean":
				f := p.Elem().FieldByName("Set_Fields").FieldByName("Name")
				f.Set(reflect.New(f.Type().Elem()))
			}
			*rec = wireRec{}
			before := invoked
			rets := pu.Call([]reflect.Value{full.value(pu.Type().In(0), ""), p})
			stats["c07_client_calls"]++
			failed, sent := !rets[0].IsNil(), rec.verb != ""
			cs := map[string]any{"resource": name, "touch": touch, "sent": sent, "error": fmt.Sprint(rets[0]), "request_body": rec.body}
			if touch != "clean" && (!failed || sent || invoked != before) {
				violation("C07/wire/client-partial-update-not-refused/"+name+"/"+touch, fmt.Sprintf("a partial update touching the excluded field %q (%s): failed=%v, request sent=%v", excluded, touch, failed, sent), cs)
			}
			if touch == "clean" && (failed || invoked != before+1) {
				violation("C07/wire/client-partial-update-wrongly-refused/"+name, fmt.Sprint(rets[0]), cs)
			}
		}
		// server: bodies carrying the excluded field are answered 400 without invoking the resource
		h := server.Handler()
		val := map[string]string{"collRO": `{"a":1}`, "collCO": `5`}[name]
		probes := []struct {
			pname, verb, target, method, body string
			offending                         bool
		}{
			{"update", "PUT", "/" + name + "/1", "update", `{"name":"n","` + excluded + `":` + val + `}`, true},
			{"update-clean", "PUT", "/" + name + "/1", "update", `{"name":"n"}`, false},
			{"partial_update/set", "POST", "/" + name + "/1", "partial_update", `{"patch":{"$set":{"` + excluded + `":` + val + `}}}`, true},
			{"partial_update/delete", "POST", "/" + name + "/1", "partial_update", `{"patch":{"$delete":["` + excluded + `"]}}`, true},
			{"partial_update/clean", "POST", "/" + name + "/1", "partial_update", `{"patch":{"$set":{"name":"n"}}}`, false},
			{"create", "POST", "/" + name, "create", `{"name":"n","` + excluded + `":` + val + `}`, name == "collRO"},
		}
		if name == "collRO" {
			probes = append(probes, struct {
				pname, verb, target, method, body string
				offending                         bool
			}{"partial_update/nested-patch", "POST", "/" + name + "/1", "partial_update", `{"patch":{"nested":{"$set":{"a":2}}}}`, true})
		}
		for _, p := range probes {
			before := invoked
			*rec = wireRec{}
			req, _ := http.NewRequest(p.verb, "http://host.example"+p.target, strings.NewReader(p.body))
			req.Header.Set("X-RestLi-Method", p.method)
			req.Header.Set("X-RestLi-Protocol-Version", "2.0.0")
			req.Header.Set("Content-Type", "application/json")
			res, _ := (&transport{h: h, rec: rec}).RoundTrip(req)
			stats["c07_server_probes"]++
			ran := invoked != before
			cs := map[string]any{"resource": name, "probe": p.pname, "body": p.body, "status": res.StatusCode, "resource_invoked": ran}
			if p.offending && (res.StatusCode != 400 || ran) {
				violation("C07/wire/server-accepts-excluded-field/"+name+"/"+p.pname, fmt.Sprintf("%s %s with body %s: status %d, resource invoked: %v (expected 400, not invoked)", p.verb, p.target, p.body, res.StatusCode, ran), cs)
			}
			if !p.offending && (res.StatusCode >= 400 || !ran) {
				violation("C07/wire/server-rejects-clean-body/"+name+"/"+p.pname, fmt.Sprintf("%s %s with body %s: status %d, resource invoked: %v", p.verb, p.target, p.body, res.StatusCode, ran), cs)
			}
		}
	}
}

// c07wireReturnEntity: collRR declares read-only fields (id, nested/b) and its create, batch_create and partial_update
// return the entity, so the server registers them through the ...WithReturnEntity adapters.
func c07wireReturnEntity(stats map[string]int) {
	name := "collRR"
	info, ok := resources[name]
	if !ok {
		violation("C07/wire/no-such-resource/"+name, "generated bindings lack resource "+name, nil)
		return
	}
	invoked := 0
	mock := reflect.New(info.mock)
	retGen := &gen{text: "x", n: 500}
	for i := 0; i < info.mock.NumField(); i++ {
		ft := info.mock.Field(i).Type
		mock.Elem().Field(i).Set(reflect.MakeFunc(ft, func(args []reflect.Value) []reflect.Value {
			invoked++
			rets := make([]reflect.Value, ft.NumOut())
			for o := 0; o < ft.NumOut(); o++ {
				if ft.Out(o).Name() == "error" {
					rets[o] = reflect.Zero(ft.Out(o))
				} else {
					rets[o] = scripted(retGen, ft.Out(o), args[1:])
				}
			}
			return rets
		}))
	}
	server := restli.NewServer()
	info.register(server, mock.Interface())
	rec := &wireRec{}
	bu, _ := url.Parse("http://host.example")
	rc := &restli.Client{Client: &http.Client{Transport: &transport{h: server.Handler(), rec: rec}}, HostnameResolver: &restli.SimpleHostnameResolver{Hostname: bu}}
	client := reflect.ValueOf(info.newClient(rc))
	full := &gen{text: "x", noExcl: false}
	for _, mname := range []string{"Create", "BatchCreate"} {
		m := client.MethodByName(mname)
		if !m.IsValid() {
			violation("C07/wire/no-such-method/"+name+"."+mname, "generated client lacks the method", nil)
			continue
		}
		var args []reflect.Value
		for i := 0; i < m.Type().NumIn(); i++ {
			args = append(args, full.value(m.Type().In(i), ""))
		}
		*rec = wireRec{}
		before := invoked
		rets := m.Call(args)
		stats["c07_client_calls"]++
		cs := map[string]any{"resource": name, "method": mname, "request_body": rec.body}
		var doc map[string]any
		json.Unmarshal([]byte(rec.body), &doc)
		ents := []any{doc}
		if mname == "BatchCreate" {
			ents, _ = doc["elements"].([]any)
		}
		leaked := len(ents) == 0
		for _, e := range ents {
			em, _ := e.(map[string]any)
			_, hasID := em["id"]
			nested, _ := em["nested"].(map[string]any)
			_, hasB := nested["b"]
			leaked = leaked || em == nil || hasID || hasB
		}
		if leaked {
			violation("C07/wire/client-transmits-excluded-field/"+name+"."+mname, fmt.Sprintf("%s.%s transmitted a read-only field (id, nested/b): %s", name, mname, rec.body), cs)
		}
		if e := rets[len(rets)-1]; !e.IsNil() || invoked != before+1 {
			violation("C07/wire/client-call-with-excluded-fields-failed/"+name+"."+mname, fmt.Sprintf("the call did not reach the resource (error %v)", rets[len(rets)-1]), cs)
		}
	}
	h := server.Handler()
	probes := []struct {
		pname, verb, target, method, body string
		offending                         bool
	}{
		{"create/id", "POST", "/collRR", "create", `{"name":"n","id":5}`, true},
		{"create/nested.b", "POST", "/collRR", "create", `{"name":"n","nested":{"a":1,"b":"x"}}`, true},
		{"create/clean", "POST", "/collRR", "create", `{"name":"n","nested":{"a":1}}`, false},
		{"batch_create/id", "POST", "/collRR", "batch_create", `{"elements":[{"name":"n"},{"name":"m","id":5}]}`, true},
		{"batch_create/nested.b", "POST", "/collRR", "batch_create", `{"elements":[{"name":"n","nested":{"a":1,"b":"x"}}]}`, true},
		{"batch_create/clean", "POST", "/collRR", "batch_create", `{"elements":[{"name":"n"},{"name":"m","nested":{"a":1}}]}`, false},
		{"partial_update/set-id", "POST", "/collRR/1", "partial_update", `{"patch":{"$set":{"id":5}}}`, true},
		{"partial_update/nested-set-b", "POST", "/collRR/1", "partial_update", `{"patch":{"nested":{"$set":{"b":"x"}}}}`, true},
		{"partial_update/clean", "POST", "/collRR/1", "partial_update", `{"patch":{"$set":{"name":"n"},"nested":{"$set":{"a":2}}}}`, false},
	}
	for _, p := range probes {
		before := invoked
		*rec = wireRec{}
		req, _ := http.NewRequest(p.verb, "http://host.example"+p.target, strings.NewReader(p.body))
		req.Header.Set("X-RestLi-Method", p.method)
		req.Header.Set("X-RestLi-Protocol-Version", "2.0.0")
		req.Header.Set("Content-Type", "application/json")
		res, _ := (&transport{h: h, rec: rec}).RoundTrip(req)
		stats["c07_server_probes"]++
		ran := invoked != before
		cs := map[string]any{"resource": name, "probe": p.pname, "body": p.body, "status": res.StatusCode, "resource_invoked": ran}
		if p.offending && (res.StatusCode != 400 || ran) {
			violation("C07/wire/server-accepts-excluded-field/"+name+"/"+p.pname, fmt.Sprintf("%s %s with body %s: status %d, resource invoked: %v (expected 400, not invoked)", p.verb, p.target, p.body, res.StatusCode, ran), cs)
		}
		if !p.offending && (res.StatusCode >= 400 || !ran) {
			violation("C07/wire/server-rejects-clean-body/"+name+"/"+p.pname, fmt.Sprintf("%s %s with body %s: status %d, resource invoked: %v", p.verb, p.target, p.body, res.StatusCode, ran), cs)
		}
	}
}

// c07wirePrefixNames: collPfx annotates created + address read-only and createdBy + addressLine2 create-only -- names that
// are string prefixes of one another without being path prefixes.  Every one of the four is its own directive.
func c07wirePrefixNames(stats map[string]int) {
	name := "collPfx"
	info, ok := resources[name]
	if !ok {
		violation("C07/wire/no-such-resource/"+name, "generated bindings lack resource "+name, nil)
		return
	}
	invoked := 0
	mock := reflect.New(info.mock)
	retGen := &gen{text: "x", n: 500}
	for i := 0; i < info.mock.NumField(); i++ {
		ft := info.mock.Field(i).Type
		mock.Elem().Field(i).Set(reflect.MakeFunc(ft, func(args []reflect.Value) []reflect.Value {
			invoked++
			rets := make([]reflect.Value, ft.NumOut())
			for o := 0; o < ft.NumOut(); o++ {
				if ft.Out(o).Name() == "error" {
					rets[o] = reflect.Zero(ft.Out(o))
				} else {
					rets[o] = scripted(retGen, ft.Out(o), args[1:])
				}
			}
			return rets
		}))
	}
	server := restli.NewServer()
	info.register(server, mock.Interface())
	rec := &wireRec{}
	bu, _ := url.Parse("http://host.example")
	rc := &restli.Client{Client: &http.Client{Transport: &transport{h: server.Handler(), rec: rec}}, HostnameResolver: &restli.SimpleHostnameResolver{Hostname: bu}}
	client := reflect.ValueOf(info.newClient(rc))
	full := &gen{text: "x", noExcl: false}
	forbidden := map[string][]string{"Create": {"created", "address", "zAudit"}, "Update": {"created", "address", "createdBy", "addressLine2", "zAudit"},
		"BatchUpdate": {"created", "address", "createdBy", "addressLine2", "zAudit"}}
	for _, mname := range []string{"Create", "Update", "BatchUpdate"} {
		m := client.MethodByName(mname)
		if !m.IsValid() {
			violation("C07/wire/no-such-method/"+name+"."+mname, "generated client lacks the method", nil)
			continue
		}
		var args []reflect.Value
		for i := 0; i < m.Type().NumIn(); i++ {
			args = append(args, full.value(m.Type().In(i), ""))
		}
		*rec = wireRec{}
		before := invoked
		rets := m.Call(args)
		stats["c07_client_calls"]++
		cs := map[string]any{"resource": name, "method": mname, "request_body": rec.body}
		for _, f := range forbidden[mname] {
			if strings.Contains(rec.body, `"`+f+`":`) {
				violation("C07/wire/client-transmits-excluded-field/"+name+"."+mname+"/"+f, fmt.Sprintf("%s.%s transmitted %q: %s", name, mname, f, rec.body), cs)
			}
		}
		if mname == "BatchUpdate" {
			// every entity the caller passed is transmitted (minus its excluded fields): leaving a field out of one entity must
			// not make the next entity disappear
			var doc struct {
				Entities map[string]map[string]any `json:"entities"`
			}
			json.Unmarshal([]byte(rec.body), &doc)
			if want := args[0].Len(); len(doc.Entities) != want {
				violation("C07/wire/client-drops-entities/"+name+".BatchUpdate", fmt.Sprintf("%d entities passed, %d transmitted: %s", want, len(doc.Entities), rec.body), cs)
			}
			for k, e := range doc.Entities {
				if _, ok := e["name"]; !ok {
					violation("C07/wire/client-drops-allowed-field/"+name+".BatchUpdate/name", fmt.Sprintf("entity %s was transmitted without its name: %s", k, rec.body), cs)
				}
			}
		}
		if mname == "Create" && !strings.Contains(rec.body, `"createdBy":`) {
			violation("C07/wire/client-drops-allowed-field/"+name+".Create/createdBy", "create dropped a create-only field, which it may transmit: "+rec.body, cs)
		}
		if e := rets[len(rets)-1]; !e.IsNil() || invoked != before+1 {
			violation("C07/wire/client-call-with-excluded-fields-failed/"+name+"."+mname, fmt.Sprintf("the call did not reach the resource (error %v)", rets[len(rets)-1]), cs)
		}
	}
	h := server.Handler()
	probes := []struct {
		pname, verb, target, method, body string
		offending                         bool
	}{
		{"update/created", "PUT", "/collPfx/1", "update", `{"name":"n","created":5}`, true},
		{"update/createdBy", "PUT", "/collPfx/1", "update", `{"name":"n","createdBy":"m"}`, true},
		{"update/address", "PUT", "/collPfx/1", "update", `{"name":"n","address":{"a":1}}`, true},
		{"update/addressLine2", "PUT", "/collPfx/1", "update", `{"name":"n","addressLine2":"x"}`, true},
		{"update/clean", "PUT", "/collPfx/1", "update", `{"name":"n"}`, false},
		{"create/createdBy-allowed", "POST", "/collPfx", "create", `{"name":"n","createdBy":"m","addressLine2":"x"}`, false},
		{"create/created", "POST", "/collPfx", "create", `{"name":"n","created":5}`, true},
		{"partial_update/set-createdBy", "POST", "/collPfx/1", "partial_update", `{"patch":{"$set":{"createdBy":"m"}}}`, true},
		{"partial_update/delete-addressLine2", "POST", "/collPfx/1", "partial_update", `{"patch":{"$delete":["addressLine2"]}}`, true},
		{"partial_update/clean", "POST", "/collPfx/1", "partial_update", `{"patch":{"$set":{"name":"n"}}}`, false},
		{"batch_update/createdBy", "PUT", "/collPfx?ids=List(1)", "batch_update", `{"entities":{"1":{"name":"n","createdBy":"m"}}}`, true},
	}
	for _, p := range probes {
		before := invoked
		*rec = wireRec{}
		req, _ := http.NewRequest(p.verb, "http://host.example"+p.target, strings.NewReader(p.body))
		req.Header.Set("X-RestLi-Method", p.method)
		req.Header.Set("X-RestLi-Protocol-Version", "2.0.0")
		req.Header.Set("Content-Type", "application/json")
		res, _ := (&transport{h: h, rec: rec}).RoundTrip(req)
		stats["c07_server_probes"]++
		ran := invoked != before
		cs := map[string]any{"resource": name, "probe": p.pname, "body": p.body, "status": res.StatusCode, "resource_invoked": ran}
		if p.offending && (res.StatusCode != 400 || ran) {
			violation("C07/wire/server-accepts-excluded-field/"+name+"/"+p.pname, fmt.Sprintf("%s %s with body %s: status %d, resource invoked: %v (expected 400, not invoked)", p.verb, p.target, p.body, res.StatusCode, ran), cs)
		}
		if !p.offending && (res.StatusCode >= 400 || !ran) {
			violation("C07/wire/server-rejects-clean-body/"+name+"/"+p.pname, fmt.Sprintf("%s %s with body %s: status %d, resource invoked: %v", p.verb, p.target, p.body, res.StatusCode, ran), cs)
		}
	}
}
