// Harness for C02 (end-to-end call fidelity), the wire-level clauses of C07 and C16 on generated bindings.
//
// For every call exported by TLC from Call.tla (resource, method, argument content, client configuration, server
// mounting) the generated client is invoked by reflection with generated arguments; the request travels through a
// recording transport into a real restli.Server on which the generated RegisterResource registered a generated
// MockResource whose function fields record what they receive and return scripted results.  Compared: the method
// that ran, the arguments it received against the caller's, the client's return value against the resource's, and
// the wire (verb, method header, path, status) against the specification's row.
package main

import (
	"bufio"
	"bytes"
	"encoding/json"
	"flag"
	"fmt"
	"io"
	"math"
	"net/http"
	"net/http/httptest"
	"net/url"
	"os"
	"reflect"
	"sort"
	"strings"

	"github.com/PapaCharlie/go-restli/v2/restli"
	"github.com/PapaCharlie/go-restli/v2/restlidata/generated/com/linkedin/restli/common"
)

type Row struct {
	Node   string `json:"node"`
	Method string `json:"method"`
	Name   string `json:"name"`
	Wire   struct {
		Verb string   `json:"verb"`
		Hdr  string   `json:"hdr"`
		Path []string `json:"path"`
		Q    string   `json:"q"`
		Ids  string   `json:"ids"`
		Act  string   `json:"act"`
	} `json:"wire"`
	Status int      `json:"status"`
	Req    envelope `json:"req"`
	Resp   envelope `json:"resp"`
	Cfg    struct {
		Threshold int    `json:"threshold"`
		Strict    bool   `json:"strict"`
		Ctx       bool   `json:"ctx"`
		Mount     string `json:"mount"`
		Text      int    `json:"text"`
	} `json:"cfg"`
}

// envelope is one row of Call.tla's envelope table
type envelope struct {
	Kinds    []string `json:"kinds"`
	Required []string `json:"required"`
	Allowed  []string `json:"allowed"`
}

// conforms decides whether a body has one of the admitted shapes; "entity" and "params" are any JSON object (their
// content is the codec's business), "object" is an object with exactly the required and at most the allowed members
func (e envelope) conforms(body string) string {
	has := func(k string) bool {
		for _, x := range e.Kinds {
			if x == k {
				return true
			}
		}
		return false
	}
	if len(e.Kinds) == 0 {
		return ""
	}
	if strings.TrimSpace(body) == "" {
		if has("none") {
			return ""
		}
		return "no body, the protocol prescribes one of " + fmt.Sprint(e.Kinds)
	}
	var v any
	dec := json.NewDecoder(strings.NewReader(body))
	if err := dec.Decode(&v); err != nil || dec.More() {
		return "body is not one JSON document: " + body
	}
	m, ok := v.(map[string]any)
	if !ok {
		return "body is not a JSON object: " + body
	}
	if has("entity") || has("params") {
		return ""
	}
	if !has("object") {
		return "a body where the protocol prescribes none: " + body
	}
	for _, r := range e.Required {
		if _, ok := m[r]; !ok {
			return fmt.Sprintf("member %q missing from %s", r, body)
		}
	}
	for k := range m {
		ok := false
		for _, a := range e.Allowed {
			ok = ok || a == k
		}
		if !ok {
			return fmt.Sprintf("member %q is not part of the envelope (%v): %s", k, e.Allowed, body)
		}
	}
	return ""
}

// reducedEscape is the protocol's encoding of a string key inside headers and bodies: the ROR2 delimiters and the percent
// sign are percent-encoded, the empty string is two apostrophes, everything else is literal
func reducedEscape(s string) string {
	if s == "" {
		return "''"
	}
	var sb strings.Builder
	for i := 0; i < len(s); i++ {
		if strings.IndexByte("%,()':", s[i]) >= 0 {
			fmt.Fprintf(&sb, "%%%02X", s[i])
		} else {
			sb.WriteByte(s[i])
		}
	}
	return sb.String()
}

var texts = []string{"plain", "a/b?c#d&e=f;g", "(a:b,c)'List(x)", "100%25% +", "", "é日🕴"}

var out *bufio.Writer
var vcount = map[string]int{}

func violation(key, what string, c any) {
	vcount[key]++
	if vcount[key] > 2 {
		return
	}
	b, _ := json.Marshal(map[string]any{"kind": "violation", "key": key, "what": what, "case": c})
	out.Write(b)
	out.WriteByte('\n')
}

func export(s string) string { return strings.ToUpper(s[:1]) + s[1:] }

func goMethod(method, name string) string {
	switch method {
	case "finder":
		return "FindBy" + export(name)
	case "action":
		return export(name) + "Action"
	}
	parts := strings.Split(method, "_")
	for i := range parts {
		parts[i] = export(parts[i])
	}
	return strings.Join(parts, "")
}

// ---- value generation by type

type gen struct {
	text   string
	n      int
	noExcl bool // leave read-only / create-only fields of Ent unset (C02); set them (C07 wire level) otherwise
	sparse bool // leave every optional member of a *Params struct unset: the query string is then empty
	vary   int  // > 0 (thorough tier): numbers outside containers take boundary values, optional members come and go
}

var varyI32 = []int64{0, -1, 1, -2147483648, 2147483647, 65536}
var varyI64 = []int64{0, -1, -9223372036854775808, 9223372036854775807, 9007199254740993, 4294967296}
var varyF = []float64{0, -1.5, 1e21, 1.5e-7, 16777216, -0.25}

// varied: this position may take a varied value (never inside slices and maps: batch keys must stay distinct)
func (g *gen) varied(path string) bool {
	return g.vary > 0 && !strings.Contains(path, "[]") && path != "key"
}

func (g *gen) next() int { g.n++; return g.n }

func (g *gen) value(t reflect.Type, path string) reflect.Value {
	v := reflect.New(t).Elem()
	g.fill(v, path)
	return v
}

// currentResource is the resource of the call being replayed: which Ent fields are annotated depends on it
var currentResource string

func isExcludedEntField(path string) bool {
	switch path {
	case "Ent.Id", "Ent.Created", "Ent.Nested.B", "Ent.Tags[].B":
		return true
	case "Ent.Nested":
		return currentResource == "collRO" // the whole record-typed field is read-only there
	case "Pfx.Created", "Pfx.CreatedBy", "Pfx.Address", "Pfx.AddressLine2", "Pfx.ZAudit":
		return true // collPfx: created / address read-only, createdBy / addressLine2 create-only
	}
	return false
}

func (g *gen) fill(v reflect.Value, path string) {
	t := v.Type()
	if g.noExcl && isExcludedEntField(path) {
		return
	}
	switch t.Kind() {
	case reflect.String:
		v.SetString(g.text)
	case reflect.Int32:
		if _, ok := t.MethodByName("IsValid"); ok { // enum
			v.SetInt(int64(1 + g.next()%3))
		} else if g.varied(path) {
			v.SetInt(varyI32[(g.next()+g.vary)%len(varyI32)])
		} else {
			v.SetInt(int64(g.next()*7 - 3))
		}
	case reflect.Int64, reflect.Int:
		if g.varied(path) && t.Kind() == reflect.Int64 {
			v.SetInt(varyI64[(g.next()+g.vary)%len(varyI64)])
		} else {
			v.SetInt(int64(g.next())*1000003 - 5)
		}
	case reflect.Float32, reflect.Float64:
		if g.varied(path) {
			v.SetFloat(varyF[(g.next()+g.vary)%len(varyF)])
		} else {
			v.SetFloat(float64(g.next()) + 0.5)
		}
	case reflect.Bool:
		v.SetBool(g.next()%2 == 0)
	case reflect.Ptr:
		if strings.HasSuffix(t.Elem().Name(), "_PartialUpdate") {
			v.Set(reflect.New(t.Elem()))
			sf := v.Elem().FieldByName("Set_Fields")
			for _, name := range []string{"Name", "A", "X"} {
				if f := sf.FieldByName(name); f.IsValid() {
					g.fill(f, path+".set."+name)
					break
				}
			}
			return
		}
		if g.varied(path) && g.noExcl && path != "" && strings.Contains(path, ".") && (g.next()+g.vary)%3 == 0 { // (arguments only: what a resource returns is complete)
			return // an optional member left unset
		}
		v.Set(reflect.New(t.Elem()))
		g.fill(v.Elem(), path)
	case reflect.Struct:
		name := t.Name()
		if i := strings.Index(name, "["); i >= 0 {
			name = name[:i]
		}
		base := path
		if base == "" || strings.HasSuffix(base, "[]") || true {
			if name == "Ent" || name == "Leaf" || name == "Pfx" {
				if path == "" || !(strings.Contains(path, "Ent") || strings.Contains(path, "Pfx")) {
					base = name
				}
			}
		}
		for i := 0; i < t.NumField(); i++ {
			f := t.Field(i)
			if !f.IsExported() {
				continue
			}
			if g.sparse && (strings.HasSuffix(name, "Params") || name == "PagingContext") && (f.Type.Kind() == reflect.Ptr || f.Type.Kind() == reflect.Slice || f.Type.Kind() == reflect.Map) {
				continue
			}
			sub := base + "." + f.Name
			if f.Anonymous {
				sub = base
			}
			g.fill(v.Field(i), sub)
		}
	case reflect.Slice:
		if t.Elem().Kind() == reflect.Uint8 {
			v.SetBytes([]byte(g.text + "\x00\x01"))
			return
		}
		s := reflect.MakeSlice(t, 2, 2)
		for i := 0; i < 2; i++ {
			g.fill(s.Index(i), path+"[]")
			if t.Elem().Kind() == reflect.String && i > 0 {
				s.Index(i).SetString(g.text + "~2") // distinct elements (batch keys must not repeat)
			}
		}
		v.Set(s)
	case reflect.Array:
		for i := 0; i < v.Len(); i++ {
			v.Index(i).SetUint(uint64('a' + i))
		}
	case reflect.Map:
		m := reflect.MakeMap(t)
		for i := 0; i < 2; i++ {
			k := reflect.New(t.Key()).Elem()
			if t.Key().Kind() == reflect.String {
				k.SetString(fmt.Sprintf("%s#%d", g.text, i))
			} else {
				g.fill(k, "key")
			}
			e := reflect.New(t.Elem()).Elem()
			g.fill(e, path+"[]")
			m.SetMapIndex(k, e)
		}
		v.Set(m)
	case reflect.Interface:
	}
}

// ---- comparison: deep, nil == empty, pointers dereferenced, listed fields ignored
func same(a, b reflect.Value, path string) string {
	for a.IsValid() && (a.Kind() == reflect.Ptr || a.Kind() == reflect.Interface) {
		if a.IsNil() {
			break
		}
		a = a.Elem()
	}
	for b.IsValid() && (b.Kind() == reflect.Ptr || b.Kind() == reflect.Interface) {
		if b.IsNil() {
			break
		}
		b = b.Elem()
	}
	emptyish := func(v reflect.Value) bool {
		if !v.IsValid() {
			return true
		}
		switch v.Kind() {
		case reflect.Ptr, reflect.Interface:
			return v.IsNil()
		case reflect.Slice, reflect.Map:
			return v.Len() == 0
		}
		return false
	}
	if emptyish(a) || emptyish(b) {
		if emptyish(a) && emptyish(b) {
			return ""
		}
		return fmt.Sprintf("%s: %v vs %v", path, show(a), show(b))
	}
	if a.Type() != b.Type() {
		return fmt.Sprintf("%s: type %s vs %s", path, a.Type(), b.Type())
	}
	switch a.Kind() {
	case reflect.Struct:
		for i := 0; i < a.NumField(); i++ {
			f := a.Type().Field(i)
			if !f.IsExported() || f.Name == "Location" {
				continue
			}
			if f.Name == "Status" && f.Type.Kind() == reflect.Int && (a.Field(i).Int() == 0 || b.Field(i).Int() == 0) {
				continue // 0 = "use the protocol's default status"
			}
			if d := same(a.Field(i), b.Field(i), path+"."+f.Name); d != "" {
				return d
			}
		}
	case reflect.Slice, reflect.Array:
		if a.Len() != b.Len() {
			return fmt.Sprintf("%s: length %d vs %d", path, a.Len(), b.Len())
		}
		for i := 0; i < a.Len(); i++ {
			if d := same(a.Index(i), b.Index(i), fmt.Sprintf("%s[%d]", path, i)); d != "" {
				return d
			}
		}
	case reflect.Map:
		if a.Len() != b.Len() {
			return fmt.Sprintf("%s: %d entries vs %d", path, a.Len(), b.Len())
		}
		// keys may be pointers (complex keys): match by value
		for _, ka := range a.MapKeys() {
			found := false
			for _, kb := range b.MapKeys() {
				if same(ka, kb, "") == "" {
					found = true
					if d := same(a.MapIndex(ka), b.MapIndex(kb), fmt.Sprintf("%s[%v]", path, show(ka))); d != "" {
						return d
					}
					break
				}
			}
			if !found {
				return fmt.Sprintf("%s: key %v has no counterpart", path, show(ka))
			}
		}
	case reflect.Float32, reflect.Float64:
		if a.Float() != b.Float() && !(math.IsNaN(a.Float()) && math.IsNaN(b.Float())) {
			return fmt.Sprintf("%s: %v vs %v", path, a.Float(), b.Float())
		}
	default:
		if !reflect.DeepEqual(a.Interface(), b.Interface()) {
			return fmt.Sprintf("%s: %v vs %v", path, show(a), show(b))
		}
	}
	return ""
}

func sortedCopy(s reflect.Value) reflect.Value {
	if s.Kind() != reflect.Slice {
		return s
	}
	c := reflect.MakeSlice(s.Type(), s.Len(), s.Len())
	reflect.Copy(c, s)
	sort.SliceStable(c.Interface(), func(i, j int) bool { return show(c.Index(i)) < show(c.Index(j)) })
	return c
}

func show(v reflect.Value) string {
	if !v.IsValid() {
		return "<none>"
	}
	b, err := json.Marshal(v.Interface())
	if err != nil || len(b) > 160 {
		s := fmt.Sprintf("%+v", v.Interface())
		if len(s) > 160 {
			s = s[:160] + "..."
		}
		return s
	}
	return string(b)
}

// ---- transport: in-process, recording
type wireRec struct {
	verb, path, rawQuery, methodHdr, override, ctype, body string
	protoReq, protoResp, respBody, idHdr                   string
	status                                                 int
	errHdr                                                 bool
}

type transport struct {
	h   http.Handler
	rec *wireRec
}

func (t *transport) RoundTrip(req *http.Request) (*http.Response, error) {
	var body []byte
	if req.Body != nil {
		body, _ = io.ReadAll(req.Body)
	}
	*t.rec = wireRec{verb: req.Method, path: req.URL.EscapedPath(), rawQuery: req.URL.RawQuery, methodHdr: req.Header.Get("X-RestLi-Method"),
		override: req.Header.Get("X-HTTP-Method-Override"), ctype: req.Header.Get("Content-Type"), body: string(body),
		protoReq: req.Header.Get("X-RestLi-Protocol-Version")}
	sreq := httptest.NewRequest(req.Method, req.URL.RequestURI(), bytes.NewReader(body))
	sreq.Header = req.Header.Clone()
	sreq.Host = req.URL.Host
	w := httptest.NewRecorder()
	t.h.ServeHTTP(w, sreq)
	res := w.Result()
	res.Request = req
	t.rec.status = res.StatusCode
	t.rec.errHdr = res.Header.Get("X-RestLi-Error-Response") != ""
	t.rec.protoResp = res.Header.Get("X-RestLi-Protocol-Version")
	t.rec.idHdr = res.Header.Get("X-RestLi-Id")
	rb, _ := io.ReadAll(res.Body)
	res.Body = io.NopCloser(bytes.NewReader(rb))
	t.rec.respBody = string(rb)
	return res, nil
}

type received struct {
	method string
	args   []reflect.Value
	ret    []reflect.Value
}

func main() {
	in := flag.String("in", "", "")
	c16 := flag.String("c16", "", "behaviours exported from Batch.tla")
	vary := flag.Int("vary", 0, "argument variation (0: the row's plain arguments)")
	flag.Parse()
	out = bufio.NewWriterSize(os.Stdout, 1<<20)
	defer out.Flush()
	f, err := os.Open(*in)
	if err != nil {
		panic(err)
	}
	sc := bufio.NewScanner(f)
	stats := map[string]int{}
	for sc.Scan() {
		var row Row
		if err := json.Unmarshal(sc.Bytes(), &row); err != nil {
			panic(err)
		}
		info, ok := resources[row.Node]
		if !ok {
			panic("unknown resource " + row.Node)
		}
		stats["calls"]++
		text := texts[row.Cfg.Text-1]
		gm := goMethod(row.Method, row.Name)
		feat := fmt.Sprintf("%s.%s", row.Node, gm)
		cs := map[string]any{"resource": row.Node, "method": gm, "text": text, "threshold": row.Cfg.Threshold, "strict": row.Cfg.Strict, "context_path": row.Cfg.Ctx, "mount": row.Cfg.Mount}
		// ---- server with a recording MockResource
		var got []received
		retGen := &gen{text: text, noExcl: false, n: 100, vary: *vary}
		mock := reflect.New(info.mock)
		for i := 0; i < info.mock.NumField(); i++ {
			fld := info.mock.Field(i)
			name := strings.TrimPrefix(fld.Name, "Mock")
			ft := fld.Type
			mock.Elem().Field(i).Set(reflect.MakeFunc(ft, func(args []reflect.Value) []reflect.Value {
				rets := make([]reflect.Value, ft.NumOut())
				if failNext {
					// the priming call: the implementation answers with its sentinel error object (no message) as the
					// top-level error of the method
					failNext = false
					for o := 0; o < ft.NumOut(); o++ {
						rets[o] = reflect.Zero(ft.Out(o))
						if ft.Out(o).Name() == "error" {
							rets[o] = reflect.ValueOf(sentinelErr).Convert(ft.Out(o))
						}
					}
					return rets
				}
				for o := 0; o < ft.NumOut(); o++ {
					if ft.Out(o).Name() == "error" {
						rets[o] = reflect.Zero(ft.Out(o))
					} else {
						rets[o] = scripted(retGen, ft.Out(o), args[1:])
					}
				}
				got = append(got, received{method: name, args: append([]reflect.Value{}, args[1:]...), ret: rets})
				return rets
			}))
		}
		prefix := ""
		var server restli.Server
		if row.Cfg.Mount == "prefix" {
			prefix = "/api/v1"
			server = restli.NewPrefixedServer(prefix)
		} else {
			server = restli.NewServer()
		}
		info.register(server, mock.Interface())
		var handler http.Handler = server.Handler()
		if row.Cfg.Mount == "mux" {
			mux := http.NewServeMux()
			server.AddToMux(mux)
			handler = mux
		}
		rec := &wireRec{}
		base := "http://host.example" + prefix
		if row.Cfg.Ctx && row.Cfg.Mount == "prefix" {
			base += "/" + info.segments[0] // the resolver's context path already ends with the root resource
		}
		bu, _ := url.Parse(base)
		rc := &restli.Client{Client: &http.Client{Transport: &transport{h: handler, rec: rec}}, HostnameResolver: &restli.SimpleHostnameResolver{Hostname: bu},
			StrictResponseDeserialization: row.Cfg.Strict, QueryTunnellingThreshold: row.Cfg.Threshold}
		client := reflect.ValueOf(info.newClient(rc))
		m := client.MethodByName(gm)
		if !m.IsValid() {
			violation("C02/no-client-method/"+feat, "the generated client has no method "+gm, cs)
			continue
		}
		argGen := &gen{text: text, noExcl: true, vary: *vary}
		currentResource = row.Node
		batchMode = (row.Cfg.Text + row.Cfg.Threshold) % 3
		argGen.sparse = batchMode == 1 // one configuration in three: every optional parameter left unset
		var args []reflect.Value
		for i := 0; i < m.Type().NumIn(); i++ {
			args = append(args, argGen.value(m.Type().In(i), ""))
		}
		if row.Cfg.Mount == "mux" && (text == "" || strings.Contains(text, "/")) && len(args) > 0 {
			stats["skipped_mux_cleaning"]++
			continue // ServeMux cleans paths with empty or dot segments itself
		}
		var rets []reflect.Value
		var pan any
		if batchMode == 2 && strings.HasPrefix(gm, "Batch") && row.Cfg.Mount == "bare" {
			// priming: the same method first fails as a whole with the implementation's sentinel error object, which the
			// implementation then hands out again as the per-key error of the real call
			failNext = true
			func() {
				defer func() { recover() }()
				m.Call(args)
			}()
			failNext = false
			*rec = wireRec{}
		}
		func() {
			defer func() { pan = recover() }()
			rets = m.Call(args)
		}()
		if sentinelErr.Message != nil || sentinelErr.Status == nil || *sentinelErr.Status != 404 {
			violation("C02/implementation-error-object-modified/"+feat, fmt.Sprintf("the error object the implementation keeps and returns again and again was modified by the library: message %v", sentinelErr.Message), cs)
			sentinelErr = newSentinel()
		}
		if pan != nil {
			violation("C02/client-panic/"+feat, fmt.Sprint(pan), cs)
			continue
		}
		cs["wire"] = fmt.Sprintf("%s %s?%s [%s] -> %d", rec.verb, rec.path, rec.rawQuery, rec.methodHdr, rec.status)
		// C15 on the generated client: the request path is the mounting prefix followed by exactly the resource path of the
		// call (Call.tla ClientWire: resource names with a key after every collection segment that needs one)
		{
			segs := strings.Split(strings.TrimPrefix(rec.path, prefix), "/")
			ok := len(segs) == len(row.Wire.Path)+1 && segs[0] == "" && strings.HasPrefix(rec.path, prefix)
			for i := 0; ok && i < len(row.Wire.Path); i++ {
				ok = row.Wire.Path[i] == "k" || segs[i+1] == row.Wire.Path[i]
			}
			if !ok {
				violation("C15/generated-client/path/"+feat+"/ctx="+fmt.Sprint(row.Cfg.Ctx), fmt.Sprintf("request path %q, the resource path of the call is %v under prefix %q", rec.path, row.Wire.Path, prefix), cs)
			}
		}
		if rec.status >= 200 && rec.status < 300 {
			// envelopes (C03, last clause): headers and the shape of both bodies, as the protocol table prescribes
			if rec.protoReq != "2.0.0" || rec.protoResp != "2.0.0" {
				violation("C03/envelope/protocol-version-header/"+row.Method, fmt.Sprintf("X-RestLi-Protocol-Version: request %q, response %q", rec.protoReq, rec.protoResp), cs)
			}
			if rec.override == "" {
				if why := row.Req.conforms(rec.body); why != "" {
					violation("C03/envelope/request/"+row.Method, "request body: "+why, cs)
				}
			}
			if why := row.Resp.conforms(rec.respBody); why != "" {
				violation("C03/envelope/response/"+row.Method, "response body: "+why, cs)
			}
			// batch envelopes: the member names of results / errors are the callers' keys in the REDUCED (header / body) encoding:
			// only the ROR2 delimiters and the percent sign are escaped there, nothing URL-specific
			if strings.HasPrefix(row.Method, "batch_") && row.Method != "batch_create" {
				var sent []string
				for _, a := range args {
					switch {
					case a.Kind() == reflect.Slice && a.Type().Elem().Kind() == reflect.String:
						for i := 0; i < a.Len(); i++ {
							sent = append(sent, a.Index(i).String())
						}
					case a.Kind() == reflect.Map && a.Type().Key().Kind() == reflect.String:
						for _, k := range a.MapKeys() {
							sent = append(sent, k.String())
						}
					}
				}
				if len(sent) > 0 {
					want := map[string]bool{}
					for _, k := range sent {
						want[reducedEscape(k)] = true
					}
					var doc map[string]map[string]any
					if json.Unmarshal([]byte(rec.respBody), &doc) == nil {
						got := map[string]bool{}
						for _, f := range []string{"results", "errors"} {
							for k := range doc[f] {
								got[k] = true
							}
						}
						if fmt.Sprint(got) != fmt.Sprint(want) {
							violation("C03/envelope/batch-keys/"+row.Method, fmt.Sprintf("the response is keyed by %v, the keys in the protocol's reduced encoding are %v", got, want), cs)
						}
					}
				}
			}
			if row.Method == "create" && rec.idHdr == "" {
				violation("C03/envelope/response/create-id-header", "a create was answered without X-RestLi-Id", cs)
			}
			stats["envelopes_checked"]++
		}
		// batch methods that take keys: the keys travel in the reserved `ids` parameter, whatever other parameters the
		// method declares (in the URL, or in the tunnelled body) -- C16
		if rec.verb != "" && (row.Method == "batch_get" || row.Method == "batch_delete" || row.Method == "batch_update" || row.Method == "batch_partial_update") {
			q := rec.rawQuery
			if rec.override != "" {
				q = rec.body
			}
			hasIds := false
			for _, kv := range strings.Split(q, "&") {
				if strings.HasPrefix(kv, "ids=") && len(kv) > len("ids=") {
					hasIds = true
				}
			}
			if !hasIds && rec.override == "" {
				violation("C16/ids-not-transmitted/"+feat, fmt.Sprintf("the request of a %s carries no ids parameter: %s?%s", row.Method, rec.path, rec.rawQuery), cs)
			}
		}
		var callErr error
		if e := rets[len(rets)-1]; !e.IsNil() {
			callErr = e.Interface().(error)
		}
		if callErr != nil {
			kind := "error"
			if rec.status == 404 {
				kind = "404"
			} else if rec.status == 400 {
				kind = "400"
			}
			violation("C02/call-failed/"+kind+"/"+feat+"/text="+fmt.Sprint(row.Cfg.Text)+"/mount="+row.Cfg.Mount, fmt.Sprintf("the call failed: %v (wire: %v)", callErr, cs["wire"]), cs)
			// C05 through the GENERATED registration: Call.tla routes this wire request to the called method on the VT tree;
			// with plain argument content (nothing that could fail to decode) a 4xx without any resource method having
			// run means the generated RegisterResource did not build the tree the schema describes
			if (rec.status == 400 || rec.status == 404) && len(got) == 0 && row.Cfg.Text == 1 {
				violation("C05/generated-registration/not-routed/"+feat+"/mount="+row.Cfg.Mount, fmt.Sprintf("%s %s (method header %q) was answered %d and no resource method ran; the protocol table routes it to %s", rec.verb, rec.path, rec.methodHdr, rec.status, gm), cs)
			}
			continue
		}
		if len(got) != 1 || got[0].method != gm {
			var names []string
			for _, g := range got {
				names = append(names, g.method)
			}
			violation("C02/wrong-method/"+feat, fmt.Sprintf("resource methods invoked: %v, expected exactly %s", names, gm), cs)
			violation("C05/generated-registration/wrong-method/"+feat, fmt.Sprintf("resource methods invoked: %v, the protocol table routes the request to exactly %s", names, gm), cs)
			continue
		}
		// arguments
		if len(got[0].args) != len(args) {
			violation("C02/arg-count/"+feat, "argument count differs", cs)
			continue
		}
		bad := false
		for i := range args {
			ai, gi := args[i], got[0].args[i]
			if strings.HasPrefix(gm, "Batch") && ai.Kind() == reflect.Slice && ai.Len() == gi.Len() && strings.HasSuffix(gm, "Get") || strings.HasSuffix(gm, "BatchDelete") {
				// the ids of a batch request are a set: compare irrespective of order
				ai, gi = sortedCopy(ai), sortedCopy(gi)
			}
			if d := same(ai, gi, fmt.Sprintf("arg%d", i)); d != "" {
				violation("C02/argument-altered/"+feat+"/text="+fmt.Sprint(row.Cfg.Text), "the resource received something else than the caller passed: "+d, cs)
				bad = true
				break
			}
		}
		if bad {
			continue
		}
		// results
		for i := 0; i < len(rets)-1; i++ {
			if d := same(got[0].ret[i], rets[i], fmt.Sprintf("result%d", i)); d != "" {
				violation("C02/result-altered/"+feat+"/text="+fmt.Sprint(row.Cfg.Text), "the client returned something else than the resource returned: "+d, cs)
				bad = true
			}
		}
		if bad {
			continue
		}
		// batch: results filed under the caller's ORIGINAL keys (identity for pointer keys) -- C16
		if strings.HasPrefix(gm, "Batch") && len(rets) == 2 && rets[0].Kind() == reflect.Ptr && !rets[0].IsNil() {
			if d := originalKeys(args, rets[0]); d != "" {
				violation("C16/not-original-key/"+feat, d, cs)
				// ... which also means that the caller cannot find what the implementation returned for ITS keys
				violation("C02/batch-results-not-under-callers-keys/"+feat, d, cs)
			}
		}
		// wire against the specification's row
		tunnelled := rec.override != ""
		verb := rec.verb
		if tunnelled {
			verb = rec.override
		}
		if verb != row.Wire.Verb || rec.methodHdr != row.Wire.Hdr {
			violation("C02/wire/verb-or-method/"+feat, fmt.Sprintf("wire verb %s method header %q, specified %s %q", verb, rec.methodHdr, row.Wire.Verb, row.Wire.Hdr), cs)
		}
		segs := strings.Split(strings.TrimPrefix(strings.TrimPrefix(rec.path, prefix), "/"), "/")
		if len(segs) != len(row.Wire.Path) {
			violation("C02/wire/path-shape/"+feat, fmt.Sprintf("wire path %q has %d segments, specified shape %v", rec.path, len(segs), row.Wire.Path), cs)
		}
		wantStatus := row.Status
		if row.Method == "create" && batchMode == 2 {
			wantStatus = 202 // the implementation overrode it (scripted)
		}
		if rec.status != wantStatus && !(row.Method == "partial_update" && rec.status == 200) {
			violation("C02/wire/status/"+feat, fmt.Sprintf("status %d, expected %d (the protocol's default for %s, or what the implementation set)", rec.status, wantStatus, row.Method), cs)
		}
		if rec.errHdr {
			violation("C02/wire/error-header-on-success/"+feat, "a successful call carries the error header", cs)
		}
		wantTunnel := row.Cfg.Threshold > 0 && lenQuery(rec, tunnelled) > row.Cfg.Threshold
		if tunnelled != wantTunnel {
			violation("C02/wire/tunnelling/"+feat, fmt.Sprintf("tunnelled=%v with threshold %d", tunnelled, row.Cfg.Threshold), cs)
		}
		stats["verified"]++
	}
	// ---- C07 wire level
	c07(stats)
	if *c16 != "" {
		runC16(*c16, stats)
	}
	keys := []string{}
	for k := range vcount {
		keys = append(keys, k)
	}
	sort.Strings(keys)
	b, _ := json.Marshal(map[string]any{"kind": "stats", "stats": stats, "violation_counts": vcount})
	out.Write(b)
	out.WriteByte('\n')
}

func lenQuery(rec *wireRec, tunnelled bool) int {
	if !tunnelled {
		return len(rec.rawQuery)
	}
	if strings.HasPrefix(rec.ctype, "application/x-www-form-urlencoded") {
		return len(rec.body)
	}
	// multipart: the form part
	i := strings.Index(rec.body, "application/x-www-form-urlencoded\r\n\r\n")
	if i < 0 {
		return -1
	}
	rest := rec.body[i+len("application/x-www-form-urlencoded\r\n\r\n"):]
	return strings.Index(rest, "\r\n--")
}

// batchMode selects what a batch implementation reports: 0 = results and errors alternate, 1 = every key succeeds,
// 2 = every key fails (no result at all)
var batchMode int

// the error object an implementation keeps in a package-level variable and returns whenever a key does not exist (no
// message): as the error of a whole method and as the per-key error of batch methods
func newSentinel() *common.ErrorResponse {
	st := int32(404)
	return &common.ErrorResponse{Status: &st}
}

var sentinelErr = newSentinel()
var failNext bool

// scripted builds what the mock resource returns; batch responses are keyed by the keys the resource RECEIVED
func scripted(g *gen, t reflect.Type, args []reflect.Value) reflect.Value {
	if t.Kind() == reflect.Ptr && strings.HasPrefix(t.Elem().Name(), "BatchResponse[") {
		br := reflect.New(t.Elem())
		var keys []reflect.Value
		for _, a := range args {
			switch a.Kind() {
			case reflect.Slice:
				for i := 0; i < a.Len(); i++ {
					keys = append(keys, a.Index(i))
				}
			case reflect.Map:
				keys = append(keys, a.MapKeys()...)
			}
		}
		results := br.Elem().FieldByName("Results")
		errs := br.Elem().FieldByName("Errors")
		results.Set(reflect.MakeMap(results.Type()))
		errs.Set(reflect.MakeMap(errs.Type()))
		for i, k := range keys {
			if (batchMode == 0 && i%2 == 0) || batchMode == 1 {
				results.SetMapIndex(k, g.value(results.Type().Elem(), ""))
			} else {
				if batchMode == 2 {
					errs.SetMapIndex(k, reflect.ValueOf(sentinelErr)) // one shared object, no message
					continue
				}
				st := int32(404)
				msg := "no such key"
				errs.SetMapIndex(k, reflect.ValueOf(&common.ErrorResponse{Status: &st, Message: &msg}))
			}
		}
		return br
	}
	v := g.value(t, "")
	// created entities: let the server apply the default status
	var zero func(v reflect.Value)
	zero = func(v reflect.Value) {
		switch v.Kind() {
		case reflect.Ptr:
			if !v.IsNil() {
				zero(v.Elem())
			}
		case reflect.Slice:
			for i := 0; i < v.Len(); i++ {
				zero(v.Index(i))
			}
		case reflect.Struct:
			if f := v.FieldByName("Status"); f.IsValid() && f.Kind() == reflect.Int && strings.Contains(v.Type().Name(), "Created") {
				f.SetInt(0)
				if batchMode == 2 {
					f.SetInt(202) // the implementation overrides the default status of a create
				}
			}
			if f := v.FieldByName("CreatedEntity"); f.IsValid() {
				zero(f)
			}
		}
	}
	zero(v)
	// collection results: in one mode out of three the implementation returns no paging information at all (elements and,
	// for finders with metadata, the metadata must still arrive)
	if batchMode == 2 {
		if e := v; e.Kind() == reflect.Ptr && !e.IsNil() && e.Elem().Kind() == reflect.Struct {
			if f := e.Elem().FieldByName("Paging"); f.IsValid() && f.Kind() == reflect.Ptr && f.CanSet() {
				f.Set(reflect.Zero(f.Type()))
			}
		}
	}
	return v
}

// originalKeys: every key of the client's batch result maps must be one of the key VALUES the caller supplied
// (pointer identity for complex keys)
func originalKeys(args []reflect.Value, res reflect.Value) string {
	var orig []reflect.Value
	for _, a := range args {
		switch a.Kind() {
		case reflect.Slice:
			for i := 0; i < a.Len(); i++ {
				orig = append(orig, a.Index(i))
			}
		case reflect.Map:
			orig = append(orig, a.MapKeys()...)
		}
	}
	seen := map[any]int{}
	for _, field := range []string{"Results", "Errors", "Statuses"} {
		m := res.Elem().FieldByName(field)
		if !m.IsValid() {
			continue
		}
		for _, k := range m.MapKeys() {
			found := false
			for _, o := range orig {
				if k.Interface() == o.Interface() { // == on pointers is identity, on primitives equality
					found = true
				}
			}
			if !found {
				return fmt.Sprintf("%s is keyed by %s, which is not one of the caller's own key values", field, show(k))
			}
			seen[k.Interface()]++
		}
	}
	if len(seen) != len(orig) {
		return fmt.Sprintf("%d keys supplied, %d distinct keys in the response maps", len(orig), len(seen))
	}
	return ""
}
