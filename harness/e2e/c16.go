package main

import (
	"bufio"
	"encoding/json"
	"fmt"
	"io"
	"net/http"
	"net/url"
	"os"
	"sort"
	"strconv"
	"strings"

	"verifharness/gen/vt"
	collck "verifharness/gen/vt/collCK"
	collstr "verifharness/gen/vt/collStr"

	"github.com/PapaCharlie/go-restli/v2/fnv1a"
	"github.com/PapaCharlie/go-restli/v2/restli"
	"github.com/PapaCharlie/go-restli/v2/restli/batchkeyset"
	"github.com/PapaCharlie/go-restli/v2/restlicodec"
)

// C16: batch correlation.  Every behaviour of Batch.tla (caller's key list, adversarial reply, how entries must be
// filed) exported by TLC is replayed: through the generated collCK client (complex keys with params), the generated
// collStr client (string keys whose contents differ only in escaping-relevant characters), and the key set itself with
// a key type whose hash collides as the model's HashOf does.

type wireKey struct {
	Part   string `json:"part"`
	Params string `json:"params"`
	Alt    bool   `json:"alt"`
}

type c16Row struct {
	Requested []struct {
		Part   string `json:"part"`
		Params string `json:"params"`
	} `json:"requested"`
	Failed  bool                 `json:"failed"`
	Replied bool                 `json:"replied"`
	Reply   map[string][]wireKey `json:"reply"`
	Filed   map[string][]struct {
		Idx  int     `json:"idx"`
		Wire wireKey `json:"wire"`
	} `json:"filed"`
}

// key parts whose contents differ only in escaping-relevant characters
var plainText = map[string]string{"p1": "a,b", "p2": "a%2Cb", "p3": "a+b (:)'"} // p3: a plus and a space -- the ids parameter is a QUERY string
var partText = plainText

// two key parts (same n) whose generated ComputeComplexKeyHash values are equal, found by search
var boundaryText = map[string]string{"p1": "", "p2": "''", "p3": "x"}
var strictNow = true
var rowN int

var collidingText = map[string]string{"p3": "a+b (:)'"}
var collidingFound = func() bool {
	seen := map[any]string{}
	for i := 0; i < 2000000; i++ {
		id := "k" + strconv.Itoa(i)
		h := (&vt.CK{KeyPart: vt.KeyPart{Id: id, N: 1}}).ComputeComplexKeyHash().MapKey()
		if other, ok := seen[h]; ok {
			collidingText["p1"], collidingText["p2"] = other, id
			return true
		}
		seen[h] = id
	}
	return false
}()
var partNum = map[string]int64{"p1": 1, "p2": 1, "p3": -7}

func refEscape(s string, alt bool) string {
	var sb strings.Builder
	if s == "" {
		return "''"
	}
	for i := 0; i < len(s); i++ {
		c := s[i]
		switch {
		case strings.IndexByte("%,()':", c) >= 0, alt && ((c >= 'a' && c <= 'z') || c == ' '):
			fmt.Fprintf(&sb, "%%%02X", c)
		default:
			sb.WriteByte(c)
		}
	}
	return sb.String()
}

func encodeCK(w wireKey) string {
	s := "("
	if w.Params != "none" {
		s += "$params:(p:" + refEscape(w.Params, w.Alt) + "),"
	}
	return s + "id:" + refEscape(partText[w.Part], w.Alt) + ",n:" + fmt.Sprint(partNum[w.Part]) + ")"
}

type cannedTransport struct {
	body     string
	called   int
	rawQuery string
}

func (t *cannedTransport) RoundTrip(req *http.Request) (*http.Response, error) {
	t.called++
	t.rawQuery = req.URL.RawQuery
	h := http.Header{"X-Restli-Protocol-Version": {"2.0.0"}, "Content-Type": {"application/json"}}
	return &http.Response{StatusCode: 200, Status: "200 OK", Header: h, Body: io.NopCloser(strings.NewReader(t.body)), Request: req, ProtoMajor: 1, ProtoMinor: 1}, nil
}

// hk: a complex-key-like type whose hash collides exactly as the model's HashOf (p1 and p2 share a bucket)
type hk struct {
	part, params string
}

func (k *hk) ComputeComplexKeyHash() fnv1a.Hash {
	if k.part == "p3" {
		return fnv1a.HashString("bucket2")
	}
	return fnv1a.HashString("bucket1")
}
func (k *hk) ComplexKeyEquals(o *hk) bool { return k.part == o.part }
func (k *hk) MarshalRestLi(w restlicodec.Writer) error {
	return w.WriteMap(func(kw func(string) restlicodec.Writer) error {
		kw("id").WriteString(partText[k.part])
		return nil
	})
}

func replyJSON(row *c16Row, enc func(wireKey) string, code func(field string, w wireKey) int) string {
	doc := map[string]any{}
	for field, ws := range row.Reply {
		m := map[string]any{}
		for _, w := range ws {
			switch field {
			case "results":
				m[enc(w)] = map[string]any{"a": code(field, w)}
			case "errors":
				m[enc(w)] = map[string]any{"status": code(field, w), "message": "m"}
			case "statuses":
				m[enc(w)] = code(field, w)
			}
		}
		doc[field] = m
	}
	b, _ := json.Marshal(doc)
	return string(b)
}

func wireCode(field string, w wireKey) int {
	c := 0
	switch w.Part {
	case "p1":
		c = 100
	case "p2":
		c = 200
	case "p3":
		c = 300
	}
	if w.Params != "none" {
		c += 10
	}
	if w.Alt {
		c += 1
	}
	return c + 400
}

func runC16(file string, stats map[string]int) {
	f, err := os.Open(file)
	if err != nil {
		panic(err)
	}
	sc := bufio.NewScanner(f)
	sc.Buffer(make([]byte, 1<<20), 1<<26)
	bu, _ := url.Parse("http://host.example")
	for sc.Scan() {
		var row c16Row
		rowN++
		if err := json.Unmarshal(sc.Bytes(), &row); err != nil {
			panic(err)
		}
		stats["c16_behaviours"]++
		cs := map[string]any{"requested": row.Requested, "reply": row.Reply, "model_failed": row.Failed}
		// ---- (1) the key set itself, colliding hashes
		{
			set := batchkeyset.NewComplexKeySet[*hk]()
			origs := make([]*hk, len(row.Requested))
			var addErr error
			for i, k := range row.Requested {
				origs[i] = &hk{k.Part, k.Params}
				if err := set.AddKey(origs[i]); err != nil {
					addErr = err
					break
				}
			}
			dup := row.Failed && !row.Replied
			if (addErr != nil) != dup {
				violation("C16/keyset/duplicate-detection", fmt.Sprintf("AddKey error=%v, the specification says duplicate=%v", addErr, dup), cs)
			}
			if addErr == nil {
				for i, k := range row.Requested {
					for _, otherParams := range []string{"none", "x", "zz"} {
						got, found := set.LocateOriginalKey(&hk{k.Part, otherParams})
						if !found || got != origs[i] {
							violation("C16/keyset/locate-original", fmt.Sprintf("LocateOriginalKey(part %s, params %s) returned %v (found %v), expected the caller's own key #%d", k.Part, otherParams, got, found, i), cs)
						}
					}
				}
				for _, p := range []string{"p1", "p2", "p3"} {
					requested := false
					for _, k := range row.Requested {
						if k.Part == p {
							requested = true
						}
					}
					if _, found := set.LocateOriginalKey(&hk{p, "none"}); found != requested {
						violation("C16/keyset/locate-unknown", fmt.Sprintf("LocateOriginalKey(%s) found=%v, requested=%v", p, found, requested), cs)
					}
				}
			}
		}
		// ---- (2) generated clients
		type runner struct {
			name string
			run  func(tr *cannedTransport) (results, errs map[any]int, statuses map[any]int, keys []any, err error)
			enc  func(wireKey) string
		}
		rc := func(tr *cannedTransport) *restli.Client {
			return &restli.Client{Client: &http.Client{Transport: tr}, HostnameResolver: &restli.SimpleHostnameResolver{Hostname: bu}, StrictResponseDeserialization: strictNow}
		}
		runners := []runner{
			{"collCK", func(tr *cannedTransport) (map[any]int, map[any]int, map[any]int, []any, error) {
				var keys []*vt.CK
				var ids []any
				for _, k := range row.Requested {
					ck := &vt.CK{KeyPart: vt.KeyPart{Id: partText[k.Part], N: partNum[k.Part]}}
					if k.Params != "none" {
						ck.Params = &vt.KeyParams{P: k.Params}
					}
					keys = append(keys, ck)
					ids = append(ids, ck)
				}
				res, err := collck.NewClient(rc(tr)).BatchGet(keys)
				if err != nil {
					return nil, nil, nil, ids, err
				}
				r, e, s := map[any]int{}, map[any]int{}, map[any]int{}
				for k, v := range res.Results {
					r[k] = int(v.A)
				}
				for k, v := range res.Errors {
					e[k] = int(*v.Status)
				}
				for k, v := range res.Statuses {
					s[k] = v
				}
				return r, e, s, ids, nil
			}, encodeCK},
			// the same keys supplied as the keys of an entity map (batch_update): AddAllMapKeys instead of AddAllKeys
			{"collCK-map", func(tr *cannedTransport) (map[any]int, map[any]int, map[any]int, []any, error) {
				ents := map[*vt.CK]*vt.Leaf{}
				var ids []any
				for _, k := range row.Requested {
					ck := &vt.CK{KeyPart: vt.KeyPart{Id: partText[k.Part], N: partNum[k.Part]}}
					if k.Params != "none" {
						ck.Params = &vt.KeyParams{P: k.Params}
					}
					ents[ck] = &vt.Leaf{A: 1}
					ids = append(ids, ck)
				}
				res, err := collck.NewClient(rc(tr)).BatchUpdate(ents)
				if err != nil {
					return nil, nil, nil, ids, err
				}
				r, e, s := map[any]int{}, map[any]int{}, map[any]int{}
				for k, v := range res.Results {
					r[k] = v.Status
				}
				for k, v := range res.Errors {
					e[k] = int(*v.Status)
				}
				for k, v := range res.Statuses {
					s[k] = v
				}
				return r, e, s, ids, nil
			}, encodeCK},
			{"collStr", func(tr *cannedTransport) (map[any]int, map[any]int, map[any]int, []any, error) {
				var keys []string
				var ids []any
				for _, k := range row.Requested {
					keys = append(keys, partText[k.Part])
					ids = append(ids, partText[k.Part])
				}
				res, err := collstr.NewClient(rc(tr)).BatchDelete(keys)
				if err != nil {
					return nil, nil, nil, ids, err
				}
				r, e, s := map[any]int{}, map[any]int{}, map[any]int{}
				for k, v := range res.Results {
					r[k] = v.Status
				}
				for k, v := range res.Errors {
					e[k] = int(*v.Status)
				}
				for k, v := range res.Statuses {
					s[k] = v
				}
				return r, e, s, ids, nil
			}, func(w wireKey) string { return refEscape(partText[w.Part], w.Alt) }},
		}
		for pass := 0; pass < 3; pass++ {
			if pass == 2 {
				// and with the two boundary texts that the ROR2 empty-string sentinel could confuse: the empty string and
				// the string of two apostrophes
				partText = boundaryText
			}
			if pass == 1 {
				// once more with key parts whose GENERATED hashes really collide (p1 and p2 share a hash bucket in the
				// generated key set): equality, not the hash, must tell them apart
				if !collidingFound {
					break
				}
				partText = collidingText
			}
			for _, rn := range runners {
				label := rn.name
				if pass == 1 {
					if rn.name == "collStr" {
						continue
					}
					label += "-colliding-hashes"
				}
				if pass == 2 {
					label += "-empty-and-quotes"
				}
				strictNow = (rowN+pass)%2 == 0 // lenient and strict clients alternate: correlation errors are not decoding leniency
				// string keys have no params: behaviours that differ only in params collapse; skip those whose
				// requested list would contain equal strings only through params
				tr := &cannedTransport{}
				if rn.name == "collCK-map" {
					tr.body = strings.ReplaceAll(replyJSON(&row, rn.enc, wireCode), `{"a":`, `{"status":`)
				} else if rn.name == "collStr" {
					tr.body = strings.ReplaceAll(replyJSON(&row, rn.enc, wireCode), `{"a":`, `{"status":`)
					collapsed := false
					for _, ws := range row.Reply {
						seen := map[string]bool{}
						for _, w := range ws {
							k := rn.enc(w)
							if seen[k] {
								collapsed = true
							}
							seen[k] = true
						}
					}
					if collapsed {
						continue
					}
				} else {
					tr.body = replyJSON(&row, rn.enc, wireCode)
				}
				results, errs, statuses, ids, err := rn.run(tr)
				stats["c16_calls"]++
				rcs := map[string]any{"client": rn.name, "requested": row.Requested, "reply_body": tr.body, "ids_param": tr.rawQuery, "error": fmt.Sprint(err)}
				dup := row.Failed && !row.Replied
				if dup {
					if err == nil || tr.called > 0 {
						violation("C16/"+label+"/duplicate-not-rejected-before-sending", fmt.Sprintf("duplicate keys: error=%v, requests sent=%d", err, tr.called), rcs)
					}
					continue
				}
				if !row.Replied {
					continue
				}
				// each id transmitted exactly once
				q, _ := url.QueryUnescape(tr.rawQuery)
				for _, k := range row.Requested {
					var enc string
					if rn.name == "collCK" {
						enc = "id:" + partText[k.Part]
					} else {
						enc = partText[k.Part]
					}
					if n := strings.Count(q, enc); n != 1 && rn.name != "collStr" && pass != 2 {
						violation("C16/"+label+"/id-not-sent-once", fmt.Sprintf("key part %q occurs %d times in the ids parameter %q", partText[k.Part], n, q), rcs)
					}
				}
				if row.Failed {
					if err == nil {
						violation("C16/"+label+"/unknown-key-accepted", "the reply mentions a key that was never requested but the call succeeded", rcs)
					}
					continue
				}
				if err != nil {
					violation("C16/"+label+"/conforming-reply-rejected", "the call failed although every key of the reply was requested: "+err.Error(), rcs)
					continue
				}
				got := map[string]map[any]int{"results": results, "errors": errs, "statuses": statuses}
				for field, entries := range row.Filed {
					if len(got[field]) != len(entries) {
						violation("C16/"+label+"/entries-lost-or-duplicated/"+field, fmt.Sprintf("%d entries in %s, the reply had %d", len(got[field]), field, len(entries)), rcs)
						continue
					}
					for _, e := range entries {
						orig := ids[e.Idx-1]
						v, ok := got[field][orig] // pointer identity for complex keys
						if !ok {
							var have []string
							for k := range got[field] {
								have = append(have, fmt.Sprintf("%p", k))
							}
							sort.Strings(have)
							violation("C16/"+label+"/not-filed-under-original-key/"+field, fmt.Sprintf("entry for key part %s is not filed under the caller's own key value #%d", e.Wire.Part, e.Idx), rcs)
							continue
						}
						if v != wireCode(field, e.Wire) {
							violation("C16/"+label+"/entry-attached-to-wrong-key/"+field, fmt.Sprintf("the caller's key #%d holds entry %d, expected %d", e.Idx, v, wireCode(field, e.Wire)), rcs)
						}
					}
				}
			}
		}
		partText = plainText
	}
}
