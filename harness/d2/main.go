// Harness for C19 (D2 announcement tracking and host selection).
//
//	replay  : histories exported by TLC from D2.tla (with the snapshot and eligible sets expected after every prefix)
//	          are delivered to the real client through the verif export file; after every event the current snapshot
//	          and EVERY snapshot captured earlier are compared with the model's objects, and resolution is exercised
//	          with scripted random draws for each prioritized-scheme list.
//	record  : seeded random histories with richer data than the model pool (more nodes, hosts, weights, payload
//	          variants) are driven through the client; events and observations are logged as ndjson for Trace_D2.tla.
//	freq    : frequency test of weighted selection.
package main

import (
	"bufio"
	"encoding/json"
	"flag"
	"fmt"
	"math"
	"math/rand"
	"os"
	"sort"
	"strings"

	"github.com/PapaCharlie/go-restli/v2/d2"
)

type Host struct {
	U string `json:"u"`
	S string `json:"s"`
	W int    `json:"w"`
}

type Ev struct {
	Kind string          `json:"kind"`
	Node string          `json:"node"`
	Ann  json.RawMessage `json:"ann"`
}

type Row struct {
	History  []Ev              `json:"history"`
	States   []json.RawMessage `json:"states"`
	Eligible [][][]string      `json:"eligible"`
}

var schemeLists = [][]string{{}, {"https"}, {"https", "http"}, {"http"}}

// scripted random source: Float64() of math/rand uses Int63() & (1<<53 - 1), so the values below select the draw
type scripted struct {
	vals []int64
	i    int
}

func (s *scripted) Int63() int64 {
	v := s.vals[s.i%len(s.vals)]
	s.i++
	return v
}
func (s *scripted) Seed(int64) {}

var draws = []int64{1, 1 << 50, 1 << 51, 1 << 52, 3 << 51, (1 << 53) - 1, (1 << 53) - 2, 12345678901234}

var out *bufio.Writer

func emit(v any) {
	b, _ := json.Marshal(v)
	out.Write(b)
	out.WriteByte('\n')
}

func violation(key, what string, c any) {
	emit(map[string]any{"kind": "violation", "key": key, "what": what, "case": c})
}

func parseAnn(raw json.RawMessage) []Host {
	var hs []Host
	if len(raw) == 0 {
		return nil
	}
	json.Unmarshal(raw, &hs)
	return hs
}

func parseState(raw json.RawMessage) map[string][]Host {
	m := map[string][]Host{}
	if len(raw) > 0 && raw[0] == '{' {
		json.Unmarshal(raw, &m)
	}
	return m
}

func annPayload(hs []Host) []byte {
	w := map[string]float64{}
	for _, h := range hs {
		w[h.U] = float64(h.W)
	}
	b, _ := json.Marshal(map[string]any{"weights": w, "clusterName": "C"})
	return b
}

// "no priorities configured" has three spellings in a service definition: the member is absent, null, or an empty list
var noPriorityForm int

func servicePayload(schemes []string) []byte {
	m := map[string]any{"serviceName": "S", "clusterName": "C"}
	if len(schemes) == 0 {
		noPriorityForm++
		switch noPriorityForm % 3 {
		case 0: // absent
		case 1:
			m["prioritizedSchemes"] = nil
		case 2:
			m["prioritizedSchemes"] = []string{}
		}
	} else {
		m["prioritizedSchemes"] = schemes
	}
	b, _ := json.Marshal(m)
	return b
}

// malformed announcements: broken JSON text, and well-formed JSON text that is not an announcement (a member of the wrong
// JSON type next to decodable host weights): all of them are ignored as a whole
var malformed = [][]byte{[]byte(`{"weights": `), []byte(`not json`), []byte(`{"weights":{"http://[::1":1}}`), []byte(`[]`), []byte(``),
	[]byte(`{"weights":{"https://h8:443":1,"https://h9:443":"1"}}`), []byte(`{"clusterName":5,"weights":{"https://h9:443":1}}`),
	[]byte(`{"weights":{"https://h9:443":2},"uriSpecificProperties":{"https://h9:443":{"com.linkedin.app.name":7}}}`),
	[]byte(`{"weights":{"https://h9:443":2},"partitionDesc":{"https://h9:443":{"0":{"weight":"1"}}}}`)}
var weightless = [][]byte{[]byte(`{}`), []byte(`{"weights":{}}`),
	[]byte(`{"weights":{},"partitionDesc":{"http://h9:1":{"0":{"weight":1}}}}`), []byte(`{"clusterName":"C"}`)}

func deliver(h *d2.VerifHarness, e Ev, variant int) {
	switch e.Kind {
	case "set":
		p := annPayload(parseAnn(e.Ann))
		h.UriEvent(e.Node, &p)
	case "delete":
		h.UriEvent(e.Node, nil)
	case "malformed":
		p := malformed[variant%len(malformed)]
		h.UriEvent(e.Node, &p)
	case "weightless":
		p := weightless[variant%len(weightless)]
		h.UriEvent(e.Node, &p)
	case "root":
		if variant%2 == 0 {
			h.UriEvent("", nil)
		} else {
			p := []byte(`{"weights":{"http://x:1":1}}`)
			h.UriEvent("", &p)
		}
	}
}

func dump(s *d2.VerifSnapshot) map[string][]Host {
	m := map[string][]Host{}
	for node, ws := range s.Dump() {
		hs := []Host{}
		for u, w := range ws {
			sch := u[:strings.Index(u, ":")]
			hs = append(hs, Host{U: u, S: sch, W: int(w)})
		}
		sort.Slice(hs, func(i, j int) bool { return hs[i].U < hs[j].U })
		m[strings.TrimPrefix(node, "/")] = hs
	}
	return m
}

func sameState(a, b map[string][]Host) bool {
	if len(a) != len(b) {
		return false
	}
	for k, x := range a {
		y, ok := b[k]
		if !ok || len(x) != len(y) {
			return false
		}
		x2 := append([]Host{}, x...)
		y2 := append([]Host{}, y...)
		sort.Slice(x2, func(i, j int) bool { return x2[i].U < x2[j].U })
		sort.Slice(y2, func(i, j int) bool { return y2[i].U < y2[j].U })
		for i := range x2 {
			if x2[i] != y2[i] {
				return false
			}
		}
	}
	return true
}

func contains(xs []string, x string) bool {
	for _, y := range xs {
		if y == x {
			return true
		}
	}
	return false
}

type stats struct {
	Rows, Events, SnapshotCompares, StaleCompares, Resolutions int
}

func replay(path string, seed int64) {
	f, err := os.Open(path)
	if err != nil {
		panic(err)
	}
	sc := bufio.NewScanner(f)
	sc.Buffer(make([]byte, 1<<20), 1<<26)
	var st stats
	src := &scripted{vals: draws}
	d2.VerifSetRandSource(src)
	rowN := 0
	for sc.Scan() {
		var row Row
		if err := json.Unmarshal(sc.Bytes(), &row); err != nil {
			panic(err)
		}
		rowN++
		st.Rows++
		h := d2.NewVerifHarness("S", "C")
		sp := servicePayload(nil)
		h.ServiceEvent(&sp)
		type held struct {
			s      *d2.VerifSnapshot
			expect map[string][]Host
			at     int
		}
		var handed []held
		handed = append(handed, held{h.Snapshot(), map[string][]Host{}, 0})
		for i, e := range row.History {
			deliver(h, e, int(seed)+rowN+i)
			st.Events++
			want := parseState(row.States[i])
			snap := h.Snapshot()
			got := dump(snap)
			st.SnapshotCompares++
			if !sameState(got, want) {
				violation("C19/fold/"+e.Kind, fmt.Sprintf("after event %d (%s %s) the announced URIs are %v, the fold of the history is %v", i+1, e.Kind, e.Node, got, want),
					map[string]any{"history": row.History[:i+1], "got": got, "want": want})
			}
			// every snapshot handed out earlier must still be what it was
			for _, old := range handed {
				st.StaleCompares++
				if now := dump(old.s); !sameState(now, old.expect) {
					violation("C19/stale-snapshot-modified/"+e.Kind, fmt.Sprintf("snapshot handed out after event %d changed after event %d (%s %s): was %v, now %v", old.at, i+1, e.Kind, e.Node, old.expect, now),
						map[string]any{"history": row.History[:i+1], "captured_after": old.at})
				}
			}
			handed = append(handed, held{snap, want, i + 1})
			// resolution under every prioritized-scheme list, scripted draws
			for sl, schemes := range schemeLists {
				sp := servicePayload(schemes)
				h.ServiceEvent(&sp)
				elig := row.Eligible[i][sl]
				for k := 0; k < 3; k++ {
					st.Resolutions++
					u, err := h.Resolve()
					checkResolve(u == nil, err, func() string { return u.String() }, elig, schemes, got, row.History[:i+1])
				}
				u := snap.Choose(schemes)
				st.Resolutions++
				checkResolve(u == nil, nil, func() string { return u.String() }, elig, schemes, got, row.History[:i+1])
			}
		}
	}
	emit(map[string]any{"kind": "stats", "mode": "replay", "stats": st})
}

func checkResolve(isNil bool, err error, str func() string, elig []string, schemes []string, state any, hist any) {
	c := map[string]any{"history": hist, "schemes": schemes, "state": state, "eligible": elig}
	if len(elig) == 0 {
		if !isNil && err == nil {
			violation("C19/resolve/host-when-none-eligible", "resolution returned "+str()+" although no host is eligible", c)
		}
		return
	}
	if isNil || err != nil {
		violation("C19/resolve/error-when-eligible", fmt.Sprintf("resolution failed (%v) although hosts %v are eligible", err, elig), c)
		return
	}
	if !contains(elig, str()) {
		violation("C19/resolve/ineligible-host", fmt.Sprintf("resolution returned %s, eligible are %v (schemes %v)", str(), elig, schemes), c)
	}
}

// record: random histories with rich data, logged for trace validation
func record(path string, seed int64, n, length int) {
	rng := rand.New(rand.NewSource(seed))
	d2.VerifSetRandSource(rand.NewSource(seed + 1))
	f, _ := os.Create(path)
	w := bufio.NewWriterSize(f, 1<<20)
	enc := json.NewEncoder(w)
	nodes := []string{"n1", "n2", "n3", "n4", "n5", "host-6.example", "n7"}
	hostnames := []string{"h1", "h2", "h3", "h4", "h5"}
	schemesAll := []string{"https", "http", "ftp"}
	type held struct {
		s   *d2.VerifSnapshot
		idx int
	}
	for t := 0; t < n; t++ {
		enc.Encode(map[string]any{"ev": "reset", "t": t})
		h := d2.NewVerifHarness("S", "C")
		sp := servicePayload(nil)
		h.ServiceEvent(&sp)
		handed := []held{{h.Snapshot(), 1}}
		heapN := 1
		for i := 0; i < length; i++ {
			switch r := rng.Intn(10); {
			case r < 6: // uri event
				node := nodes[rng.Intn(len(nodes))]
				kinds := []string{"set", "set", "set", "delete", "malformed", "weightless", "root"}
				kind := kinds[rng.Intn(len(kinds))]
				e := Ev{Kind: kind, Node: node}
				var hs []Host
				if kind == "set" {
					seen := map[string]bool{}
					for j := 0; j <= rng.Intn(3); j++ {
						s := schemesAll[rng.Intn(len(schemesAll))]
						u := fmt.Sprintf("%s://%s:%d", s, hostnames[rng.Intn(len(hostnames))], 80+rng.Intn(3))
						if seen[u] {
							continue
						}
						seen[u] = true
						wts := []int{0, 0, 1, 2, 5, 100}
						hs = append(hs, Host{U: u, S: s, W: wts[rng.Intn(len(wts))]})
					}
					sort.Slice(hs, func(a, b int) bool { return hs[a].U < hs[b].U })
					e.Ann, _ = json.Marshal(hs)
				}
				if kind == "root" {
					e.Node = ""
				}
				deliver(h, e, rng.Intn(100))
				snap := h.Snapshot()
				if kind == "set" || kind == "delete" {
					heapN++
					handed = append(handed, held{snap, heapN})
				}
				if hs == nil {
					hs = []Host{}
				}
				enc.Encode(map[string]any{"ev": "uri", "kind": kind, "node": e.Node, "ann": hs, "state": stateJson(dump(snap))})
			case r < 7: // service update
				k := rng.Intn(4)
				var sl []string
				for j := 0; j < k; j++ {
					sl = append(sl, schemesAll[rng.Intn(len(schemesAll))])
				}
				sp := servicePayload(sl)
				h.ServiceEvent(&sp)
				if sl == nil {
					sl = []string{}
				}
				enc.Encode(map[string]any{"ev": "service", "schemes": sl})
			case r < 9: // resolve
				u, err := h.Resolve()
				host := ""
				if u != nil {
					host = u.String()
				}
				enc.Encode(map[string]any{"ev": "resolve", "host": host, "err": err != nil})
			default: // inspect a snapshot handed out earlier
				o := handed[rng.Intn(len(handed))]
				enc.Encode(map[string]any{"ev": "inspect", "idx": o.idx, "state": stateJson(dump(o.s))})
			}
		}
	}
	w.Flush()
	f.Close()
	emit(map[string]any{"kind": "stats", "mode": "record", "traces": n, "length": length})
}

// stateJson renders a snapshot as a list of [node, hosts] pairs sorted by node (so TLC reads a sequence)
func stateJson(m map[string][]Host) any {
	keys := make([]string, 0, len(m))
	for k := range m {
		keys = append(keys, k)
	}
	sort.Strings(keys)
	out := []any{}
	for _, k := range keys {
		out = append(out, map[string]any{"n": k, "a": m[k]})
	}
	return out
}

// freq: selection frequencies must be proportional to weights (6 sigma band per host)
func freq(seed int64, draws int) {
	d2.VerifSetRandSource(rand.NewSource(seed))
	sets := [][]struct {
		node string
		hs   []Host
	}{
		{{"n1", []Host{{"http://h1:80", "http", 1}}}, {"n2", []Host{{"http://h2:80", "http", 3}}}},
		{{"n1", []Host{{"http://h1:80", "http", 1}, {"https://h1:443", "https", 1}}}, {"n2", []Host{{"https://h2:443", "https", 99}}}},
		{{"n1", []Host{{"http://h1:80", "http", 2}}}, {"n2", []Host{{"http://h1:80", "http", 3}}}, {"n3", []Host{{"http://h3:80", "http", 5}}}, {"n4", []Host{{"http://h4:80", "http", 0}}}},
		{{"n1", []Host{{"http://h1:80", "http", 0}}}, {"n2", []Host{{"http://h2:80", "http", 0}}}, {"n3", []Host{{"https://h3:443", "https", 7}}}},
	}
	for si, set := range sets {
		for _, schemes := range schemeLists {
			h := d2.NewVerifHarness("S", "C")
			sp := servicePayload(schemes)
			h.ServiceEvent(&sp)
			for _, a := range set {
				p := annPayload(a.hs)
				h.UriEvent(a.node, &p)
			}
			// expected distribution from the declarative definition
			var pool []Host
			pick := func(s string) []Host {
				var r []Host
				for _, a := range set {
					for _, x := range a.hs {
						if s == "" || x.S == s {
							r = append(r, x)
						}
					}
				}
				return r
			}
			if len(schemes) == 0 {
				pool = pick("")
			} else {
				for _, s := range schemes {
					if pool = pick(s); len(pool) > 0 {
						break
					}
				}
			}
			if len(pool) == 0 {
				continue
			}
			total := 0
			wsum := map[string]int{}
			for _, x := range pool {
				total += x.W
				wsum[x.U] += x.W
			}
			counts := map[string]int{}
			for i := 0; i < draws; i++ {
				u, err := h.Resolve()
				if err != nil || u == nil {
					violation("C19/resolve/error-when-eligible", "resolution failed although hosts are eligible", map[string]any{"set": si, "schemes": schemes})
					break
				}
				counts[u.String()]++
			}
			for u, c := range counts {
				if _, ok := wsum[u]; !ok {
					violation("C19/resolve/ineligible-host", fmt.Sprintf("host %s selected, not in the eligible pool", u), map[string]any{"set": si, "schemes": schemes})
				}
				_ = c
			}
			if total > 0 {
				for u, wt := range wsum {
					p := float64(wt) / float64(total)
					sigma := math.Sqrt(float64(draws) * p * (1 - p))
					dev := math.Abs(float64(counts[u]) - float64(draws)*p)
					if wt == 0 && counts[u] > 0 {
						violation("C19/resolve/zero-weight-host", fmt.Sprintf("zero-weight host %s selected %d times while positive-weight hosts are eligible", u, counts[u]), map[string]any{"set": si, "schemes": schemes})
					} else if dev > 6*sigma+1 {
						violation("C19/resolve/not-proportional", fmt.Sprintf("host %s selected %d/%d times, expected fraction %.4f (6 sigma = %.1f)", u, counts[u], draws, p, 6*sigma), map[string]any{"set": si, "schemes": schemes})
					}
				}
			}
			emit(map[string]any{"kind": "sample", "freq": counts, "weights": wsum, "schemes": schemes})
		}
	}
	emit(map[string]any{"kind": "stats", "mode": "freq", "draws": draws})
}

func main() {
	mode := flag.String("mode", "replay", "")
	in := flag.String("in", "", "")
	o := flag.String("out", "", "")
	seed := flag.Int64("seed", 1, "")
	n := flag.Int("n", 100, "")
	length := flag.Int("len", 30, "")
	flag.Parse()
	out = bufio.NewWriterSize(os.Stdout, 1<<20)
	defer out.Flush()
	switch *mode {
	case "replay":
		replay(*in, *seed)
	case "record":
		record(*o, *seed, *n, *length)
	case "freq":
		freq(*seed, *n)
	}
}
