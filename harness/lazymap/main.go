// Schedule controller for d2/lazymap (C18).
//
// The verif build of lazymap calls lazymap.Yield before every atomic step. Here every worker goroutine parks at each
// such gate and a controller releases exactly one goroutine at a time, so the real code is executed under a schedule
// chosen by the controller: one forced by a TLC behaviour (model -> code), one of an exhaustive enumeration, or a
// seeded random one. The history (call / compute / ret events, in execution order) is written as ndjson for TLC to
// validate against the atomic compute-if-absent map (code -> model); the gates reached are compared with the pc the
// model predicts.
package main

import (
	"bufio"
	"encoding/json"
	"flag"
	"fmt"
	"math/rand"
	"os"
	"runtime"
	"sort"
	"strconv"
	"strings"
	"sync"
	"sync/atomic"
	"time"

	"github.com/PapaCharlie/go-restli/v2/d2/lazymap"
)

type Op struct {
	Type string `json:"type"`
	Key  int    `json:"key"`
}

type Expect struct {
	Gates [][2]interface{} `json:"gates"` // per step: [proc, gate reached]
	Hist  []map[string]any `json:"hist"`
	Final []int            `json:"final"`
}

type Run struct {
	Id     string  `json:"id"`
	Prog   [][]Op  `json:"prog"`
	Mode   string  `json:"mode"` // forced | dfs | random | free
	Sched  []int   `json:"sched,omitempty"`
	Count  int     `json:"count,omitempty"` // random/free: number of executions; dfs: budget
	Expect *Expect `json:"expect,omitempty"`
}

type Event map[string]any

type gateMsg struct {
	point string
	key   interface{}
	obj   interface{}
	done  bool // the goroutine finished its program
}

type worker struct {
	p      int
	report chan gateMsg
	resume chan struct{}
}

var registry sync.Map // goroutine id -> *worker

func goid() int64 {
	var buf [64]byte
	n := runtime.Stack(buf[:], false)
	s := strings.TrimPrefix(string(buf[:n]), "goroutine ")
	i := strings.IndexByte(s, ' ')
	id, _ := strconv.ParseInt(s[:i], 10, 64)
	return id
}

func yieldHook(point string, key interface{}, obj interface{}) {
	w, ok := registry.Load(goid())
	if !ok {
		return
	}
	wk := w.(*worker)
	wk.report <- gateMsg{point: point, key: key, obj: obj}
	<-wk.resume
}

type execResult struct {
	Id           string      `json:"id"`
	Mode         string      `json:"mode"`
	Sched        []int       `json:"sched"`
	Gates        []string    `json:"gates"`
	Steps        int         `json:"steps"`
	GateMismatch int         `json:"gate_mismatch"`
	FirstGateMis string      `json:"first_gate_mismatch,omitempty"`
	OutcomeMis   string      `json:"outcome_mismatch,omitempty"`
	Stall        string      `json:"stall,omitempty"`
	Deadlock     bool        `json:"deadlock,omitempty"`
	Computes     map[int]int `json:"computes"`
	Prog         [][]Op      `json:"prog"`
	Options      []int       `json:"-"`
}

const stallTimeout = 3 * time.Second

// execute runs prog on a fresh map under the schedule produced by choose(step, releasable procs) and returns the
// history. choose returns an index into the releasable list.
func execute(run *Run, choose func(step int, rel []int) int, events *[]Event) *execResult {
	res := &execResult{Id: run.Id, Mode: run.Mode, Computes: map[int]int{}, Prog: run.Prog}
	m := new(lazymap.LazySyncMap)
	np := len(run.Prog)
	workers := make([]*worker, np)
	parked := make([]*gateMsg, np) // gate at which each goroutine is parked (nil: running or finished)
	finished := make([]bool, np)
	doneObjs := map[interface{}]bool{}
	var mu sync.Mutex // protects events; only one worker runs at a time, the mutex is for the abandoned ones
	emit := func(e Event) {
		mu.Lock()
		*events = append(*events, e)
		mu.Unlock()
	}
	emit(Event{"ev": "reset", "run": run.Id})
	for p := 0; p < np; p++ {
		w := &worker{p: p, report: make(chan gateMsg, 1), resume: make(chan struct{})}
		workers[p] = w
		go func(w *worker, ops []Op) {
			registry.Store(goid(), w)
			defer registry.Delete(goid())
			for i, op := range ops {
				arg := 10*(w.p+1) + i + 1
				w.report <- gateMsg{point: "call"}
				<-w.resume
				emit(Event{"ev": "call", "g": w.p + 1, "op": op.Type, "key": op.Key, "arg": arg})
				switch op.Type {
				case "los":
					v := m.LoadOrStore(op.Key, func() interface{} {
						emit(Event{"ev": "compute", "g": w.p + 1, "key": op.Key})
						return real(arg)
					})
					emit(retEvent(w.p+1, v, true))
				case "load":
					v, ok := m.Load(op.Key)
					emit(retEvent(w.p+1, v, ok))
				case "store":
					m.Store(op.Key, real(arg))
					emit(Event{"ev": "ret", "g": w.p + 1, "rv": arg, "ok": true})
				}
			}
			w.report <- gateMsg{done: true}
		}(w, run.Prog[p])
	}
	// wait until every goroutine is parked at its first gate
	await := func(p int) bool {
		select {
		case g := <-workers[p].report:
			if g.done {
				finished[p] = true
				parked[p] = nil
			} else {
				gg := g
				parked[p] = &gg
			}
			return true
		case <-time.After(stallTimeout):
			// a goroutine that is merely slow (a loaded machine) is not stalled: only one that is parked inside the map
			// on some primitive is; anything else gets a long grace period
			for waited := stallTimeout; waited < 20*stallTimeout; waited += stallTimeout {
				if blockedInMap() != "other" {
					return false
				}
				select {
				case g := <-workers[p].report:
					if g.done {
						finished[p] = true
						parked[p] = nil
					} else {
						gg := g
						parked[p] = &gg
					}
					return true
				case <-time.After(stallTimeout):
				}
			}
			return false
		}
	}
	for p := 0; p < np; p++ {
		if !await(p) {
			res.Stall = fmt.Sprintf("goroutine %d did not reach its first gate", p+1)
			return res
		}
	}
	isWait := func(g *gateMsg) bool { return g.point == "los_wait" || g.point == "load_wait" }
	for step := 0; ; step++ {
		var rel, blocked []int
		for p := 0; p < np; p++ {
			if finished[p] || parked[p] == nil {
				continue
			}
			if isWait(parked[p]) && !doneObjs[parked[p].obj] {
				blocked = append(blocked, p)
			} else {
				rel = append(rel, p)
			}
		}
		if len(rel) == 0 {
			if len(blocked) == 0 {
				break // all finished
			}
			// Nobody can move except goroutines about to Wait on a placeholder nobody will complete: release one to
			// see whether it really blocks (a real deadlock) or whether only our bookkeeping of Done is off.
			rel = blocked[:1]
			res.Deadlock = true
		}
		c := choose(step, rel)
		p := rel[c]
		res.Options = append(res.Options, len(rel))
		g := parked[p]
		parked[p] = nil
		res.Sched = append(res.Sched, p+1)
		workers[p].resume <- struct{}{}
		if !await(p) {
			buf := make([]byte, 1<<16)
			n := runtime.Stack(buf, true)
			st := string(buf[:n])
			kind := "other"
			if strings.Contains(st, "sync.(*WaitGroup).Wait") {
				kind = "WaitGroup.Wait"
			} else if k := blockedInMap(); k != "other" {
				kind = k
			}
			res.Stall = fmt.Sprintf("goroutine %d released from gate %q did not reach its next gate (blocked in %s; placeholder done=%v)",
				p+1, g.point, kind, doneObjs[g.obj])
			res.Gates = append(res.Gates, "STALL")
			res.Steps = step + 1
			return res
		}
		res.Deadlock = false
		if g.point == "los_done" {
			doneObjs[g.obj] = true // the goroutine moved on from the gate before wg.Done(), so Done has run
		}
		reached := "call"
		if finished[p] {
			reached = "end"
		} else {
			reached = parked[p].point
		}
		res.Gates = append(res.Gates, reached)
		res.Steps = step + 1
	}
	// quiescent: final Load of every key, by the controller itself (unregistered goroutine: no gating)
	keys := map[int]bool{}
	for _, ops := range run.Prog {
		for _, op := range ops {
			keys[op.Key] = true
		}
	}
	for k := 1; k <= 3; k++ {
		if !keys[k] {
			continue
		}
		emit(Event{"ev": "call", "g": 0, "op": "load", "key": k, "arg": 0})
		v, ok := m.Load(k)
		emit(retEvent(0, v, ok))
	}
	for _, e := range *events {
		if e["ev"] == "compute" {
			res.Computes[e["key"].(int)]++
		}
	}
	return res
}

// nilArg is the one abstract value that is concretised as a nil interface (a map must hold and publish a nil value like any
// other: a compute function may return nil, Store may be given nil)
const nilArg = 11

func real(arg int) interface{} {
	if arg == nilArg {
		return nil
	}
	return arg
}

func retEvent(g int, v interface{}, ok bool) Event {
	rv := 0
	switch x := v.(type) {
	case int:
		rv = x
	case nil:
		rv = 0
		if ok {
			rv = nilArg // present with the nil value
		}
	default:
		rv = -1 // anything that is not a supplied value: a placeholder leaked out
	}
	return Event{"ev": "ret", "g": g, "rv": rv, "ok": ok}
}

// compareExpect checks gates reached and outcomes against the TLC behaviour the schedule came from.
func compareExpect(run *Run, res *execResult, events []Event) {
	ex := run.Expect
	if ex == nil {
		return
	}
	for i, g := range res.Gates {
		if i >= len(ex.Gates) {
			break
		}
		want := fmt.Sprint(ex.Gates[i][1])
		if g != want && !(g == "end" && want == "call") {
			res.GateMismatch++
			if res.FirstGateMis == "" {
				res.FirstGateMis = fmt.Sprintf("step %d goroutine %d: reached %q, model pc %q", i, res.Sched[i], g, want)
			}
		}
	}
	// outcomes: per goroutine, sequence of (rv, ok, did)
	type oc struct {
		rv  int
		ok  bool
		did bool
	}
	got := map[int][]oc{}
	cur := map[int]*oc{}
	for _, e := range events {
		g, _ := e["g"].(int)
		if g == 0 {
			continue
		}
		switch e["ev"] {
		case "call":
			cur[g] = &oc{}
		case "compute":
			if cur[g] != nil {
				cur[g].did = true
			}
		case "ret":
			if cur[g] != nil {
				cur[g].rv = e["rv"].(int)
				cur[g].ok = e["ok"].(bool)
				got[g] = append(got[g], *cur[g])
				cur[g] = nil
			}
		}
	}
	idx := map[int]int{}
	want := map[int][]oc{}
	// hist is in completion order; per goroutine that is program order
	for _, h := range ex.Hist {
		p := int(h["p"].(float64))
		want[p] = append(want[p], oc{rv: int(h["rv"].(float64)), ok: h["ok"].(bool), did: h["did"].(bool)})
	}
	_ = idx
	for p, ws := range want {
		gs := got[p]
		if len(gs) != len(ws) {
			res.OutcomeMis = fmt.Sprintf("goroutine %d completed %d operations, model %d", p, len(gs), len(ws))
			return
		}
		for i := range ws {
			if gs[i] != ws[i] {
				res.OutcomeMis = fmt.Sprintf("goroutine %d op %d: got (rv=%d ok=%v computed=%v), model (rv=%d ok=%v computed=%v)",
					p, i+1, gs[i].rv, gs[i].ok, gs[i].did, ws[i].rv, ws[i].ok, ws[i].did)
				return
			}
		}
	}
}

// freeRun: no gating, real concurrency. Events are stamped with a global atomic sequence number: the call stamp is
// taken before the invocation and the ret stamp after the return, so the logged order only widens intervals.
// blockedInMap describes the goroutines that are parked inside a method of the map (whatever primitive they wait on)
func blockedInMap() string {
	buf := make([]byte, 1<<18)
	n := runtime.Stack(buf, true)
	var kinds []string
	for _, g := range strings.Split(string(buf[:n]), "\n\n") {
		if !strings.Contains(g, "lazymap.(*LazySyncMap)") {
			continue
		}
		head, _, _ := strings.Cut(g, "\n")
		if i := strings.Index(head, "["); i >= 0 && !strings.Contains(head, "[running") && !strings.Contains(head, "[runnable") {
			kind := strings.Trim(head[i:], "[]:")
			if strings.Contains(g, "sync.(*WaitGroup).Wait") {
				kind = "WaitGroup.Wait"
			}
			kinds = append(kinds, kind)
		}
	}
	if len(kinds) == 0 {
		return "other"
	}
	sort.Strings(kinds)
	return "LazySyncMap: " + strings.Join(kinds, ", ")
}

func freeRun(run *Run, rng *rand.Rand, events *[]Event) (stall string) {
	m := new(lazymap.LazySyncMap)
	var seq int64
	var mu sync.Mutex
	var evs []struct {
		n int64
		e Event
	}
	emit := func(e Event) {
		n := atomic.AddInt64(&seq, 1)
		mu.Lock()
		evs = append(evs, struct {
			n int64
			e Event
		}{n, e})
		mu.Unlock()
	}
	var wg sync.WaitGroup
	start := make(chan struct{})
	for p := range run.Prog {
		wg.Add(1)
		spin := rng.Intn(200)
		go func(p int, ops []Op) {
			defer wg.Done()
			<-start
			for i := 0; i < spin; i++ {
				runtime.Gosched()
			}
			for i, op := range ops {
				arg := 10*(p+1) + i + 1
				emit(Event{"ev": "call", "g": p + 1, "op": op.Type, "key": op.Key, "arg": arg})
				switch op.Type {
				case "los":
					v := m.LoadOrStore(op.Key, func() interface{} {
						emit(Event{"ev": "compute", "g": p + 1, "key": op.Key})
						runtime.Gosched()
						return real(arg)
					})
					emit(retEvent(p+1, v, true))
				case "load":
					v, ok := m.Load(op.Key)
					emit(retEvent(p+1, v, ok))
				case "store":
					m.Store(op.Key, real(arg))
					emit(Event{"ev": "ret", "g": p + 1, "rv": arg, "ok": true})
				}
			}
		}(p, run.Prog[p])
	}
	close(start)
	finished := make(chan struct{})
	go func() { wg.Wait(); close(finished) }()
	select {
	case <-finished:
	case <-time.After(2 * stallTimeout):
		// some caller never came back.  Parked inside the map: the goroutines are abandoned and the execution is
		// reported; merely slow (a loaded machine): keep waiting
		for waited := 0; blockedInMap() == "other" && waited < 20; waited++ {
			select {
			case <-finished:
				goto done
			case <-time.After(stallTimeout):
			}
		}
		select {
		case <-finished:
		default:
			return "free-running callers never returned (blocked in " + blockedInMap() + ")"
		}
	}
done:
	*events = append(*events, Event{"ev": "reset", "run": run.Id})
	// stamps are unique and increasing; sort by stamp
	out := make([]Event, len(evs))
	for _, x := range evs {
		out[x.n-1] = x.e
	}
	*events = append(*events, out...)
	for k := 1; k <= 3; k++ {
		used := false
		for _, ops := range run.Prog {
			for _, op := range ops {
				if op.Key == k {
					used = true
				}
			}
		}
		if !used {
			continue
		}
		*events = append(*events, Event{"ev": "call", "g": 0, "op": "load", "key": k, "arg": 0})
		v, ok := m.Load(k)
		*events = append(*events, retEvent(0, v, ok))
	}
	return ""
}

func main() {
	in := flag.String("in", "", "runs (json array)")
	outEvents := flag.String("events", "", "ndjson history output")
	outResults := flag.String("results", "", "ndjson per-execution results")
	seed := flag.Int64("seed", 1, "seed")
	flag.Parse()
	lazymap.Yield = yieldHook
	data, err := os.ReadFile(*in)
	if err != nil {
		panic(err)
	}
	var runs []Run
	if err := json.Unmarshal(data, &runs); err != nil {
		panic(err)
	}
	rng := rand.New(rand.NewSource(*seed))
	ef, _ := os.Create(*outEvents)
	ew := bufio.NewWriterSize(ef, 1<<20)
	rf, _ := os.Create(*outResults)
	rw := bufio.NewWriterSize(rf, 1<<20)
	enc := json.NewEncoder(ew)
	renc := json.NewEncoder(rw)
	flush := func(res *execResult, events []Event) {
		for _, e := range events {
			enc.Encode(e)
		}
		if res != nil {
			renc.Encode(res)
		}
	}
	for ri := range runs {
		run := &runs[ri]
		switch run.Mode {
		case "forced":
			var events []Event
			res := execute(run, func(step int, rel []int) int {
				if step < len(run.Sched) {
					for i, p := range rel {
						if p+1 == run.Sched[step] {
							return i
						}
					}
				}
				return 0
			}, &events)
			compareExpect(run, res, events)
			flush(res, events)
		case "random":
			for n := 0; n < run.Count; n++ {
				var events []Event
				r2 := *run
				r2.Id = fmt.Sprintf("%s#%d", run.Id, n)
				res := execute(&r2, func(step int, rel []int) int { return rng.Intn(len(rel)) }, &events)
				flush(res, events)
			}
		case "dfs":
			// stateless exhaustive enumeration by re-execution: prefix of choice indices, extended depth-first
			prefix := []int{}
			n := 0
			for {
				var events []Event
				r2 := *run
				r2.Id = fmt.Sprintf("%s#%d", run.Id, n)
				res := execute(&r2, func(step int, rel []int) int {
					if step < len(prefix) {
						return prefix[step]
					}
					return 0
				}, &events)
				n++
				flush(res, events)
				// next prefix: increment the last choice that has an untried option
				choices := make([]int, len(res.Options))
				copy(choices, prefix)
				i := len(choices) - 1
				for ; i >= 0; i-- {
					if choices[i]+1 < res.Options[i] {
						choices[i]++
						break
					}
				}
				if i < 0 || res.Stall != "" {
					break
				}
				prefix = choices[:i+1]
				if run.Count > 0 && n >= run.Count {
					var ev []Event
					flush(&execResult{Id: run.Id + "#budget", Mode: "dfs-budget", Steps: n}, ev)
					break
				}
			}
		case "free":
			for n := 0; n < run.Count; n++ {
				var events []Event
				r2 := *run
				r2.Id = fmt.Sprintf("%s#%d", run.Id, n)
				st := freeRun(&r2, rng, &events)
				if st != "" {
					events = nil
				}
				flush(&execResult{Id: r2.Id, Mode: "free", Prog: run.Prog, Stall: st}, events)
				if st != "" {
					break
				}
			}
		}
	}
	ew.Flush()
	rw.Flush()
	ef.Close()
	rf.Close()
}
