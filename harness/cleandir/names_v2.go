//go:build v2

package main

import "github.com/PapaCharlie/go-restli/v2/codegen/utils"

var manifestName = utils.ManifestFile
