// Harness for C20 (regeneration never touches files the generator does not own).
//
//	replay : every directory tree enumerated by TLC from CleanDir.tla is materialised on a real file system, cleaned
//	         by the real CleanTargetDir (as a path and, where the model says so, as "."), and the listing and file
//	         contents are compared with the model's expected tree; a second call must change nothing.
//	record : random trees with more names / depth / width are cleaned and logged for Trace_CleanDir.tla.
package main

import (
	"bufio"
	"encoding/json"
	"flag"
	"fmt"
	"math/rand"
	"os"
	"path/filepath"
	"sort"
	"strings"
	"sync"

	"github.com/PapaCharlie/go-restli/v2/codegen/utils"
)

type JTree struct {
	Gone  bool            `json:"gone"`
	Files []string        `json:"files"`
	Dirs  json.RawMessage `json:"dirs"`
	dirs  map[string]*JTree
}

func (t *JTree) parse() {
	t.dirs = map[string]*JTree{}
	if len(t.Dirs) > 0 && t.Dirs[0] == '{' {
		json.Unmarshal(t.Dirs, &t.dirs)
		for _, d := range t.dirs {
			d.parse()
		}
	}
}

type Row struct {
	Target   JTree `json:"target"`
	Dot      bool  `json:"dot"`
	Expected JTree `json:"expected"`
}

func fileName(kind string) string {
	switch kind {
	case "G":
		return "thing" + utils.GeneratedFileSuffix
	case "M":
		return manifestName
	case "L":
		return "linked" // a symbolic link to a directory outside the target (see materialise)
	case "U":
		return "mgr.go" // a hand-written file whose name is a near miss of the generated suffix (any-character dots)
	default:
		return "mgr.json"
	}
}

// materialise writes the tree under dir; every file's content is its own relative path
func materialise(dir string, t *JTree, rel string, outsideDir string) error {
	if err := os.MkdirAll(dir, 0o755); err != nil {
		return err
	}
	for _, k := range t.Files {
		n := fileName(k)
		p := filepath.Join(dir, n)
		r := filepath.Join(rel, n)
		mode := os.FileMode(0o644)
		if k == "G" {
			mode = 0o444 // generated files are written read-only
		}
		os.Remove(p) // (a file or link left from an earlier pass: written afresh)
		if k == "L" {
			if err := os.Symlink(outsideDir, p); err != nil {
				return err
			}
			continue
		}
		if err := os.WriteFile(p, []byte("content of "+r), mode); err != nil {
			return err
		}
	}
	for n, d := range t.dirs {
		if err := materialise(filepath.Join(dir, n), d, filepath.Join(rel, n), outsideDir); err != nil {
			return err
		}
	}
	return nil
}

// expectedListing: relative path -> "dir" or file content
func expectedListing(t *JTree, rel string, out map[string]string) {
	for _, k := range t.Files {
		r := filepath.Join(rel, fileName(k))
		out[r] = "content of " + r
		if k == "L" {
			out[r] = "symlink"
		}
	}
	for n, d := range t.dirs {
		out[filepath.Join(rel, n)] = "dir"
		expectedListing(d, filepath.Join(rel, n), out)
	}
}

func actualListing(root string) (map[string]string, bool) {
	out := map[string]string{}
	if _, err := os.Stat(root); os.IsNotExist(err) {
		return out, false
	}
	filepath.Walk(root, func(p string, info os.FileInfo, err error) error {
		if err != nil || p == root {
			return nil
		}
		r, _ := filepath.Rel(root, p)
		if info.IsDir() {
			out[r] = "dir"
		} else if info.Mode()&os.ModeSymlink != 0 {
			out[r] = "symlink"
		} else {
			b, _ := os.ReadFile(p)
			out[r] = string(b)
		}
		return nil
	})
	return out, true
}

func sameListing(a, b map[string]string) bool {
	if len(a) != len(b) {
		return false
	}
	for k, v := range a {
		if b[k] != v {
			return false
		}
	}
	return true
}

func keys(m map[string]string) []string {
	var ks []string
	for k, v := range m {
		if v == "dir" {
			k += "/"
		}
		ks = append(ks, k)
	}
	sort.Strings(ks)
	return ks
}

var outMu sync.Mutex
var out *bufio.Writer
var vcount = map[string]int{}

func violation(key, what string, c any) {
	outMu.Lock()
	defer outMu.Unlock()
	vcount[key]++
	if vcount[key] > 3 {
		return
	}
	b, _ := json.Marshal(map[string]any{"kind": "violation", "key": key, "what": what, "case": c})
	out.Write(b)
	out.WriteByte('\n')
}

// (outsideDir is where the symbolic links of the tree point: a directory beside the target holding the output of another
// generator run)
func checkRow(base string, id int, row *Row) {
	root := filepath.Join(base, fmt.Sprintf("t%d", id), "target")
	defer os.RemoveAll(filepath.Dir(root))
	outsideDir := filepath.Join(base, fmt.Sprintf("t%d", id), "outside")
	os.MkdirAll(outsideDir, 0o755)
	os.WriteFile(filepath.Join(outsideDir, "other"+utils.GeneratedFileSuffix), []byte("another run"), 0o444)
	os.WriteFile(filepath.Join(outsideDir, manifestName), []byte("{}"), 0o444)
	before := map[string]string{}
	if !row.Target.Gone {
		if err := materialise(root, &row.Target, "", outsideDir); err != nil {
			panic(err)
		}
		expectedListing(&row.Target, "", before)
	} else {
		os.MkdirAll(filepath.Dir(root), 0o755)
	}
	want := map[string]string{}
	if !row.Expected.Gone {
		expectedListing(&row.Expected, "", want)
	}
	call := func() error {
		if row.Dot {
			cwd, _ := os.Getwd()
			if err := os.Chdir(root); err != nil {
				return err
			}
			defer os.Chdir(cwd)
			return utils.CleanTargetDir(".")
		}
		return utils.CleanTargetDir(root)
	}
	for pass := 1; pass <= 3; pass++ {
		if pass == 3 {
			// the same tree written again at the same path (a regeneration cycle): cleaning it must do what it did the
			// first time -- nothing may be remembered about paths cleaned earlier in this process
			if row.Target.Gone {
				break
			}
			if err := materialise(root, &row.Target, "", outsideDir); err != nil {
				panic(err)
			}
		}
		err := call()
		got, exists := actualListing(root)
		cs := map[string]any{"before": keys(before), "dot": row.Dot, "after": keys(got), "expected": keys(want), "pass": pass, "target_exists": exists}
		if err != nil {
			violation("C20/clean-error", fmt.Sprintf("CleanTargetDir failed: %v", err), cs)
			return
		}
		if es, _ := os.ReadDir(outsideDir); len(es) != 2 {
			violation("C20/reaches-outside-the-target", "cleaning changed a directory outside the target (reached through a symbolic link inside it)", cs)
			return
		}
		if exists != !row.Expected.Gone {
			violation(fmt.Sprintf("C20/target-dir-exists=%v-expected=%v/pass%d", exists, !row.Expected.Gone, pass), "target directory existence differs from the specification", cs)
			return
		}
		if !sameListing(got, want) {
			key := "C20/listing-differs"
			for k := range before {
				if _, ok := got[k]; !ok && want[k] != "" {
					if before[k] == "dir" {
						key = "C20/non-empty-directory-removed"
					} else {
						key = "C20/user-file-removed"
					}
				}
			}
			for k, v := range got {
				if w, ok := want[k]; !ok {
					if v == "dir" {
						key = "C20/empty-directory-left"
					} else {
						key = "C20/owned-file-left"
					}
				} else if w != v {
					key = "C20/file-content-changed"
				}
			}
			if pass == 2 {
				key += "/second-pass"
			} else if pass == 3 {
				key += "/same-path-again"
			}
			violation(key, fmt.Sprintf("after cleaning: %v, specification: %v (before: %v)", keys(got), keys(want), keys(before)), cs)
			return
		}
	}
}

func toJ(t *rtree) map[string]any {
	if t == nil {
		return map[string]any{"gone": true, "files": []any{}, "dirs": []any{}}
	}
	files := []any{}
	for _, f := range t.files {
		files = append(files, map[string]any{"n": f[0], "k": f[1]})
	}
	dirs := []any{}
	var names []string
	for n := range t.dirs {
		names = append(names, n)
	}
	sort.Strings(names)
	for _, n := range names {
		dirs = append(dirs, map[string]any{"n": n, "d": toJ(t.dirs[n])})
	}
	return map[string]any{"gone": false, "files": files, "dirs": dirs}
}

type rtree struct {
	files [][2]string // name, kind
	dirs  map[string]*rtree
}

// name pool with the kind the PROPERTY assigns (owned = generated suffix or the manifest name)
func namePool() [][2]string {
	return [][2]string{
		{"foo" + utils.GeneratedFileSuffix, "G"}, {"b" + utils.GeneratedFileSuffix, "G"}, {utils.GeneratedFileSuffix, "G"},
		{"Some_Type" + utils.GeneratedFileSuffix, "G"},
		{manifestName, "M"},
		{"x.go", "U"}, {"temperature.go", "U"}, {"gr.go", "U"}, {"foo.gr.go.bak", "O"}, {"a" + utils.GeneratedFileSuffix + ".orig", "O"},
		{manifestName + ".bak", "O"}, {"README", "O"}, {"garbage.zip", "O"}, {strings.ToUpper(manifestName), "O"}, {".hidden", "O"},
		{"foo.gr.golang", "O"}, {"gr", "O"}, {"mgr.go", "U"}, {"logr.go", "U"}, {"custom_typeref.go", "U"}, {"mgr.json", "O"}, {"xgr.go", "U"},
		{"a.grxgo", "O"}, {"go-restli-manifestxgr.json", "O"},
	}
}

func randTree(rng *rand.Rand, depth int) *rtree {
	t := &rtree{dirs: map[string]*rtree{}}
	pool := namePool()
	nf := rng.Intn(5)
	seen := map[string]bool{}
	for i := 0; i < nf; i++ {
		f := pool[rng.Intn(len(pool))]
		if rng.Intn(3) == 0 {
			f = pool[rng.Intn(5)] // bias towards owned files
		}
		if !seen[f[0]] {
			seen[f[0]] = true
			t.files = append(t.files, f)
		}
	}
	if depth > 1 {
		dn := []string{"d1", "d2", "com", "linkedin", "sub" + utils.GeneratedFileSuffix + "d", "conflictResolution"}
		nd := rng.Intn(4)
		for i := 0; i < nd; i++ {
			n := dn[rng.Intn(len(dn))]
			if t.dirs[n] == nil && !seen[n] {
				t.dirs[n] = randTree(rng, depth-1)
			}
		}
	}
	return t
}

func writeR(dir string, t *rtree) {
	os.MkdirAll(dir, 0o755)
	for _, f := range t.files {
		mode := os.FileMode(0o644)
		if f[1] == "G" {
			mode = 0o444
		}
		os.WriteFile(filepath.Join(dir, f[0]), []byte("content of "+f[0]), mode)
	}
	for n, d := range t.dirs {
		writeR(filepath.Join(dir, n), d)
	}
}

// readR reads back the tree, classifying files by the name pool
func readR(dir string) *rtree {
	if _, err := os.Stat(dir); os.IsNotExist(err) {
		return nil
	}
	kinds := map[string]string{}
	for _, p := range namePool() {
		kinds[p[0]] = p[1]
	}
	t := &rtree{dirs: map[string]*rtree{}}
	es, _ := os.ReadDir(dir)
	for _, e := range es {
		if e.IsDir() {
			t.dirs[e.Name()] = readR(filepath.Join(dir, e.Name()))
		} else {
			b, _ := os.ReadFile(filepath.Join(dir, e.Name()))
			k := kinds[e.Name()]
			if string(b) != "content of "+e.Name() {
				k = "CHANGED"
			}
			t.files = append(t.files, [2]string{e.Name(), k})
		}
	}
	sort.Slice(t.files, func(i, j int) bool { return t.files[i][0] < t.files[j][0] })
	return t
}

func main() {
	mode := flag.String("mode", "replay", "")
	in := flag.String("in", "", "")
	o := flag.String("out", "", "")
	base := flag.String("base", "", "scratch directory on a real file system")
	seed := flag.Int64("seed", 1, "")
	n := flag.Int("n", 100, "")
	nworkers := flag.Int("workers", 12, "trees cleaned side by side (independent directories)")
	flag.Parse()
	out = bufio.NewWriterSize(os.Stdout, 1<<20)
	defer out.Flush()
	switch *mode {
	case "replay":
		f, err := os.Open(*in)
		if err != nil {
			panic(err)
		}
		sc := bufio.NewScanner(f)
		sc.Buffer(make([]byte, 1<<20), 1<<26)
		var dots []*Row
		ch := make(chan struct {
			id  int
			row *Row
		}, 64)
		var wg sync.WaitGroup
		for w := 0; w < *nworkers; w++ {
			wg.Add(1)
			go func() {
				defer wg.Done()
				for x := range ch {
					checkRow(*base, x.id, x.row)
				}
			}()
		}
		id := 0
		nrows := 0
		for sc.Scan() {
			row := new(Row)
			if err := json.Unmarshal(sc.Bytes(), row); err != nil {
				panic(err)
			}
			row.Target.parse()
			row.Expected.parse()
			nrows++
			if row.Dot {
				dots = append(dots, row) // chdir is process-wide: run these one at a time afterwards
				continue
			}
			id++
			ch <- struct {
				id  int
				row *Row
			}{id, row}
		}
		close(ch)
		wg.Wait()
		for _, row := range dots {
			id++
			checkRow(*base, id, row)
		}
		outMu.Lock()
		b, _ := json.Marshal(map[string]any{"kind": "stats", "rows": nrows, "dot_rows": len(dots), "violation_counts": vcount})
		out.Write(b)
		out.WriteByte('\n')
		outMu.Unlock()
	case "record":
		rng := rand.New(rand.NewSource(*seed))
		tf, _ := os.Create(*o)
		w := bufio.NewWriter(tf)
		enc := json.NewEncoder(w)
		for i := 0; i < *n; i++ {
			root := filepath.Join(*base, fmt.Sprintf("r%d", i), "target")
			var t *rtree
			if rng.Intn(20) != 0 {
				t = randTree(rng, 1+rng.Intn(4))
				writeR(root, t)
			} else {
				os.MkdirAll(filepath.Dir(root), 0o755)
			}
			dot := t != nil && rng.Intn(4) == 0
			clean := func() error {
				if dot {
					cwd, _ := os.Getwd()
					os.Chdir(root)
					defer os.Chdir(cwd)
					return utils.CleanTargetDir(".")
				}
				return utils.CleanTargetDir(root)
			}
			before := toJ(t)
			err1 := clean()
			r1 := readR(root)
			err2 := clean()
			r2 := readR(root)
			if err1 != nil || err2 != nil {
				violation("C20/clean-error", fmt.Sprintf("CleanTargetDir failed: %v / %v", err1, err2), before)
			}
			enc.Encode(map[string]any{"ev": "clean", "target": before, "dot": dot, "result": toJ(r1), "again": toJ(r2)})
			os.RemoveAll(filepath.Dir(root))
		}
		w.Flush()
		tf.Close()
		b, _ := json.Marshal(map[string]any{"kind": "stats", "recorded": *n})
		out.Write(b)
		out.WriteByte('\n')
	}
}
