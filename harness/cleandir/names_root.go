//go:build root

package main

import "github.com/PapaCharlie/go-restli/v2/codegen/utils"

var manifestName = utils.ParsedSpecsFile
