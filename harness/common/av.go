// Package hc holds what the codec harnesses share: concretisation of model tokens to bytes, construction of Go values
// of generated types from the specification's abstract values (AV) by reflection -- never through the library's own
// unmarshalers -- comparison of Go values with AVs, and a lexical tokeniser for ROR2 output.
package hc

import (
	"encoding/json"
	"fmt"
	"math"
	"reflect"
	"sort"
	"strconv"
	"strings"
	"unicode/utf8"
)

// ---- tokens

type Conc struct {
	Alnum byte
	Uni   string
	Hi    byte
	Ctl   byte
}

func NewConc(seed int64) *Conc {
	alnum := "abcdefghijklmnopqrstuvwxyzABCDEFGHIJKLMNOPQRSTUVWXYZ0123456789"
	unis := []string{"é", "ß", "€", "日", "🕴", " ", "Ā"}
	his := []byte{0x80, 0xff, 0xe9, 0xc3, 0xa0, 0xfe}
	ctls := []byte{0x01, 0x02, 0x08, 0x09, 0x0b, 0x1f, 0x1b}
	s := int(seed)
	if s < 0 {
		s = -s
	}
	return &Conc{Alnum: alnum[s%len(alnum)], Uni: unis[s%len(unis)], Hi: his[s%len(his)], Ctl: ctls[s%len(ctls)]}
}

// Bytes concretises a token sequence
func (c *Conc) Bytes(toks []any) []byte {
	var out []byte
	for _, t := range toks {
		s := t.(string)
		switch {
		case s == "alnum":
			out = append(out, c.Alnum)
		case s == "uni":
			out = append(out, c.Uni...)
		case s == "hi":
			out = append(out, c.Hi)
		case s == "ctl":
			out = append(out, c.Ctl)
		case len(s) == 3 && s[0] == 'x' && isHex(s[1]) && isHex(s[2]):
			b, _ := strconv.ParseUint(s[1:], 16, 8)
			out = append(out, byte(b))
		default:
			out = append(out, s...) // exact character(s): field names, symbols, literal characters
		}
	}
	return out
}

func isHex(b byte) bool { return (b >= '0' && b <= '9') || (b >= 'A' && b <= 'F') }

// Features lists the non-trivial tokens of a text, for finding keys
func TextFeatures(toks []any) []string {
	var out []string
	if len(toks) == 0 {
		return []string{"empty"}
	}
	for _, t := range toks {
		s := t.(string)
		if s == "alnum" || (len(s) == 1 && ((s[0] >= 'a' && s[0] <= 'z') || (s[0] >= 'A' && s[0] <= 'Z') || (s[0] >= '0' && s[0] <= '9'))) {
			continue
		}
		out = append(out, s)
	}
	return out
}

// ---- number atoms

func IntAtom(a string) int64 {
	switch a {
	case "MAX32":
		return math.MaxInt32
	case "MIN32":
		return math.MinInt32
	case "MAX64":
		return math.MaxInt64
	case "MIN64":
		return math.MinInt64
	case "2^53+1":
		return 1<<53 + 1
	}
	n, err := strconv.ParseInt(a, 10, 64)
	if err != nil {
		panic("int atom " + a)
	}
	return n
}

func FloatAtom(a string, bits int) float64 {
	var f float64
	switch a {
	case "-0":
		f = math.Copysign(0, -1)
	case "NaN":
		f = math.NaN()
	case "+Inf":
		f = math.Inf(1)
	case "-Inf":
		f = math.Inf(-1)
	case "1e21-":
		f = math.Nextafter(1e21, 0)
	case "1e-7-":
		f = math.Nextafter(1e-7, 0)
	case "MAXF32":
		f = math.MaxFloat32
	case "TINYF32":
		f = math.SmallestNonzeroFloat32
	case "MAXF64":
		f = math.MaxFloat64
	case "TINYF64":
		f = math.SmallestNonzeroFloat64
	default:
		var err error
		f, err = strconv.ParseFloat(a, 64)
		if err != nil {
			panic("float atom " + a)
		}
	}
	if bits == 32 {
		return float64(float32(f))
	}
	return f
}

// ---- schema table (enum symbols) exported by schemas/vt.py

type EnumTable map[string][]string

func (e EnumTable) Ordinal(typeName, sym string) int32 {
	if sym == "$UNKNOWN" {
		return 0
	}
	for i, s := range e[typeName] {
		if s == sym {
			return int32(i + 1)
		}
	}
	panic("unknown symbol " + sym + " of " + typeName)
}

// ---- build

type Builder struct {
	C     *Conc
	Enums EnumTable
	// PresentOnly: Diff only demands what the AV lists; fields the AV does not mention may hold anything
	PresentOnly bool
}

func lowerFirst(s string) string {
	if s == "" {
		return s
	}
	return strings.ToLower(s[:1]) + s[1:]
}

// fieldByName finds the struct field for schema field `name`, looking through embedded (included) records
func fieldByName(rv reflect.Value, name string) (reflect.Value, bool) {
	t := rv.Type()
	for i := 0; i < t.NumField(); i++ {
		f := t.Field(i)
		if f.Anonymous {
			if v, ok := fieldByName(rv.Field(i), name); ok {
				return v, true
			}
			continue
		}
		if tag := strings.Split(f.Tag.Get("json"), ",")[0]; tag != "" {
			if tag == name {
				return rv.Field(i), true
			}
			continue
		}
		if lowerFirst(f.Name) == name || f.Name == name || (name == "$params" && f.Name == "Params") {
			return rv.Field(i), true
		}
	}
	return reflect.Value{}, false
}

func (b *Builder) Build(rv reflect.Value, av map[string]any) {
	if rv.Kind() == reflect.Ptr {
		if av["t"] == "null" && rv.Type().Elem().Kind() != reflect.Struct {
			return
		}
		rv.Set(reflect.New(rv.Type().Elem()))
		b.Build(rv.Elem(), av)
		return
	}
	switch av["t"] {
	case "num":
		a := av["v"].(string)
		switch rv.Kind() {
		case reflect.Int32, reflect.Int64, reflect.Int:
			rv.SetInt(IntAtom(a))
		case reflect.Float32:
			rv.SetFloat(FloatAtom(a, 32))
		case reflect.Float64:
			rv.SetFloat(FloatAtom(a, 64))
		case reflect.Interface:
			if p := av["p"].(string); p == "int32" || p == "int64" {
				rv.Set(reflect.ValueOf(IntAtom(a)))
			} else {
				rv.Set(reflect.ValueOf(FloatAtom(a, 64)))
			}
		default:
			panic(fmt.Sprintf("num into %s", rv.Kind()))
		}
	case "bool":
		if rv.Kind() == reflect.Interface {
			rv.Set(reflect.ValueOf(av["v"] == "true"))
		} else {
			rv.SetBool(av["v"] == "true")
		}
	case "str", "bytes", "fixed":
		data := b.C.Bytes(av["v"].([]any))
		switch rv.Kind() {
		case reflect.String:
			rv.SetString(string(data))
		case reflect.Slice:
			rv.SetBytes(append([]byte{}, data...))
		case reflect.Array:
			for i := 0; i < rv.Len() && i < len(data); i++ {
				rv.Index(i).SetUint(uint64(data[i]))
			}
		case reflect.Interface:
			rv.Set(reflect.ValueOf(string(data)))
		default:
			panic(fmt.Sprintf("text into %s", rv.Kind()))
		}
	case "enum":
		rv.SetInt(int64(b.Enums.Ordinal(rv.Type().Name(), av["v"].(string))))
	case "rec":
		entries := av["v"].([]any)
		if rv.Kind() == reflect.Map || rv.Kind() == reflect.Interface { // RawRecord / nested untyped object
			m := reflect.MakeMap(reflect.TypeOf(map[string]interface{}{}))
			for _, e := range entries {
				em := e.(map[string]any)
				x := reflect.New(reflect.TypeOf((*interface{})(nil)).Elem()).Elem()
				b.Build(x, em["v"].(map[string]any))
				m.SetMapIndex(reflect.ValueOf(em["k"].(string)), x)
			}
			if rv.Kind() == reflect.Map {
				rv.Set(m.Convert(rv.Type()))
			} else {
				rv.Set(m)
			}
			return
		}
		for _, e := range entries {
			em := e.(map[string]any)
			f, ok := fieldByName(rv, em["k"].(string))
			if !ok {
				panic(fmt.Sprintf("no field %q in %s", em["k"], rv.Type()))
			}
			b.Build(f, em["v"].(map[string]any))
		}
	case "arr":
		items := av["v"].([]any)
		s := reflect.MakeSlice(rv.Type(), len(items), len(items))
		for i, it := range items {
			b.Build(s.Index(i), it.(map[string]any))
		}
		rv.Set(s)
	case "map":
		entries := av["v"].([]any)
		m := reflect.MakeMapWithSize(rv.Type(), len(entries))
		for _, e := range entries {
			em := e.(map[string]any)
			x := reflect.New(rv.Type().Elem()).Elem()
			b.Build(x, em["v"].(map[string]any))
			m.SetMapIndex(reflect.ValueOf(string(b.C.Bytes(em["k"].([]any)))), x)
		}
		rv.Set(m)
	case "union":
		f, ok := fieldByName(rv, av["a"].(string))
		if !ok {
			panic(fmt.Sprintf("no member %q in %s", av["a"], rv.Type()))
		}
		b.Build(f, av["v"].(map[string]any))
	case "null":
		// nullable union with no member set: zero value
	default:
		panic(fmt.Sprintf("unknown AV %v", av))
	}
}

// ---- compare a Go value with an AV (the expected canonical value)

func sameFloat(a, b float64) bool {
	if math.IsNaN(a) && math.IsNaN(b) {
		return true
	}
	return math.Float64bits(a) == math.Float64bits(b)
}

// Diff returns "" if rv carries exactly the abstract value av, else a description of the first difference
func (b *Builder) Diff(rv reflect.Value, av map[string]any, path string) string {
	for rv.Kind() == reflect.Ptr || rv.Kind() == reflect.Interface {
		if rv.IsNil() {
			if av["t"] == "null" || (av["t"] == "bytes" && len(av["v"].([]any)) == 0) {
				return ""
			}
			// a nil POINTER is an unset optional / defaulted field: that is not "present and empty"
			if (av["t"] == "arr" || av["t"] == "map") && len(av["v"].([]any)) == 0 && rv.Kind() != reflect.Ptr {
				return ""
			}
			return path + ": absent, expected " + short(av)
		}
		rv = rv.Elem()
	}
	switch av["t"] {
	case "num":
		a := av["v"].(string)
		switch rv.Kind() {
		case reflect.Int32, reflect.Int64, reflect.Int:
			if rv.Int() != IntAtom(a) {
				return fmt.Sprintf("%s: %d, expected %s", path, rv.Int(), a)
			}
		case reflect.Float32:
			if !sameFloat(rv.Float(), FloatAtom(a, 32)) {
				return fmt.Sprintf("%s: %v, expected %s", path, rv.Float(), a)
			}
		case reflect.Float64:
			if !sameFloat(rv.Float(), FloatAtom(a, 64)) {
				return fmt.Sprintf("%s: %v, expected %s", path, rv.Float(), a)
			}
		default:
			return fmt.Sprintf("%s: kind %s, expected number %s", path, rv.Kind(), a)
		}
	case "bool":
		if rv.Kind() != reflect.Bool || rv.Bool() != (av["v"] == "true") {
			return fmt.Sprintf("%s: %v, expected %v", path, rv, av["v"])
		}
	case "str", "bytes", "fixed":
		want := b.C.Bytes(av["v"].([]any))
		var got []byte
		switch rv.Kind() {
		case reflect.String:
			got = []byte(rv.String())
		case reflect.Slice:
			got = rv.Bytes()
		case reflect.Array:
			for i := 0; i < rv.Len(); i++ {
				got = append(got, byte(rv.Index(i).Uint()))
			}
		default:
			return fmt.Sprintf("%s: kind %s, expected text", path, rv.Kind())
		}
		if string(got) != string(want) {
			return fmt.Sprintf("%s: %q, expected %q", path, got, want)
		}
	case "enum":
		if rv.Kind() != reflect.Int32 || int32(rv.Int()) != b.Enums.Ordinal(rv.Type().Name(), av["v"].(string)) {
			return fmt.Sprintf("%s: ordinal %v, expected %s", path, rv, av["v"])
		}
	case "rec":
		entries := av["v"].([]any)
		if rv.Kind() == reflect.Map {
			if rv.Len() != len(entries) {
				return fmt.Sprintf("%s: %d entries, expected %d", path, rv.Len(), len(entries))
			}
			return "" // raw records: structure only (types of untyped numbers are not promised)
		}
		seen := map[string]bool{}
		for _, e := range entries {
			em := e.(map[string]any)
			k := em["k"].(string)
			seen[k] = true
			f, ok := fieldByName(rv, k)
			if !ok {
				return path + "." + k + ": no such field"
			}
			if d := b.Diff(f, em["v"].(map[string]any), path+"."+k); d != "" {
				return d
			}
		}
		return b.extraFields(rv, seen, path)
	case "arr":
		items := av["v"].([]any)
		if rv.Kind() != reflect.Slice || rv.Len() != len(items) {
			return fmt.Sprintf("%s: length %d, expected %d", path, safeLen(rv), len(items))
		}
		for i, it := range items {
			if d := b.Diff(rv.Index(i), it.(map[string]any), fmt.Sprintf("%s[%d]", path, i)); d != "" {
				return d
			}
		}
	case "map":
		entries := av["v"].([]any)
		want := map[string]map[string]any{}
		for _, e := range entries {
			em := e.(map[string]any)
			want[string(b.C.Bytes(em["k"].([]any)))] = em["v"].(map[string]any)
		}
		if rv.Kind() != reflect.Map || rv.Len() != len(want) {
			return fmt.Sprintf("%s: %d entries, expected %d", path, safeLen(rv), len(want))
		}
		for k, v := range want {
			x := rv.MapIndex(reflect.ValueOf(k))
			if !x.IsValid() {
				return fmt.Sprintf("%s: key %q lost", path, k)
			}
			if d := b.Diff(x, v, fmt.Sprintf("%s[%q]", path, k)); d != "" {
				return d
			}
		}
	case "union":
		f, ok := fieldByName(rv, av["a"].(string))
		if !ok {
			return path + ": no member " + av["a"].(string)
		}
		if d := b.Diff(f, av["v"].(map[string]any), path+"."+av["a"].(string)); d != "" {
			return d
		}
		return b.extraFields(rv, map[string]bool{av["a"].(string): true}, path)
	case "null":
		return b.extraFields(rv, map[string]bool{}, path)
	}
	return ""
}

func safeLen(rv reflect.Value) int {
	switch rv.Kind() {
	case reflect.Slice, reflect.Map, reflect.Array, reflect.String:
		return rv.Len()
	}
	return -1
}

// extraFields: every pointer / collection field of the struct not mentioned in the AV must be unset
func (b *Builder) extraFields(rv reflect.Value, seen map[string]bool, path string) string {
	if b.PresentOnly || rv.Kind() != reflect.Struct {
		return ""
	}
	t := rv.Type()
	for i := 0; i < t.NumField(); i++ {
		f := t.Field(i)
		if f.Anonymous {
			if d := b.extraFields(rv.Field(i), seen, path); d != "" {
				return d
			}
			continue
		}
		name := lowerFirst(f.Name)
		if tag := strings.Split(f.Tag.Get("json"), ",")[0]; tag != "" {
			name = tag
		}
		if f.Name == "Params" && seen["$params"] {
			continue
		}
		if seen[name] {
			continue
		}
		fv := rv.Field(i)
		switch fv.Kind() {
		case reflect.Ptr, reflect.Map, reflect.Slice:
			if !fv.IsNil() && !(fv.Kind() != reflect.Ptr && fv.Len() == 0) {
				return fmt.Sprintf("%s.%s: present (%v), expected absent", path, name, fv.Interface())
			}
		}
	}
	return ""
}

func short(av map[string]any) string {
	b, _ := json.Marshal(av)
	if len(b) > 120 {
		b = append(b[:120], "..."...)
	}
	return string(b)
}

// ---- JSON tree comparison (library output parsed by encoding/json vs the specification's tree)

// JSONString is the string a text denotes in JSON: bytes and fixed are one code point per byte
func (c *Conc) JSONString(toks []any, isBytes bool) string {
	data := c.Bytes(toks)
	if !isBytes {
		return string(data)
	}
	var sb strings.Builder
	for _, x := range data {
		sb.WriteRune(rune(x))
	}
	return sb.String()
}

func (b *Builder) DiffJSON(got any, tree map[string]any, path string) string {
	switch tree["j"] {
	case "null":
		if got != nil {
			return fmt.Sprintf("%s: %v, expected null", path, got)
		}
	case "bool":
		if g, ok := got.(bool); !ok || g != (tree["v"] == "true") {
			return fmt.Sprintf("%s: %v, expected %v", path, got, tree["v"])
		}
	case "num":
		n, ok := got.(json.Number)
		if !ok {
			return fmt.Sprintf("%s: %T %v, expected the number %v", path, got, got, tree["v"])
		}
		a, p := tree["v"].(string), tree["p"].(string)
		if p == "int32" || p == "int64" {
			x, err := strconv.ParseInt(string(n), 10, 64)
			if err != nil || x != IntAtom(a) {
				return fmt.Sprintf("%s: number text %q, expected %s", path, n, a)
			}
		} else {
			bits := 64
			if p == "float32" {
				bits = 32
			}
			x, err := strconv.ParseFloat(string(n), 64)
			if err != nil || !sameFloat(float64FromBits(x, bits), FloatAtom(a, bits)) {
				return fmt.Sprintf("%s: number text %q, expected %s", path, n, a)
			}
		}
	case "str":
		isBytes, _ := tree["b"].(bool)
		want := b.C.JSONString(tree["v"].([]any), isBytes)
		if g, ok := got.(string); !ok || g != want {
			return fmt.Sprintf("%s: %q, expected %q", path, got, want)
		}
	case "arr":
		items := tree["v"].([]any)
		g, ok := got.([]any)
		if !ok || len(g) != len(items) {
			return fmt.Sprintf("%s: %v, expected an array of %d", path, got, len(items))
		}
		for i := range items {
			if d := b.DiffJSON(g[i], items[i].(map[string]any), fmt.Sprintf("%s[%d]", path, i)); d != "" {
				return d
			}
		}
	case "obj":
		entries := tree["v"].([]any)
		g, ok := got.(map[string]any)
		if !ok {
			return fmt.Sprintf("%s: %v, expected an object", path, got)
		}
		if len(g) != len(entries) {
			return fmt.Sprintf("%s: %d members, expected %d", path, len(g), len(entries))
		}
		for _, e := range entries {
			em := e.(map[string]any)
			k := string(b.C.Bytes(em["k"].([]any)))
			x, ok := g[k]
			if !ok {
				return fmt.Sprintf("%s: member %q missing", path, k)
			}
			if d := b.DiffJSON(x, em["v"].(map[string]any), path+"."+k); d != "" {
				return d
			}
		}
	}
	return ""
}

func float64FromBits(x float64, bits int) float64 {
	if bits == 32 {
		return float64(float32(x))
	}
	return x
}

// PlainOf turns the specification's JSON tree into plain Go data (for the untyped reader and for reference documents)
func (b *Builder) PlainOf(tree map[string]any) any {
	switch tree["j"] {
	case "null":
		return nil
	case "bool":
		return tree["v"] == "true"
	case "num":
		a, p := tree["v"].(string), tree["p"].(string)
		switch p {
		case "int32":
			return int32(IntAtom(a))
		case "int64":
			return IntAtom(a)
		case "float32":
			return float32(FloatAtom(a, 32))
		default:
			return FloatAtom(a, 64)
		}
	case "str":
		isBytes, _ := tree["b"].(bool)
		return b.C.JSONString(tree["v"].([]any), isBytes)
	case "arr":
		out := []any{}
		for _, it := range tree["v"].([]any) {
			out = append(out, b.PlainOf(it.(map[string]any)))
		}
		return out
	case "obj":
		out := map[string]any{}
		for _, e := range tree["v"].([]any) {
			em := e.(map[string]any)
			out[string(b.C.Bytes(em["k"].([]any)))] = b.PlainOf(em["v"].(map[string]any))
		}
		return out
	}
	return nil
}

// ---- ROR2 lexer: purely lexical, never un-escapes structure or guesses

type Tok struct {
	B   byte
	D   bool // literal delimiter
	Esc bool // came from %XX
}

func LexRor2(s string) ([]Tok, error) {
	var out []Tok
	for i := 0; i < len(s); i++ {
		c := s[i]
		if c == '%' {
			if i+2 >= len(s) || !isHexAny(s[i+1]) || !isHexAny(s[i+2]) {
				return out, fmt.Errorf("stray %% at %d in %q", i, s)
			}
			v, _ := strconv.ParseUint(s[i+1:i+3], 16, 8)
			out = append(out, Tok{B: byte(v), Esc: true})
			i += 2
			continue
		}
		out = append(out, Tok{B: c, D: c == '(' || c == ')' || c == ',' || c == ':' || c == '\''})
	}
	return out, nil
}

func isHexAny(b byte) bool {
	return (b >= '0' && b <= '9') || (b >= 'A' && b <= 'F') || (b >= 'a' && b <= 'f')
}

// ByteClass is the class a literal byte belongs to in Wire.tla's Reserved sets
func ByteClass(b byte) string {
	switch {
	case b >= 0x80:
		return "hi"
	case b < 0x20 || b == 0x7f:
		return "ctl"
	}
	return string([]byte{b})
}

// DiffRor2 compares the lexed library output with the specification's token stream
func (b *Builder) DiffRor2(got []Tok, want []any, reserved map[string]bool, queryFlavour bool) string {
	i := 0
	for wi, w := range want {
		wm := w.(map[string]any)
		if atom, _ := wm["atom"].(bool); atom {
			j := i
			for j < len(got) && !got[j].D {
				j++
			}
			text := make([]byte, 0, j-i)
			for _, t := range got[i:j] {
				text = append(text, t.B)
			}
			if d := checkAtomText(string(text), wm["c"].(string)); d != "" {
				return fmt.Sprintf("token %d: %s", wi, d)
			}
			i = j
			continue
		}
		isD := wm["d"].(bool)
		data := b.C.Bytes([]any{wm["c"]})
		for _, x := range data {
			if i >= len(got) {
				return fmt.Sprintf("token %d: output ends, expected %q", wi, x)
			}
			g := got[i]
			gb := g.B
			if queryFlavour && !g.Esc && gb == '+' {
				gb = ' ' // application/x-www-form-urlencoded: a literal plus denotes a space
			}
			if gb != x || g.D != isD {
				return fmt.Sprintf("token %d: got %q (delimiter=%v escaped=%v), expected %q (delimiter=%v)", wi, g.B, g.D, g.Esc, x, isD)
			}
			if !g.Esc && !g.D && (reserved[ByteClass(g.B)] || (g.B >= 0x80 && reserved["uni"])) {
				return fmt.Sprintf("token %d: byte %q appears literally but is reserved in this context", wi, g.B)
			}
			i++
		}
	}
	if i != len(got) {
		return fmt.Sprintf("output has %d extra tokens", len(got)-i)
	}
	return ""
}

func checkAtomText(text, atom string) string {
	switch atom {
	case "true", "false", "null":
		if text != atom {
			return fmt.Sprintf("%q, expected %s", text, atom)
		}
		return ""
	case "NaN":
		if text != "NaN" {
			return fmt.Sprintf("%q, expected NaN", text)
		}
		return ""
	case "+Inf":
		if text != "Infinity" {
			return fmt.Sprintf("%q, expected Infinity", text)
		}
		return ""
	case "-Inf":
		if text != "-Infinity" {
			return fmt.Sprintf("%q, expected -Infinity", text)
		}
		return ""
	}
	if x, err := strconv.ParseInt(text, 10, 64); err == nil {
		if isIntAtom(atom) && x == IntAtom(atom) {
			return ""
		}
	}
	x, err := strconv.ParseFloat(text, 64)
	if err != nil {
		return fmt.Sprintf("%q is not a number (expected %s)", text, atom)
	}
	if isIntAtom(atom) {
		if float64(IntAtom(atom)) == x && !strings.ContainsAny(text, ".eE") {
			return ""
		}
		return fmt.Sprintf("%q, expected integer %s", text, atom)
	}
	if sameFloat(x, FloatAtom(atom, 64)) || sameFloat(float64(float32(x)), FloatAtom(atom, 32)) {
		return ""
	}
	return fmt.Sprintf("%q, expected %s", text, atom)
}

func IsIntAtom(a string) bool { return isIntAtom(a) }

func isIntAtom(a string) bool {
	switch a {
	case "MAX32", "MIN32", "MAX64", "MIN64", "2^53+1":
		return true
	}
	_, err := strconv.ParseInt(a, 10, 64)
	return err == nil && !strings.HasPrefix(a, "-0")
}

// Features of an AV: which non-trivial tokens / atoms it carries, and where (kind of position)
func Features(av map[string]any, pos string, out map[string]bool) {
	switch av["t"] {
	case "num":
		a := av["v"].(string)
		if a != "1" && a != "1.5" && a != "0" {
			out[pos+av["p"].(string)+"="+a] = true
		}
	case "str", "bytes", "fixed":
		for _, f := range TextFeatures(av["v"].([]any)) {
			out[pos+av["t"].(string)+":"+f] = true
		}
	case "rec":
		for _, e := range av["v"].([]any) {
			Features(e.(map[string]any)["v"].(map[string]any), pos, out)
		}
	case "arr":
		for _, e := range av["v"].([]any) {
			Features(e.(map[string]any), pos, out)
		}
	case "map":
		for _, e := range av["v"].([]any) {
			em := e.(map[string]any)
			for _, f := range TextFeatures(em["k"].([]any)) {
				out[pos+"mapkey:"+f] = true
			}
			Features(em["v"].(map[string]any), pos, out)
		}
	case "union":
		Features(av["v"].(map[string]any), pos, out)
	}
}

func FeatureKey(av map[string]any) string {
	m := map[string]bool{}
	Features(av, "", m)
	var ks []string
	for k := range m {
		ks = append(ks, k)
	}
	sort.Strings(ks)
	if len(ks) == 0 {
		return "plain"
	}
	if len(ks) > 3 {
		ks = ks[:3]
	}
	return strings.Join(ks, "+")
}

var _ = utf8.RuneError

// ---- reference ROR2 parser over lexed tokens (the grammar of Wire.tla's ParseRor2) and comparison with a tree

type rnode struct {
	kind    string // obj | arr | text | empty
	text    []byte
	keys    [][]byte
	entries []*rnode
}

func isLit(t Tok, b byte) bool { return !t.D && !t.Esc && t.B == b }
func isDelim(toks []Tok, i int, b byte) bool {
	return i < len(toks) && toks[i].D && toks[i].B == b
}

func parseRor2(toks []Tok, i int) (*rnode, int, error) {
	if i >= len(toks) {
		return nil, i, fmt.Errorf("value expected at end of input")
	}
	if isDelim(toks, i, '\'') && isDelim(toks, i+1, '\'') {
		return &rnode{kind: "text"}, i + 2, nil
	}
	if i+4 < len(toks) && isLit(toks[i], 'L') && isLit(toks[i+1], 'i') && isLit(toks[i+2], 's') && isLit(toks[i+3], 't') && isDelim(toks, i+4, '(') {
		n := &rnode{kind: "arr"}
		i += 5
		if isDelim(toks, i, ')') {
			return n, i + 1, nil
		}
		for {
			v, j, err := parseRor2(toks, i)
			if err != nil {
				return nil, j, err
			}
			n.entries = append(n.entries, v)
			i = j
			if isDelim(toks, i, ',') {
				i++
				continue
			}
			if isDelim(toks, i, ')') {
				return n, i + 1, nil
			}
			return nil, i, fmt.Errorf("',' or ')' expected at token %d", i)
		}
	}
	if isDelim(toks, i, '(') {
		n := &rnode{kind: "obj"}
		i++
		if isDelim(toks, i, ')') {
			return n, i + 1, nil
		}
		for {
			var key []byte
			if isDelim(toks, i, '\'') && isDelim(toks, i+1, '\'') {
				i += 2
			} else {
				for i < len(toks) && !toks[i].D {
					key = append(key, toks[i].B)
					i++
				}
				if len(key) == 0 {
					return nil, i, fmt.Errorf("key expected at token %d", i)
				}
			}
			if !isDelim(toks, i, ':') {
				return nil, i, fmt.Errorf("':' expected at token %d", i)
			}
			v, j, err := parseRor2(toks, i+1)
			if err != nil {
				return nil, j, err
			}
			n.keys = append(n.keys, key)
			n.entries = append(n.entries, v)
			i = j
			if isDelim(toks, i, ',') {
				i++
				continue
			}
			if isDelim(toks, i, ')') {
				return n, i + 1, nil
			}
			return nil, i, fmt.Errorf("',' or ')' expected at token %d", i)
		}
	}
	if toks[i].D {
		return nil, i, fmt.Errorf("unexpected delimiter %q at token %d", toks[i].B, i)
	}
	n := &rnode{kind: "text"}
	for i < len(toks) && !toks[i].D {
		n.text = append(n.text, toks[i].B)
		i++
	}
	return n, i, nil
}

// DiffRor2Tree: the lexed output must be legal in its context and parse, under the reference grammar, to the tree
func (b *Builder) DiffRor2Tree(got []Tok, tree map[string]any, reserved map[string]bool, queryFlavour bool) string {
	toks := make([]Tok, len(got))
	for i, g := range got {
		if queryFlavour && !g.Esc && g.B == '+' {
			g.B = ' ' // application/x-www-form-urlencoded: a literal plus denotes a space
		} else if !g.Esc && !g.D && (reserved[ByteClass(g.B)] || (g.B >= 0x80 && reserved["uni"])) {
			return fmt.Sprintf("byte %q at %d appears literally but is reserved in this context", g.B, i)
		}
		toks[i] = g
	}
	n, j, err := parseRor2(toks, 0)
	if err != nil {
		return "not well-formed ROR2: " + err.Error()
	}
	if j != len(toks) {
		return fmt.Sprintf("trailing input after token %d", j)
	}
	return b.diffNode(n, tree, "$")
}

func (b *Builder) diffNode(n *rnode, tree map[string]any, path string) string {
	switch tree["j"] {
	case "obj":
		entries := tree["v"].([]any)
		if n.kind != "obj" || len(n.entries) != len(entries) {
			return fmt.Sprintf("%s: %s with %d entries, expected an object with %d", path, n.kind, len(n.entries), len(entries))
		}
		for _, e := range entries {
			em := e.(map[string]any)
			k := b.C.Bytes(em["k"].([]any))
			found := false
			for i, gk := range n.keys {
				if string(gk) == string(k) {
					found = true
					if d := b.diffNode(n.entries[i], em["v"].(map[string]any), path+"."+string(k)); d != "" {
						return d
					}
				}
			}
			if !found {
				return fmt.Sprintf("%s: key %q missing (keys: %q)", path, k, n.keys)
			}
		}
	case "arr":
		items := tree["v"].([]any)
		if n.kind != "arr" || len(n.entries) != len(items) {
			return fmt.Sprintf("%s: %s with %d items, expected a list of %d", path, n.kind, len(n.entries), len(items))
		}
		for i, it := range items {
			if d := b.diffNode(n.entries[i], it.(map[string]any), fmt.Sprintf("%s[%d]", path, i)); d != "" {
				return d
			}
		}
	case "str":
		isBytes, _ := tree["b"].(bool)
		_ = isBytes
		want := b.C.Bytes(tree["v"].([]any))
		if n.kind != "text" || string(n.text) != string(want) {
			return fmt.Sprintf("%s: %s %q, expected the text %q", path, n.kind, n.text, want)
		}
	case "num", "bool":
		if n.kind != "text" {
			return fmt.Sprintf("%s: %s, expected a primitive", path, n.kind)
		}
		if d := checkAtomText(string(n.text), tree["v"].(string)); d != "" {
			return path + ": " + d
		}
	case "null":
		if n.kind != "text" || string(n.text) != "null" {
			return fmt.Sprintf("%s: expected null", path)
		}
	}
	return ""
}

// Ror2KeyOrder returns the keys of the top-level object in document order
func Ror2KeyOrder(toks []Tok) ([]string, error) {
	n, j, err := parseRor2(toks, 0)
	if err != nil {
		return nil, err
	}
	if j != len(toks) || n.kind != "obj" {
		return nil, fmt.Errorf("not a single object")
	}
	var out []string
	for _, k := range n.keys {
		out = append(out, string(k))
	}
	return out, nil
}

// Ror2AllSorted checks that the keys of every object ascend bytewise
func Ror2AllSorted(toks []Tok) string {
	n, _, err := parseRor2(toks, 0)
	if err != nil {
		return ""
	}
	var walk func(n *rnode) string
	walk = func(n *rnode) string {
		if n.kind == "obj" {
			for i := 1; i < len(n.keys); i++ {
				if !(string(n.keys[i-1]) < string(n.keys[i])) {
					return fmt.Sprintf("key %q follows %q", n.keys[i], n.keys[i-1])
				}
			}
		}
		for _, e := range n.entries {
			if d := walk(e); d != "" {
				return d
			}
		}
		return ""
	}
	return walk(n)
}
