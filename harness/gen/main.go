// Generator driver: runs /repo's current v2 generator on a JSON manifest (no jar needed).
//
//	gen <manifest.json> <outDir> [withPackageRoot]
package main

import (
	"fmt"
	"os"

	"github.com/PapaCharlie/go-restli/v2/cmd"
)

func main() {
	data, err := os.ReadFile(os.Args[1])
	if err != nil {
		fmt.Fprintln(os.Stderr, err)
		os.Exit(2)
	}
	m, err := cmd.ReadManifest(data)
	if err != nil {
		fmt.Fprintln(os.Stderr, "GENERATOR-ERROR: read manifest:", err)
		os.Exit(1)
	}
	withPackageRoot := len(os.Args) > 3 && os.Args[3] == "withPackageRoot"
	if err := cmd.GenerateCode(os.Args[2], []*cmd.GoRestliManifest{m}, withPackageRoot); err != nil {
		fmt.Fprintf(os.Stderr, "GENERATOR-ERROR: %+v\n", err)
		os.Exit(1)
	}
}
