// Generator driver: runs /repo's current v2 generator on a JSON manifest (no jar needed).
//
//	gen <manifest.json> <outDir> [withPackageRoot] [dep=<written go-restli-manifest.gr.json of another package root>]...
package main

import (
	"fmt"
	"os"
	"strings"

	"github.com/PapaCharlie/go-restli/v2/cmd"
)

func main() {
	data, err := os.ReadFile(os.Args[1])
	if err != nil {
		fmt.Fprintln(os.Stderr, err)
		os.Exit(2)
	}
	m, err := cmd.ReadManifest(data)
	if err != nil {
		fmt.Fprintln(os.Stderr, "GENERATOR-ERROR: read manifest:", err)
		os.Exit(1)
	}
	withPackageRoot := false
	var manifests []*cmd.GoRestliManifest
	for _, a := range os.Args[3:] {
		if a == "withPackageRoot" {
			withPackageRoot = true
		} else if strings.HasPrefix(a, "dep=") { // as --manifest-dependencies does: dependency manifests first, the input last
			d, err := os.ReadFile(a[4:])
			if err != nil {
				fmt.Fprintln(os.Stderr, err)
				os.Exit(2)
			}
			dm, err := cmd.ReadManifest(d)
			if err != nil {
				fmt.Fprintln(os.Stderr, "GENERATOR-ERROR: read dependency manifest:", err)
				os.Exit(1)
			}
			manifests = append(manifests, dm)
		}
	}
	if err := cmd.GenerateCode(os.Args[2], append(manifests, m), withPackageRoot); err != nil {
		fmt.Fprintf(os.Stderr, "GENERATOR-ERROR: %+v\n", err)
		os.Exit(1)
	}
}
