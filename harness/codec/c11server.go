package main

import (
	"fmt"
	"net/http"
	"net/http/httptest"
	"reflect"
	"sort"
	"strings"

	"github.com/PapaCharlie/go-restli/v2/restli"
)

// C11 through the server adapters: the partial-update documents of Patch.tla are sent to the generated server bindings of
// the resources whose readOnly / createOnly annotations equal the case's exclusion set (collRO: nested; collRR: id,
// nested/b, partial_update returning the entity), as partial_update and -- where the resource has it -- wrapped as a
// batch_partial_update.  Patch.tla's verdict decides: an illegal document is answered 400 and the resource never runs,
// a legal one reaches the resource.
type c11Server struct {
	h       http.Handler
	invoked int
	batch   bool
}

var c11Servers = map[string]*c11Server{}

func zeroish(t reflect.Type) reflect.Value {
	switch t.Kind() {
	case reflect.Ptr:
		return reflect.New(t.Elem())
	case reflect.Map:
		return reflect.MakeMap(t)
	}
	return reflect.Zero(t)
}

func c11ServerFor(name string) *c11Server {
	if s, ok := c11Servers[name]; ok {
		return s
	}
	info, ok := resources[name]
	if !ok {
		c11Servers[name] = nil
		return nil
	}
	s := &c11Server{}
	mock := reflect.New(info.mock)
	for i := 0; i < info.mock.NumField(); i++ {
		ft := info.mock.Field(i).Type
		if strings.HasPrefix(info.mock.Field(i).Name, "MockBatchPartialUpdate") {
			s.batch = true
		}
		mock.Elem().Field(i).Set(reflect.MakeFunc(ft, func(args []reflect.Value) []reflect.Value {
			s.invoked++
			rets := make([]reflect.Value, ft.NumOut())
			for o := range rets {
				if ft.Out(o).Name() == "error" {
					rets[o] = reflect.Zero(ft.Out(o))
				} else {
					rets[o] = zeroish(ft.Out(o))
				}
			}
			return rets
		}))
	}
	server := restli.NewServer()
	info.register(server, mock.Interface())
	s.h = server.Handler()
	c11Servers[name] = s
	return s
}

func c11ServerProbe(dirs []string, doc string, legal bool, feat string, cs map[string]any, stats map[string]int) {
	sorted := append([]string{}, dirs...)
	sort.Strings(sorted)
	name := map[string]string{"nested": "collRO", "id+nested/b": "collRR"}[strings.Join(sorted, "+")]
	if name == "" {
		return
	}
	s := c11ServerFor(name)
	if s == nil {
		if !c11ResourceLeftOut[name] {
			violation("C11/server/no-such-resource/"+name, "generated bindings lack resource "+name, nil)
		}
		return
	}
	type probe struct{ kind, target, method, body string }
	probes := []probe{{"partial_update", "/" + name + "/1", "partial_update", doc}}
	if s.batch {
		probes = append(probes,
			probe{"batch_partial_update", "/" + name + "?ids=List(1,2)", "batch_partial_update", `{"entities":{"1":` + doc + `,"2":{"patch":{"$set":{"name":"n"}}}}}`},
			probe{"batch_partial_update/second-key", "/" + name + "?ids=List(1,2)", "batch_partial_update", `{"entities":{"1":{"patch":{}},"2":` + doc + `}}`})
	}
	for _, p := range probes {
		req := httptest.NewRequest("POST", "http://host.example"+p.target, strings.NewReader(p.body))
		req.Header.Set("X-RestLi-Method", p.method)
		req.Header.Set("X-RestLi-Protocol-Version", "2.0.0")
		req.Header.Set("Content-Type", "application/json")
		w := httptest.NewRecorder()
		before := s.invoked
		s.h.ServeHTTP(w, req)
		stats["server_probes"]++
		ran := s.invoked != before
		c := map[string]any{"resource": name, "method": p.kind, "body": p.body, "status": w.Code, "resource_invoked": ran}
		for k, v := range cs {
			c[k] = v
		}
		if !legal && (w.Code != 400 || ran) {
			violation("C11/server/"+name+"/"+p.kind+"/illegal-accepted/"+feat, fmt.Sprintf("an illegal partial update was answered %d (resource invoked: %v): %s", w.Code, ran, clip(p.body)), c)
		} else if legal && (w.Code == 400 || !ran) {
			violation("C11/server/"+name+"/"+p.kind+"/legal-rejected/"+feat, fmt.Sprintf("a legal partial update was answered %d (resource invoked: %v): %s  %s", w.Code, ran, clip(p.body), clip(w.Body.String())), c)
		}
	}
}
