package main

import (
	"bufio"
	"crypto/sha256"
	"encoding/hex"
	"encoding/json"
	"fmt"
	"hash"
	"os"
	"reflect"
	"sort"
	"strings"
	"sync"

	hc "verifharness/common"

	"github.com/PapaCharlie/go-restli/v2/restli/batchkeyset"
	"github.com/PapaCharlie/go-restli/v2/restlicodec"
)

// C09: deterministic, canonical serialization.
//   part 1: every supply order enumerated by TLC from Writer.tla is replayed through the real WriteMap of every writer
//           flavour, BuildQueryParams and the batch key set: the emitted key order must be the specification's and the
//           bytes must not depend on the supply order;
//   part 2: every VT value is encoded repeatedly (Go map iteration order differs between iterations): identical bytes,
//           keys ascending at every level; a digest of all outputs is compared across fresh processes by the driver.

var rankBytes = map[int]string{0: "1", 1: "B", 2: "a", 3: "b", 4: "é", 5: "\uff21", 6: "\U0001F600"}

func keyOf(ranks []any) string {
	var sb strings.Builder
	for _, r := range ranks {
		sb.WriteString(rankBytes[int(r.(float64))])
	}
	return sb.String()
}

// jsonKeyOrder returns the member names of the top-level object in document order
func jsonKeyOrder(doc string) ([]string, error) {
	dec := json.NewDecoder(strings.NewReader(doc))
	if _, err := dec.Token(); err != nil {
		return nil, err
	}
	var keys []string
	for dec.More() {
		t, err := dec.Token()
		if err != nil {
			return nil, err
		}
		keys = append(keys, t.(string))
		var skip any
		if err := dec.Decode(&skip); err != nil {
			return nil, err
		}
	}
	return keys, nil
}

// allJsonObjectsSorted checks that the members of every object of the document ascend bytewise
func allJsonObjectsSorted(doc string) string {
	dec := json.NewDecoder(strings.NewReader(doc))
	var walk func() string
	walk = func() string {
		t, err := dec.Token()
		if err != nil {
			return err.Error()
		}
		switch d := t.(type) {
		case json.Delim:
			if d == '{' {
				prev, first := "", true
				for dec.More() {
					kt, err := dec.Token()
					if err != nil {
						return err.Error()
					}
					k := kt.(string)
					if !first && !(prev < k) {
						return fmt.Sprintf("member %q follows %q", k, prev)
					}
					prev, first = k, false
					if e := walk(); e != "" {
						return e
					}
				}
				dec.Token()
			} else if d == '[' {
				for dec.More() {
					if e := walk(); e != "" {
						return e
					}
				}
				dec.Token()
			}
		}
		return ""
	}
	return walk()
}

// flavourOrder rotates the order in which the flavours are used (set from -order)
var flavourOrder int

func runC09(permsFile, rowsFile string, seed int64, b *hc.Builder) {
	// one digest per flavour: processes started with different flavour orders (-order) must agree flavour by flavour --
	// what a flavour writes must not depend on which other flavour wrote the same keys earlier in the process
	digests := map[string]hash.Hash{}
	digestOf := func(name string) hash.Hash {
		if digests[name] == nil {
			digests[name] = sha256.New()
		}
		return digests[name]
	}
	stats := map[string]int{}
	// ---- part 1
	f, err := os.Open(permsFile)
	if err != nil {
		panic(err)
	}
	sc := bufio.NewScanner(f)
	bySet := map[string]map[string]string{} // sink -> key-set signature -> bytes
	type sink struct {
		name string
		run  func(keys []string) (string, []string, error)
	}
	writerSink := func(name string, mk func() restlicodec.Writer, isJSON bool) sink {
		return sink{name, func(keys []string) (string, []string, error) {
			w := mk()
			err := w.WriteMap(func(kw func(string) restlicodec.Writer) error {
				for i, k := range keys {
					kw(k).WriteInt32(int32(i))
				}
				return nil
			})
			if err != nil {
				return "", nil, err
			}
			out := w.Finalize()
			if isJSON {
				order, err := jsonKeyOrder(out)
				return out, order, err
			}
			toks, err := hc.LexRor2(out)
			if err != nil {
				return out, nil, err
			}
			order, err := hc.Ror2KeyOrder(toks)
			return out, order, err
		}}
	}
	sinks := []sink{
		writerSink("json", restlicodec.NewCompactJsonWriter, true),
		writerSink("pretty", restlicodec.NewPrettyJsonWriter, true),
		writerSink("header", restlicodec.NewRor2HeaderWriter, false),
		writerSink("path", func() restlicodec.Writer { return restlicodec.NewRor2PathWriter() }, false),
		writerSink("querywriter", newQueryWriter, false),
		{"queryparams", func(keys []string) (string, []string, error) {
			out, err := buildQueryParams(func(kw func(string) restlicodec.Writer) error {
				for i, k := range keys {
					kw(k).WriteInt32(int32(i))
				}
				return nil
			})
			var order []string
			for _, p := range strings.Split(out, "&") {
				n, _, _ := strings.Cut(p, "=")
				order = append(order, n)
			}
			return out, order, err
		}},
		{"batchids", func(keys []string) (string, []string, error) {
			set := batchkeyset.NewBatchKeySet[string]()
			for _, k := range keys {
				if err := set.AddKey(k); err != nil {
					return "", nil, err
				}
			}
			out, err := set.EncodeQueryParams()
			if err != nil {
				return out, nil, err
			}
			body := strings.TrimSuffix(strings.TrimPrefix(out, "ids=List("), ")")
			return out, strings.Split(body, ","), nil
		}},
		// the hash-bucket implementation behind bytes, record, complex and custom-typeref keys
		{"batchids-generic", func(keys []string) (string, []string, error) {
			set := batchkeyset.NewBytesKeySet()
			for _, k := range keys {
				if err := set.AddKey([]byte(k)); err != nil {
					return "", nil, err
				}
			}
			out, err := set.EncodeQueryParams()
			if err != nil {
				return out, nil, err
			}
			body := strings.TrimSuffix(strings.TrimPrefix(out, "ids=List("), ")")
			return out, strings.Split(body, ","), nil
		}},
	}
	for sc.Scan() {
		var row struct {
			Supplied [][]any `json:"supplied"`
			Emitted  [][]any `json:"emitted"`
		}
		if err := json.Unmarshal(sc.Bytes(), &row); err != nil {
			panic(err)
		}
		var supplied, emitted []string
		for _, k := range row.Supplied {
			supplied = append(supplied, keyOf(k))
		}
		nonASCII := false
		for _, k := range row.Emitted {
			emitted = append(emitted, keyOf(k))
			if strings.ContainsAny(keyOf(k), "é\uff21\U0001F600") {
				nonASCII = true
			}
		}
		sig := strings.Join(emitted, "|")
		stats["supply_orders"]++
		for _, s := range sinks {
			out, order, err := s.run(supplied)
			cs := map[string]any{"sink": s.name, "supplied": supplied, "specified_order": emitted, "output": out}
			if err != nil {
				violation("C09/"+s.name+"/error", err.Error(), cs)
				continue
			}
			stats["encodings"]++
			// values differ with the supply order in this replay (the index), so compare orders, and bytes per order
			skipOrder := strings.HasPrefix(s.name, "batchids") && nonASCII // ids ascend in ENCODED form: %C3%A9 sorts before letters
			if strings.HasPrefix(s.name, "batchids") {
				for i := range order {
					if u, err := restliUnescape(order[i]); err == nil {
						order[i] = u
					}
				}
			}
			if !skipOrder && strings.Join(order, "|") != sig {
				violation("C09/"+s.name+"/order", fmt.Sprintf("keys emitted as %q, specified %q (supplied %q)", order, emitted, supplied), cs)
			}
			if bySet[s.name] == nil {
				bySet[s.name] = map[string]string{}
			}
			_ = bySet
		}
		// byte-identity across supply orders: same values this time (value = key itself)
		for _, s := range sinks[:5] {
			mkOut := func(keys []string) string {
				var w restlicodec.Writer
				switch s.name {
				case "json":
					w = restlicodec.NewCompactJsonWriter()
				case "pretty":
					w = restlicodec.NewPrettyJsonWriter()
				case "header":
					w = restlicodec.NewRor2HeaderWriter()
				case "path":
					w = restlicodec.NewRor2PathWriter()
				default:
					w = restlicodec.NewRestLiQueryParamsWriter()
				}
				w.WriteMap(func(kw func(string) restlicodec.Writer) error {
					for _, k := range keys {
						kw(k).WriteString(k)
					}
					return nil
				})
				return w.Finalize()
			}
			out := mkOut(supplied)
			if prev, ok := bySet[s.name][sig]; ok && prev != out {
				violation("C09/"+s.name+"/bytes-depend-on-supply-order", fmt.Sprintf("%q vs %q", prev, out), map[string]any{"sink": s.name, "supplied": supplied})
			}
			bySet[s.name][sig] = out
			digestOf(s.name).Write([]byte(out))
		}
	}
	// ---- part 2
	f2, err := os.Open(rowsFile)
	if err != nil {
		panic(err)
	}
	sc2 := bufio.NewScanner(f2)
	sc2.Buffer(make([]byte, 1<<20), 1<<27)
	for sc2.Scan() {
		var row Row
		if err := json.Unmarshal(sc2.Bytes(), &row); err != nil {
			panic(err)
		}
		typ, ok := registry[row.Schema]
		if !ok {
			continue
		}
		stats["values"]++
		feat := hc.FeatureKey(row.Av)
		fls := flavours()
		for k := range fls { // -order 0: as listed; odd: reversed (query before path before header); other even: rotated
			idx := (k + flavourOrder) % len(fls)
			if flavourOrder%2 == 1 {
				idx = len(fls) - 1 - k
			}
			fl := fls[idx]
			var first string
			for rep := 0; rep < 3; rep++ {
				ptr := reflect.New(typ) // a fresh instance each time: maps are rebuilt
				b.Build(ptr.Elem(), row.Av)
				var wire string
				err, pan := safely(func() (e error) { wire, e = encode(fl, marshalerOf(ptr)); return e })
				if err != nil || pan != "" {
					break
				}
				stats["encodings"]++
				if rep == 0 {
					first = wire
					digestOf(fl.name).Write([]byte(wire))
					if fl.name == "json" {
						if d := allJsonObjectsSorted(wire); d != "" {
							violation("C09/json/keys-not-ascending/"+feat, "object members are not in ascending byte order: "+d+"  output: "+clip(wire), map[string]any{"schema": row.Schema, "av": row.Av})
						}
					}
					if fl.name == "header" {
						if toks, err := hc.LexRor2(wire); err == nil {
							if d := hc.Ror2AllSorted(toks); d != "" {
								violation("C09/header/keys-not-ascending/"+feat, "object keys are not in ascending byte order: "+d+"  output: "+clip(wire), map[string]any{"schema": row.Schema, "av": row.Av})
							}
						}
					}
				} else if wire != first {
					violation("C09/"+fl.name+"/not-deterministic/"+feat, fmt.Sprintf("two encodings of the same value differ: %s  vs  %s", clip(first), clip(wire)), map[string]any{"schema": row.Schema, "av": row.Av})
				}
			}
		}
	}
	c09History(stats)
	c09KeySetReuse(stats)
	c09Exclusion(stats)
	c09Concurrent(stats)
	keys := []string{}
	for k := range vcount {
		keys = append(keys, k)
	}
	sort.Strings(keys)
	dg := map[string]string{}
	for k, h := range digests {
		dg[k] = hex.EncodeToString(h.Sum(nil))
	}
	sb, _ := json.Marshal(map[string]any{"kind": "stats", "stats": stats, "digests": dg, "violation_counts": vcount})
	out.Write(sb)
	out.WriteByte('\n')
}

func restliUnescape(s string) (string, error) {
	var sb strings.Builder
	for i := 0; i < len(s); i++ {
		if s[i] == '%' && i+2 < len(s) {
			var v int
			if _, err := fmt.Sscanf(s[i+1:i+3], "%02X", &v); err != nil {
				return "", err
			}
			sb.WriteByte(byte(v))
			i += 2
		} else {
			sb.WriteByte(s[i])
		}
	}
	return sb.String(), nil
}

// ---- part 3: "output does not depend on earlier use of the library".  The same maps are encoded before and after
// histories of serializations that FAIL part-way (after one or more entries were already written, at the top level and
// nested): the bytes must not change.
func c09History(stats map[string]int) {
	type mk struct {
		name string
		w    func() restlicodec.Writer
	}
	writers := []mk{{"json", restlicodec.NewCompactJsonWriter}, {"pretty", restlicodec.NewPrettyJsonWriter}, {"header", restlicodec.NewRor2HeaderWriter},
		{"path", func() restlicodec.Writer { return restlicodec.NewRor2PathWriter() }}, {"query", newQueryWriter}}
	good := func(w restlicodec.Writer) (string, error) {
		err := w.WriteMap(func(kw func(string) restlicodec.Writer) error {
			kw("age").WriteInt32(30)
			kw("name").WriteString("n (x)")
			return kw("nested").WriteMap(func(kw2 func(string) restlicodec.Writer) error {
				kw2("k").WriteArray(func(iw func() restlicodec.Writer) error {
					iw().WriteString("i")
					iw().WriteInt64(7)
					return nil
				})
				kw2("z").WriteBool(true)
				return nil
			})
		})
		return w.Finalize(), err
	}
	boom := fmt.Errorf("failing on purpose")
	failing := []func(w restlicodec.Writer) error{
		func(w restlicodec.Writer) error { // after one entry
			return w.WriteMap(func(kw func(string) restlicodec.Writer) error {
				kw("leftover").WriteString("text of an unrelated, failed request")
				return boom
			})
		},
		func(w restlicodec.Writer) error { // after several entries, inside a nested map
			return w.WriteMap(func(kw func(string) restlicodec.Writer) error {
				kw("a").WriteInt32(1)
				kw("b").WriteString("stale")
				return kw("c").WriteMap(func(kw2 func(string) restlicodec.Writer) error {
					kw2("d").WriteString("stale-nested")
					return boom
				})
			})
		},
		func(w restlicodec.Writer) error { // inside an array item
			return w.WriteArray(func(iw func() restlicodec.Writer) error {
				iw().WriteString("stale-item")
				return iw().WriteMap(func(kw func(string) restlicodec.Writer) error {
					kw("x").WriteString("stale")
					return boom
				})
			})
		},
	}
	for _, m := range writers {
		base, err := good(m.w())
		if err != nil {
			violation("C09/history/"+m.name+"/baseline-error", err.Error(), nil)
			continue
		}
		for round := 0; round < 200; round++ {
			for _, f := range failing {
				if err := f(m.w()); err == nil {
					violation("C09/history/"+m.name+"/failure-swallowed", "a serialization whose callback failed reported success", nil)
				}
			}
			after, err := good(m.w())
			stats["history_encodings"]++
			if err != nil || after != base {
				violation("C09/history/"+m.name+"/output-depends-on-earlier-failed-call", fmt.Sprintf("the same value encoded %s before and %s after failed serializations (err %v)", clip(base), clip(after), err),
					map[string]any{"writer": m.name, "before": base, "after": after, "round": round})
				break
			}
		}
	}
}

// a key set that was already encoded once and then grew encodes like a fresh set holding the same keys
func c09KeySetReuse(stats map[string]int) {
	type ks struct {
		name string
		mk   func(keys []string) (string, string, error) // (reused set, fresh set)
	}
	sets := []ks{
		{"string", func(keys []string) (string, string, error) {
			reused, fresh := batchkeyset.NewBatchKeySet[string](), batchkeyset.NewBatchKeySet[string]()
			for i, k := range keys {
				if err := reused.AddKey(k); err != nil {
					return "", "", err
				}
				if i < len(keys)-1 {
					reused.EncodeQueryParams() // an earlier use of the set
				}
				fresh.AddKey(k)
			}
			a, err := reused.EncodeQueryParams()
			if err != nil {
				return "", "", err
			}
			b, err := fresh.EncodeQueryParams()
			return a, b, err
		}},
		{"bytes", func(keys []string) (string, string, error) {
			reused, fresh := batchkeyset.NewBytesKeySet(), batchkeyset.NewBytesKeySet()
			for i, k := range keys {
				if err := reused.AddKey([]byte(k)); err != nil {
					return "", "", err
				}
				if i < len(keys)-1 {
					reused.EncodeQueryParams()
				}
				fresh.AddKey([]byte(k))
			}
			a, err := reused.EncodeQueryParams()
			if err != nil {
				return "", "", err
			}
			b, err := fresh.EncodeQueryParams()
			return a, b, err
		}},
	}
	for _, s := range sets {
		for _, keys := range [][]string{{"b", "a"}, {"k1", "k3", "k2"}, {"z", "a b", "m,n", "x"}} {
			a, b, err := s.mk(keys)
			stats["history_encodings"]++
			if err != nil || a != b {
				violation("C09/history/keyset-"+s.name+"/output-depends-on-earlier-encoding", fmt.Sprintf("a key set encoded before it was complete gives %q, a fresh set with the same keys %q (err %v)", a, b, err),
					map[string]any{"keys": keys})
			}
		}
	}
}

// ---- part 4: requests are reproducible under concurrency: the same parameters encoded from 8 goroutines at once give the
// bytes a single goroutine gives.
func c09Concurrent(stats map[string]int) {
	type job struct {
		name string
		run  func(i int) (string, error)
	}
	jobs := []job{
		{"queryparams", func(i int) (string, error) {
			return buildQueryParams(func(kw func(string) restlicodec.Writer) error {
				kw("q").WriteString(fmt.Sprintf("search (%d) a&b=c d+e", i))
				kw("ids").WriteArray(func(iw func() restlicodec.Writer) error {
					iw().WriteString(fmt.Sprintf("k,%d", i))
					iw().WriteString("é/" + fmt.Sprint(i))
					return nil
				})
				return nil
			})
		}},
		{"batchids", func(i int) (string, error) {
			set := batchkeyset.NewBatchKeySet[string]()
			for _, k := range []string{fmt.Sprintf("b (%d)", i), fmt.Sprintf("a,%d", i), "c&d=" + fmt.Sprint(i)} {
				if err := set.AddKey(k); err != nil {
					return "", err
				}
			}
			return set.EncodeQueryParams()
		}},
	}
	const n, workers = 400, 8
	for _, j := range jobs {
		want := make([]string, n)
		for i := 0; i < n; i++ {
			want[i], _ = j.run(i)
		}
		var wg sync.WaitGroup
		var mu sync.Mutex
		bad := ""
		for g := 0; g < workers; g++ {
			wg.Add(1)
			go func() {
				defer wg.Done()
				defer func() {
					if r := recover(); r != nil {
						mu.Lock()
						bad = fmt.Sprintf("panic: %v", r)
						mu.Unlock()
					}
				}()
				for rep := 0; rep < 5; rep++ {
					for i := 0; i < n; i++ {
						got, err := j.run(i)
						if err != nil || got != want[i] {
							mu.Lock()
							if bad == "" {
								bad = fmt.Sprintf("encoding %d gave %q (err %v), a single goroutine gives %q", i, got, err, want[i])
							}
							mu.Unlock()
							return
						}
					}
				}
			}()
		}
		wg.Wait()
		stats["concurrent_encodings"] += n * workers * 5
		if bad != "" {
			violation("C09/concurrent/"+j.name, "encoding from several goroutines at once: "+bad, map[string]any{"job": j.name})
		}
	}
}

// c09Exclusion: writers configured with an exclusion spec are writers too -- what they emit for one value must not depend on
// the order in which entries and fields are supplied, on repetition, or on which directive of the spec is looked at first.
// The value: accounts -> {admin, bob, carol}, each {id, secret, tags}; the spec excludes accounts/*/id (a wildcard directive)
// and accounts/admin/secret (a named directive on the same level); admin's tags are an EMPTY array written before other keys.
func c09Exclusion(stats map[string]int) {
	type acct struct {
		name   string
		id     int32
		secret string
		tags   []string
	}
	accts := []acct{{"admin", 1, "s1", nil}, {"bob", 2, "s2", []string{"t"}}, {"carol", 3, "s3", nil}}
	spec := func() restlicodec.PathSpec { return restlicodec.NewPathSpec("accounts/*/id", "accounts/admin/secret") }
	want := map[string]string{
		"json":   `{"accounts":{"admin":{"tags":[]},"bob":{"secret":"s2","tags":["t"]},"carol":{"secret":"s3","tags":[]}}}`,
		"header": `(accounts:(admin:(tags:List()),bob:(secret:s2,tags:List(t)),carol:(secret:s3,tags:List())))`,
	}
	mk := map[string]func() restlicodec.Writer{
		"json":   func() restlicodec.Writer { return restlicodec.NewCompactJsonWriterWithExcludedFields(spec()) },
		"header": func() restlicodec.Writer { return restlicodec.NewRor2HeaderWriterWithExcludedFields(spec()) },
	}
	perms3 := [][]int{{0, 1, 2}, {0, 2, 1}, {1, 0, 2}, {1, 2, 0}, {2, 0, 1}, {2, 1, 0}}
	fields := []string{"id", "secret", "tags"}
	for name, newW := range mk {
		seen := map[string]int{}
		for rep := 0; rep < 10; rep++ {
			for _, ao := range perms3 {
				for _, fo := range perms3 {
					w := newW()
					err := w.WriteMap(func(kw func(string) restlicodec.Writer) error {
						return kw("accounts").WriteMap(func(kw func(string) restlicodec.Writer) error {
							for _, ai := range ao {
								a := accts[ai]
								if err := kw(a.name).WriteMap(func(kw func(string) restlicodec.Writer) error {
									for _, fi := range fo {
										switch fields[fi] {
										case "id":
											kw("id").WriteInt32(a.id)
										case "secret":
											kw("secret").WriteString(a.secret)
										case "tags":
											if err := kw("tags").WriteArray(func(iw func() restlicodec.Writer) error {
												for _, t := range a.tags {
													iw().WriteString(t)
												}
												return nil
											}); err != nil {
												return err
											}
										}
									}
									return nil
								}); err != nil {
									return err
								}
							}
							return nil
						})
					})
					stats["exclusion_encodings"]++
					if err != nil {
						violation("C09/exclusion/"+name+"/error", err.Error(), nil)
						continue
					}
					seen[w.Finalize()]++
				}
			}
		}
		if len(seen) != 1 {
			var outs []string
			for o := range seen {
				outs = append(outs, o)
			}
			sort.Strings(outs)
			violation("C09/exclusion/"+name+"/bytes-depend-on-supply-order-or-repetition", fmt.Sprintf("one value, one exclusion spec, %d different outputs, e.g. %s  and  %s", len(seen), outs[0], outs[len(outs)-1]), nil)
		} else {
			for o := range seen {
				if o != want[name] {
					violation("C09/exclusion/"+name+"/not-the-stripped-value", fmt.Sprintf("output %s, the value minus the excluded subtrees is %s", o, want[name]), nil)
				}
			}
		}
	}
}
