package main

import (
	"bufio"
	"encoding/json"
	"fmt"
	"os"
	"reflect"

	hc "verifharness/common"

	"github.com/PapaCharlie/go-restli/v2/restlicodec"
)

// C13: schema defaults.  For every record with defaulted fields and every subset of them omitted (documents and
// expectations exported by TLC from Values.tla), the document is decoded by the JSON, the three ROR2 and the untyped
// readers: each must yield Canon(doc) (defaults applied, present values win, nothing reported missing); the default
// constructor must yield the default instance; default-populated containers must not be shared between instances.

type defRow struct {
	Schema string         `json:"schema"`
	Kind   string         `json:"kind"`
	Av     map[string]any `json:"av"`
	Canon  map[string]any `json:"canon"`
	Json   map[string]any `json:"json"`
	Ror2   []any          `json:"ror2"`
}

// scribble mutates every reachable slice / map / byte slice of the value in place
func scribble(rv reflect.Value) int {
	n := 0
	switch rv.Kind() {
	case reflect.Ptr, reflect.Interface:
		if !rv.IsNil() {
			n += scribble(rv.Elem())
		}
	case reflect.Struct:
		for i := 0; i < rv.NumField(); i++ {
			n += scribble(rv.Field(i))
		}
	case reflect.Slice:
		for i := 0; i < rv.Len(); i++ {
			e := rv.Index(i)
			switch e.Kind() {
			case reflect.Uint8:
				e.SetUint(uint64(e.Uint()) ^ 0x55)
				n++
			case reflect.Int32, reflect.Int64:
				e.SetInt(e.Int() + 1000)
				n++
			case reflect.String:
				e.SetString(e.String() + "-scribbled")
				n++
			default:
				n += scribble(e)
			}
		}
	case reflect.Map:
		if rv.Len() > 0 || !rv.IsNil() {
			for _, k := range rv.MapKeys() {
				rv.SetMapIndex(k, reflect.Value{}) // delete every entry
				n++
			}
			if rv.Type().Key().Kind() == reflect.String && rv.Type().Elem().Kind() != reflect.Interface {
				rv.SetMapIndex(reflect.ValueOf("scribbled").Convert(rv.Type().Key()), reflect.Zero(rv.Type().Elem()))
				n++
			}
		}
	}
	return n
}

func runC13(rowsFile string, reserved map[string]map[string]bool, b *hc.Builder) {
	f, err := os.Open(rowsFile)
	if err != nil {
		panic(err)
	}
	sc := bufio.NewScanner(f)
	sc.Buffer(make([]byte, 1<<20), 1<<27)
	stats := map[string]int{}
	for sc.Scan() {
		var row defRow
		if err := json.Unmarshal(sc.Bytes(), &row); err != nil {
			panic(err)
		}
		typ, ok := registry[row.Schema]
		if !ok {
			continue
		}
		if row.Kind == "ctor" {
			stats["constructors"]++
			ctor, ok := defaultCtors[row.Schema]
			if !ok {
				violation("C13/no-default-constructor/"+row.Schema, "no New"+row.Schema+"WithDefaultValues is generated although the record carries defaulted fields (inherited through an included record)", map[string]any{"schema": row.Schema})
				continue
			}
			a, c := reflect.ValueOf(ctor()), reflect.ValueOf(ctor())
			if d := b.Diff(a, row.Canon, row.Schema); d != "" {
				violation("C13/constructor/"+diffPath(d), "the default instance differs from the schema defaults: "+d, map[string]any{"schema": row.Schema})
			}
			if scribble(a) > 0 {
				if d := b.Diff(c, row.Canon, row.Schema); d != "" {
					violation("C13/shared-default/constructor/"+diffPath(d), "mutating one default instance changed another: "+d, map[string]any{"schema": row.Schema})
				}
				if d := b.Diff(reflect.ValueOf(ctor()), row.Canon, row.Schema); d != "" {
					violation("C13/shared-default/constructor-later/"+diffPath(d), "mutating one default instance changed a later one: "+d, map[string]any{"schema": row.Schema})
				}
			}
			continue
		}
		stats["documents"]++
		omitted := fmt.Sprint(len(row.Canon["v"].([]any)) - len(row.Av["v"].([]any)))
		cs := map[string]any{"schema": row.Schema, "doc": row.Av}
		type reading struct {
			name string
			run  func() (reflect.Value, error)
		}
		doc := refJSON(b, row.Json, 0)
		readings := []reading{
			{"json", func() (reflect.Value, error) { return decode(flavours()[0], doc, typ) }},
			{"untyped", func() (reflect.Value, error) {
				p := reflect.New(typ)
				return p, p.Interface().(restlicodec.Unmarshaler).UnmarshalRestLi(restlicodec.NewInterfaceReader(b.PlainOf(row.Json)))
			}},
		}
		if ctor, ok := defaultCtors[row.Schema]; ok {
			// decoding INTO an instance that already carries the defaults (the constructor's result, or the target of an
			// earlier decode): a value present in the document still wins, nothing of the old content is merged in
			readings = append(readings, reading{"json/into-default-instance", func() (reflect.Value, error) {
				p := reflect.ValueOf(ctor())
				r, err := restlicodec.NewJsonReader([]byte(doc))
				if err != nil {
					return p, err
				}
				return p, p.Interface().(restlicodec.Unmarshaler).UnmarshalRestLi(r)
			}})
			readings = append(readings, reading{"json/into-previously-decoded-instance", func() (reflect.Value, error) {
				p := reflect.ValueOf(ctor())
				for k := 0; k < 2; k++ {
					r, err := restlicodec.NewJsonReader([]byte(doc))
					if err != nil {
						return p, err
					}
					if err := p.Interface().(restlicodec.Unmarshaler).UnmarshalRestLi(r); err != nil {
						return p, err
					}
				}
				return p, nil
			}})
		}
		if tm, ok := typedMap(b.PlainOf(row.Json)); ok {
			readings = append(readings, reading{"untyped/typed-map", func() (reflect.Value, error) {
				p := reflect.New(typ)
				return p, p.Interface().(restlicodec.Unmarshaler).UnmarshalRestLi(restlicodec.NewInterfaceReader(tm))
			}})
		}
		for _, fl := range flavours()[2:] {
			fl := fl
			readings = append(readings, reading{fl.name, func() (reflect.Value, error) {
				return decode(fl, refRor2(b, row.Ror2, reserved[fl.ror2], 0, atomText), typ)
			}})
		}
		var firstJSON reflect.Value
		for _, rd := range readings {
			var back reflect.Value
			err, pan := safely(func() (e error) { back, e = rd.run(); return e })
			stats["decodings"]++
			if pan != "" {
				violation("C13/"+rd.name+"/panic", "reader panicked: "+pan, cs)
				continue
			}
			if err != nil {
				violation("C13/"+rd.name+"/error/omitted="+omitted, "a document omitting only defaulted fields is rejected: "+err.Error(), cs)
				continue
			}
			if d := b.Diff(back, row.Canon, row.Schema); d != "" {
				violation("C13/"+rd.name+"/default-not-applied/"+diffPath(d), "decoded value differs from the document completed with the schema defaults: "+d, cs)
				continue
			}
			if rd.name == "json" {
				firstJSON = back
			}
		}
		// defaults are not shared: scribble over one decoded instance, look at a second and at one decoded afterwards
		if firstJSON.IsValid() {
			second, err := decode(flavours()[0], doc, typ)
			if err == nil && scribble(firstJSON) > 0 {
				if d := b.Diff(second, row.Canon, row.Schema); d != "" {
					violation("C13/shared-default/"+diffPath(d), "mutating a default-populated container of one instance changed another instance: "+d, cs)
				}
				third, err := decode(flavours()[0], doc, typ)
				if err == nil {
					if d := b.Diff(third, row.Canon, row.Schema); d != "" {
						violation("C13/shared-default-later/"+diffPath(d), "mutating a default-populated container changed instances decoded later: "+d, cs)
					}
				}
			}
		}
	}
	sb, _ := json.Marshal(map[string]any{"kind": "stats", "stats": stats, "violation_counts": vcount})
	out.Write(sb)
	out.WriteByte('\n')
}
