//go:build v2

package main

import "github.com/PapaCharlie/go-restli/v2/restlicodec"

// the few places where the two module generations spell the same thing differently

func requiredFields(names ...string) *restlicodec.RequiredFields {
	return restlicodec.NewRequiredFields().Add(names...)
}

func buildQueryParams(mw restlicodec.MapWriter) (string, error) {
	return restlicodec.BuildQueryParams(mw)
}

func newQueryWriter() restlicodec.Writer { return restlicodec.NewRestLiQueryParamsWriter() }

// resources deliberately absent from this generation's bindings
var c11ResourceLeftOut = map[string]bool{}
