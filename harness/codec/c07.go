package main

import (
	"bufio"
	"encoding/json"
	"errors"
	"fmt"
	"os"
	"reflect"
	"sort"
	"strings"

	hc "verifharness/common"

	"github.com/PapaCharlie/go-restli/v2/restlicodec"
)

// C07: field exclusion.  Part 1: (spec, scope) -> excluded?, every pair of PathSpec.tla's bound, against the real
// NewPathSpec(...).Matches.  Part 2: documents of Ent / Nest x exclusion specs: the real writers configured with the
// spec must emit exactly the stripped value; the real readers configured with it must reject iff the document carries
// an excluded value, and must not report excluded required fields as missing.

type matchRow struct {
	Spec     [][][]any `json:"spec"`
	Scope    [][]any   `json:"scope"`
	Excluded bool      `json:"excluded"`
}

type exclRow struct {
	Schema   string         `json:"schema"`
	Spec     [][][]any      `json:"spec"`
	Av       map[string]any `json:"av"`
	Json     map[string]any `json:"json"`
	Ror2     []any          `json:"ror2"`
	Stripped map[string]any `json:"stripped"`
	Carries  bool           `json:"carries"`
	Complete bool           `json:"complete"`
	Missing  [][]struct {
		Key []any `json:"key"`
		Idx int   `json:"idx"`
	} `json:"missing"`
}

func directives(b *hc.Builder, spec [][][]any) []string {
	var out []string
	for _, d := range spec {
		var segs []string
		for _, s := range d {
			segs = append(segs, string(b.C.Bytes(s)))
		}
		out = append(out, strings.Join(segs, "/"))
	}
	sort.Strings(out)
	return out
}

func runC07(matchFile, exclFile string, reserved map[string]map[string]bool, b *hc.Builder) {
	stats := map[string]int{}
	// ---- part 1
	f, err := os.Open(matchFile)
	if err != nil {
		panic(err)
	}
	sc := bufio.NewScanner(f)
	for sc.Scan() {
		var row matchRow
		if err := json.Unmarshal(sc.Bytes(), &row); err != nil {
			panic(err)
		}
		dirs := directives(b, row.Spec)
		var scope []string
		for _, s := range row.Scope {
			scope = append(scope, string(b.C.Bytes(s)))
		}
		stats["matches"]++
		var got bool
		_, pan := safely(func() error { got = restlicodec.NewPathSpec(dirs...).Matches(scope); return nil })
		cs := map[string]any{"directives": dirs, "scope": scope, "specified": row.Excluded}
		if pan != "" {
			violation("C07/matches/panic", pan, cs)
		} else if got != row.Excluded {
			kind := "other"
			for _, d := range dirs {
				for _, e := range dirs {
					if d != e && strings.HasPrefix(e, d+"/") {
						kind = "directive-is-prefix-of-another"
					}
				}
			}
			violation(fmt.Sprintf("C07/matches/%s/specified=%v", kind, row.Excluded), fmt.Sprintf("NewPathSpec(%q).Matches(%q) = %v, specified %v", dirs, scope, got, row.Excluded), cs)
		}
	}
	// ---- part 2
	f2, err := os.Open(exclFile)
	if err != nil {
		panic(err)
	}
	sc2 := bufio.NewScanner(f2)
	sc2.Buffer(make([]byte, 1<<20), 1<<27)
	for sc2.Scan() {
		var row exclRow
		if err := json.Unmarshal(sc2.Bytes(), &row); err != nil {
			panic(err)
		}
		typ := registry[row.Schema]
		dirs := directives(b, row.Spec)
		spec := restlicodec.NewPathSpec(dirs...)
		feat := row.Schema + "/spec=" + strings.Join(dirs, "+")
		cs := map[string]any{"schema": row.Schema, "directives": dirs, "doc": row.Av}
		stats["documents"]++
		// writers
		ptr := reflect.New(typ)
		b.Build(ptr.Elem(), row.Av)
		m := marshalerOf(ptr)
		type wfT struct {
			name string
			w    restlicodec.Writer
			json bool
		}
		writers := []wfT{}
		if row.Complete { // a Go value cannot lack a required field: writers are exercised on complete values only
			writers = []wfT{
				{"json", restlicodec.NewCompactJsonWriterWithExcludedFields(spec), true},
				{"pretty", restlicodec.NewPrettyJsonWriterWithExcludedFields(spec), true},
				{"header", restlicodec.NewRor2HeaderWriterWithExcludedFields(spec), false},
			}
		}
		for _, wf := range writers {
			err, pan := safely(func() error { return m.MarshalRestLi(wf.w) })
			stats["encodings"]++
			if pan != "" || err != nil {
				violation("C07/writer/"+wf.name+"/error/"+feat, fmt.Sprint(err, pan), cs)
				continue
			}
			wire := wf.w.Finalize()
			var d string
			if wf.json {
				dec := json.NewDecoder(strings.NewReader(wire))
				dec.UseNumber()
				var got any
				if err := dec.Decode(&got); err != nil {
					d = "invalid JSON: " + err.Error()
				} else {
					d = b.DiffJSON(got, row.Stripped, "$")
				}
			} else {
				toks, err := hc.LexRor2(wire)
				if err != nil {
					d = err.Error()
				} else {
					d = b.DiffRor2Tree(toks, row.Stripped, reserved["header"], false)
				}
			}
			if d != "" {
				kind := "leaks-or-drops"
				violation("C07/writer/"+wf.name+"/"+kind+"/"+feat, "the encoder configured with the exclusion spec did not emit exactly the value minus the excluded subtrees: "+d+"  output: "+clip(wire), cs)
			}
		}
		// readers
		var want []string
		for _, p := range row.Missing {
			var sb strings.Builder
			for i, seg := range p {
				if seg.Idx > 0 {
					fmt.Fprintf(&sb, "[%d]", seg.Idx-1)
				} else {
					if i > 0 {
						sb.WriteByte('.')
					}
					sb.Write(b.C.Bytes(seg.Key))
				}
			}
			want = append(want, sb.String())
		}
		sort.Strings(want)
		doc := refJSON(b, row.Json, 0)
		rdoc := refRor2(b, row.Ror2, reserved["header"], 0, atomText)
		for _, rf := range []struct {
			name string
			mk   func() (restlicodec.Reader, error)
		}{
			{"json", func() (restlicodec.Reader, error) {
				return restlicodec.NewJsonReaderWithExcludedFields([]byte(doc), spec, 0)
			}},
			{"json-null-members-first", func() (restlicodec.Reader, error) { // a null member carries no value and does not disturb the paths after it
				return restlicodec.NewJsonReaderWithExcludedFields([]byte(refJSON(b, row.Json, 6)), spec, 0)
			}},
			{"ror2", func() (restlicodec.Reader, error) { return restlicodec.NewRor2ReaderWithExcludedFields(rdoc, spec, 0) }},
			{"untyped", func() (restlicodec.Reader, error) {
				return restlicodec.NewInterfaceReaderWithExcludedFields(b.PlainOf(row.Json), spec, 0), nil
			}},
		} {
			back := reflect.New(typ)
			r, err := rf.mk()
			if err != nil {
				violation("C07/reader/"+rf.name+"/construct", err.Error(), cs)
				continue
			}
			err, pan := safely(func() error { return back.Interface().(restlicodec.Unmarshaler).UnmarshalRestLi(r) })
			stats["decodings"]++
			if pan != "" {
				violation("C07/reader/"+rf.name+"/panic/"+feat, pan, cs)
				continue
			}
			var ex restlicodec.ExcludedFieldError
			isEx := errors.As(err, &ex)
			if isEx != row.Carries {
				if row.Carries {
					violation("C07/reader/"+rf.name+"/excluded-value-accepted/"+feat, fmt.Sprintf("the document carries a value at an excluded path but the decoder did not reject it (error: %v)", err), cs)
				} else {
					violation("C07/reader/"+rf.name+"/rejected-without-excluded-value/"+feat, "the decoder rejected a document that carries nothing excluded: "+err.Error(), cs)
				}
				continue
			}
			if row.Carries {
				continue
			}
			var mf *restlicodec.MissingRequiredFieldsError
			var got []string
			if err != nil {
				if !errors.As(err, &mf) {
					violation("C07/reader/"+rf.name+"/other-error/"+feat, err.Error(), cs)
					continue
				}
				got = append(got, mf.Fields...)
				sort.Strings(got)
			}
			if strings.Join(got, ",") != strings.Join(want, ",") {
				violation("C07/reader/"+rf.name+"/missing-with-exclusion/"+feat, fmt.Sprintf("missing required fields reported as %v, specified %v (excluded required fields are not to be reported)", got, want), cs)
			}
		}
		// leading scope to ignore: the same document wrapped k levels deep, read with leadingScopeToIgnore = k
		for k := 1; k <= 2; k++ {
			wrapped := doc
			for i := 0; i < k; i++ {
				wrapped = fmt.Sprintf(`{"w%d":%s}`, i, wrapped)
			}
			r, _ := restlicodec.NewJsonReaderWithExcludedFields([]byte(wrapped), spec, k)
			back := reflect.New(typ)
			var read func(r restlicodec.Reader, depth int) error
			read = func(r restlicodec.Reader, depth int) error {
				if depth == 0 {
					return back.Interface().(restlicodec.Unmarshaler).UnmarshalRestLi(r)
				}
				return r.ReadMap(func(r restlicodec.Reader, _ string) error { return read(r, depth-1) })
			}
			err, pan := safely(func() error { return read(r, k) })
			stats["decodings"]++
			var ex restlicodec.ExcludedFieldError
			if pan != "" {
				violation(fmt.Sprintf("C07/reader/ignore=%d/panic/%s", k, feat), pan, cs)
			} else if errors.As(err, &ex) != row.Carries {
				violation(fmt.Sprintf("C07/reader/ignore=%d/carries=%v/%s", k, row.Carries, feat), fmt.Sprintf("document wrapped %d levels deep, leading scope to ignore %d: excluded-field verdict %v, specified %v", k, k, errors.As(err, &ex), row.Carries), cs)
			}
		}
	}
	sb, _ := json.Marshal(map[string]any{"kind": "stats", "stats": stats, "violation_counts": vcount})
	out.Write(sb)
	out.WriteByte('\n')
}
