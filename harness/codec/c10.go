package main

import (
	"bufio"
	"encoding/json"
	"fmt"
	"math/rand"
	"os"
	"reflect"
	"strings"

	hc "verifharness/common"
)

// C10: Equals / hash contract.  The oracle for "are these two values equal" is the specification's normal form
// (Values.tla Norm): Equals(a, b) must hold iff Norm(a) = Norm(b) (pairs involving NaN excepted), must be symmetric,
// equal values must hash equally, and a hash must not depend on how the value was constructed.

type eqRow struct {
	Schema string          `json:"schema"`
	Av     map[string]any  `json:"av"`
	Norm   json.RawMessage `json:"norm"`
	KNorm  json.RawMessage `json:"knorm"`
}

type inst struct {
	v      reflect.Value // pointer to the value
	norm   string
	knorm  string
	hasNaN bool
	feat   string
	av     map[string]any
	how    string
}

func callHash(v reflect.Value, method string) (any, bool) {
	m := v.MethodByName(method)
	if !m.IsValid() {
		m = v.Elem().MethodByName(method)
	}
	if !m.IsValid() {
		return nil, false
	}
	return m.Call(nil)[0].Interface(), true
}

func callEq(a, b reflect.Value, method string) (bool, bool) {
	m := a.MethodByName(method)
	arg := b
	if !m.IsValid() {
		m = a.Elem().MethodByName(method)
		arg = b.Elem()
	}
	if !m.IsValid() {
		return false, false
	}
	if m.Type().In(0) != arg.Type() {
		if arg.Kind() == reflect.Ptr && m.Type().In(0) == arg.Type().Elem() {
			arg = arg.Elem()
		} else {
			return false, false
		}
	}
	return m.Call([]reflect.Value{arg})[0].Bool(), true
}

// nilEmpties turns empty slices / maps of the value into nil ones (and back): the same abstract value
func nilEmpties(rv reflect.Value) {
	switch rv.Kind() {
	case reflect.Ptr:
		if !rv.IsNil() {
			nilEmpties(rv.Elem())
		}
	case reflect.Struct:
		for i := 0; i < rv.NumField(); i++ {
			if rv.Field(i).CanSet() {
				nilEmpties(rv.Field(i))
			}
		}
	case reflect.Slice, reflect.Map:
		if !rv.IsNil() && rv.Len() == 0 {
			rv.Set(reflect.Zero(rv.Type()))
		} else if rv.Kind() == reflect.Slice {
			for i := 0; i < rv.Len(); i++ {
				nilEmpties(rv.Index(i))
			}
		}
	}
}

func runC10(rowsFile string, seed int64, b *hc.Builder) {
	rng := rand.New(rand.NewSource(seed))
	f, err := os.Open(rowsFile)
	if err != nil {
		panic(err)
	}
	sc := bufio.NewScanner(f)
	sc.Buffer(make([]byte, 1<<20), 1<<27)
	bySchema := map[string][]*inst{}
	for sc.Scan() {
		var row eqRow
		if err := json.Unmarshal(sc.Bytes(), &row); err != nil {
			panic(err)
		}
		typ, ok := registry[row.Schema]
		if !ok {
			continue
		}
		mk := func(how string) *inst {
			ptr := reflect.New(typ)
			b.Build(ptr.Elem(), row.Av)
			return &inst{v: ptr, norm: string(row.Norm), knorm: string(row.KNorm), hasNaN: hasNaN(row.Av), feat: hc.FeatureKey(row.Av), av: row.Av, how: how}
		}
		a := mk("built")
		c := mk("rebuilt") // a second, independent construction (other pointers, maps populated again)
		d := mk("nil-for-empty")
		nilEmpties(d.v)
		bySchema[row.Schema] = append(bySchema[row.Schema], a, c, d)
		// round-tripped copy
		if wire, err := encode(flavours()[0], marshalerOf(a.v)); err == nil {
			if back, err := decode(flavours()[0], wire, typ); err == nil {
				// the decoder fills defaults: only a copy of the same abstract value when nothing was defaulted
				if b.Diff(back, row.Av, row.Schema) == "" {
					bySchema[row.Schema] = append(bySchema[row.Schema], &inst{v: back, norm: a.norm, knorm: a.knorm, hasNaN: a.hasNaN, feat: a.feat, av: row.Av, how: "round-tripped"})
				}
			}
		}
	}
	stats := map[string]int{}
	for schema, pool := range bySchema {
		stats["values"] += len(pool)
		hashes := make([]any, len(pool))
		for i, x := range pool {
			hashes[i], _ = callHash(x.v, "ComputeHash")
		}
		// the hash is a function of the value alone: a caller that goes on using the returned running hash (adding its own
		// data to it) must not change what the same value -- or a nil value of the type -- hashes to afterwards
		probe := []reflect.Value{pool[0].v, pool[len(pool)/2].v}
		if t := pool[0].v.Type(); t.Kind() == reflect.Ptr && t.Elem().Kind() == reflect.Struct {
			probe = append(probe, reflect.Zero(t)) // a nil record hashes too (pointer receivers)
		}
		for _, pv := range probe {
			if pv.Kind() != reflect.Ptr {
				continue
			}
			h1, ok := callHash(pv, "ComputeHash")
			if !ok {
				continue
			}
			before := fmt.Sprint(h1)
			if ext, ok := callHash(pv, "ComputeHash"); ok {
				if a, ok := ext.(interface{ AddString(string) }); ok {
					a.AddString("the caller extends the running hash")
				}
			}
			h3, _ := callHash(pv, "ComputeHash")
			stats["hash_purity_probes"]++
			if after := fmt.Sprint(h3); after != before {
				violation("C10/hash-changes-after-caller-used-it/"+schema, fmt.Sprintf("ComputeHash of the same value (nil: %v): %s, after a caller extended an earlier result: %s", pv.IsNil(), before, after), map[string]any{"schema": schema})
			}
		}
		isCK := false
		if _, ok := callHash(pool[0].v, "ComputeComplexKeyHash"); ok {
			isCK = true
		}
		n := len(pool)
		budget := 400000
		all := n*n <= budget
		pairs := n * n
		if !all {
			pairs = budget
		}
		for p := 0; p < pairs; p++ {
			var i, j int
			if all {
				i, j = p/n, p%n
			} else {
				i, j = rng.Intn(n), rng.Intn(n)
				if p%3 == 0 { // bias towards pairs of one abstract value
					j = (i/4)*4 + rng.Intn(4)
					if j >= n {
						j = i
					}
				}
			}
			x, y := pool[i], pool[j]
			if schema == "Nest" && (hasRaw(x.av) || hasRaw(y.av)) {
				continue // raw records are never equal by design
			}
			stats["pairs"]++
			eq, ok := callEq(x.v, y.v, "Equals")
			if !ok {
				continue
			}
			cs := map[string]any{"schema": schema, "a": x.av, "b": y.av, "a_how": x.how, "b_how": y.how}
			want := x.norm == y.norm
			if x.hasNaN || y.hasNaN {
				if eq && !want {
					violation("C10/equals-true-for-different-values/"+x.feat+"|"+y.feat, "Equals holds for values the specification distinguishes", cs)
				}
			} else if eq != want {
				if want {
					violation("C10/equals-false-for-equal-values/"+x.how+"~"+y.how+"/"+x.feat, fmt.Sprintf("Equals is false for two representations (%s, %s) of one abstract value", x.how, y.how), cs)
				} else {
					violation("C10/equals-true-for-different-values/"+x.feat+"|"+y.feat, "Equals holds for values the specification distinguishes", cs)
				}
				continue
			}
			if eq2, _ := callEq(y.v, x.v, "Equals"); eq2 != eq {
				violation("C10/equals-not-symmetric/"+x.feat+"|"+y.feat, "Equals(a, b) differs from Equals(b, a)", cs)
			}
			if eq && !reflect.DeepEqual(hashes[i], hashes[j]) {
				f := x.feat
				if y.feat != f {
					f += "|" + y.feat
				}
				violation("C10/equal-values-hash-differently/"+f, fmt.Sprintf("Equals holds but the hashes differ (%v vs %v)", hashes[i], hashes[j]), cs)
			}
			if want && !x.hasNaN && !reflect.DeepEqual(hashes[i], hashes[j]) && !eq {
				// already reported as equals-false
			}
			if isCK {
				keq, _ := callEq(x.v, y.v, "ComplexKeyEquals")
				kwant := x.knorm == y.knorm
				if keq != kwant {
					violation("C10/complex-key-equals/"+x.feat+"|"+y.feat, fmt.Sprintf("ComplexKeyEquals is %v, key parts equal: %v", keq, kwant), cs)
				}
				hx, _ := callHash(x.v, "ComputeComplexKeyHash")
				hy, _ := callHash(y.v, "ComputeComplexKeyHash")
				if keq && !reflect.DeepEqual(hx, hy) {
					violation("C10/complex-key-hash/"+x.feat+"|"+y.feat, "complex keys equal on their key part hash differently", cs)
				}
			}
		}
	}
	sb, _ := json.Marshal(map[string]any{"kind": "stats", "stats": stats, "violation_counts": vcount})
	out.Write(sb)
	out.WriteByte('\n')
	_ = strings.Join
}
