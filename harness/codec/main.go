// Harness for the codec properties on generated VT bindings (C01 round trip, C03 conformance in both directions;
// further modes serve C09 / C10 / C13).  Every value enumerated by TLC from Values.tla is built by reflection,
// encoded by the real writers in every flavour, compared with the specification's JSON tree / ROR2 token stream,
// decoded by the matching real reader and compared with the specification's canonical value; reference documents
// produced independently of the library are fed to the real readers.
package main

import (
	"bufio"
	"bytes"
	"encoding/json"
	"flag"
	"fmt"
	"os"
	"reflect"
	"sort"
	"strconv"
	"strings"

	hc "verifharness/common"

	"github.com/PapaCharlie/go-restli/v2/restlicodec"
)

type Row struct {
	Schema string         `json:"schema"`
	Av     map[string]any `json:"av"`
	Canon  map[string]any `json:"canon"`
	Json   map[string]any `json:"json"`  // tree of av (what an encoder emits)
	CJson  map[string]any `json:"cjson"` // tree of canon
	Ror2   []any          `json:"ror2"`
}

var out *bufio.Writer
var vcount = map[string]int{}

func violation(key, what string, c any) {
	vcount[key]++
	if vcount[key] > 2 {
		return
	}
	b, _ := json.Marshal(map[string]any{"kind": "violation", "key": key, "what": what, "case": c})
	out.Write(b)
	out.WriteByte('\n')
}

func marshalerOf(ptr reflect.Value) restlicodec.Marshaler {
	if m, ok := ptr.Interface().(restlicodec.Marshaler); ok {
		return m
	}
	return ptr.Elem().Interface().(restlicodec.Marshaler)
}

func safely(f func() error) (err error, panicked string) {
	defer func() {
		if r := recover(); r != nil {
			panicked = fmt.Sprint(r)
		}
	}()
	return f(), ""
}

type flavour struct {
	name   string
	writer func() restlicodec.Writer
	reader func(s string) (restlicodec.Reader, error)
	ror2   string // "" for JSON, else context
}

func flavours() []flavour {
	jsonReader := func(s string) (restlicodec.Reader, error) { return restlicodec.NewJsonReader([]byte(s)) }
	return []flavour{
		{"json", restlicodec.NewCompactJsonWriter, jsonReader, ""},
		{"pretty", restlicodec.NewPrettyJsonWriter, jsonReader, ""},
		{"header", restlicodec.NewRor2HeaderWriter, func(s string) (restlicodec.Reader, error) { return restlicodec.NewRor2Reader(s) }, "header"},
		{"path", func() restlicodec.Writer { return restlicodec.NewRor2PathWriter() }, func(s string) (restlicodec.Reader, error) { return restlicodec.NewRor2Reader(s) }, "path"},
		{"query", nil, nil, "query"},
	}
}

func encode(fl flavour, m restlicodec.Marshaler) (string, error) {
	if fl.name == "query" {
		s, err := buildQueryParams(func(kw func(string) restlicodec.Writer) error { return m.MarshalRestLi(kw("p")) })
		if err != nil {
			return "", err
		}
		return strings.TrimPrefix(s, "p="), nil
	}
	w := fl.writer()
	if err := m.MarshalRestLi(w); err != nil {
		return "", err
	}
	return w.Finalize(), nil
}

func decode(fl flavour, s string, typ reflect.Type) (reflect.Value, error) {
	ptr := reflect.New(typ)
	var r restlicodec.Reader
	var err error
	if fl.name == "query" {
		var qr restlicodec.QueryParamsReader
		qr, err = restlicodec.ParseQueryParams("p=" + s)
		if err != nil {
			return ptr, err
		}
		// as generated DecodeQueryParams implementations do: the parameter is a field of the query-params record
		u, ok := ptr.Interface().(restlicodec.Unmarshaler)
		if !ok {
			return ptr, fmt.Errorf("%s is not an Unmarshaler", typ)
		}
		seen := false
		err = qr.ReadRecord(requiredFields("p"), func(r restlicodec.Reader, field string) error {
			if field == "p" {
				seen = true
				return u.UnmarshalRestLi(r)
			}
			return r.Skip()
		})
		if err == nil && !seen {
			err = fmt.Errorf("parameter p lost")
		}
		return ptr, err
	} else {
		r, err = fl.reader(s)
		if err != nil {
			return ptr, err
		}
	}
	u, ok := ptr.Interface().(restlicodec.Unmarshaler)
	if !ok {
		return ptr, fmt.Errorf("%s is not an Unmarshaler", typ)
	}
	return ptr, u.UnmarshalRestLi(r)
}

// reference encoders, independent of the library ------------------------------------------------------------------

// refJSON renders the specification's tree with encoding/json; variant changes key order / whitespace / escapes
func refJSON(b *hc.Builder, tree map[string]any, variant int) string {
	var sb strings.Builder
	var walk func(t map[string]any, depth int)
	raw := false // inside a raw record every member is data: nothing is injected there
	ws := func() {
		if variant == 2 {
			sb.WriteString(" \n\t ")
		}
	}
	walk = func(t map[string]any, depth int) {
		switch t["j"] {
		case "obj":
			entries := append([]any{}, t["v"].([]any)...)
			if variant == 1 {
				for i, j := 0, len(entries)-1; i < j; i, j = i+1, j-1 {
					entries[i], entries[j] = entries[j], entries[i]
				}
			}
			sb.WriteByte('{')
			ws()
			if isRec, _ := t["r"].(bool); isRec && !raw && variant == 3 && depth < 3 { // an unknown field of each shape, first
				sb.WriteString(`"zz_unknown_obj":{"a":[1,{"b":null}],"c":"x"},"zz_unknown_arr":[[],{}],"zz_unknown_prim":1.5e3`)
				if len(entries) > 0 {
					sb.WriteByte(',')
				}
			}
			if isRec, _ := t["r"].(bool); isRec && !raw && variant == 6 { // a null member ("absent or null") before the others
				sb.WriteString(`"zz_null":null`)
				if len(entries) > 0 {
					sb.WriteByte(',')
				}
			}
			for i, e := range entries {
				em := e.(map[string]any)
				if i > 0 {
					sb.WriteByte(',')
					ws()
				}
				kb, _ := json.Marshal(string(b.C.Bytes(em["k"].([]any))))
				sb.Write(kb)
				ws()
				sb.WriteByte(':')
				ws()
				wasRaw := raw
				if len(em["k"].([]any)) == 1 && em["k"].([]any)[0] == "raw" {
					raw = true
				}
				walk(em["v"].(map[string]any), depth+1)
				raw = wasRaw
			}
			if isRec, _ := t["r"].(bool); isRec && !raw && variant == 4 && depth < 3 { // unknown fields last
				if len(entries) > 0 {
					sb.WriteByte(',')
				}
				sb.WriteString(`"zz_unknown":{"deep":[{"x":[true,false,null]}]}`)
			}
			ws()
			sb.WriteByte('}')
		case "arr":
			sb.WriteByte('[')
			for i, it := range t["v"].([]any) {
				if i > 0 {
					sb.WriteByte(',')
					ws()
				}
				walk(it.(map[string]any), depth+1)
			}
			sb.WriteByte(']')
		default:
			plain := b.PlainOf(t)
			if s, ok := plain.(string); ok && variant == 5 {
				// alternative legal escapes: every ASCII character as \u00XX, '/' as \/
				sb.WriteByte('"')
				for _, r := range s {
					if r < 0x80 {
						fmt.Fprintf(&sb, "\\u%04x", r)
					} else if r > 0xffff {
						r1, r2 := utf16pair(r)
						fmt.Fprintf(&sb, "\\u%04x\\u%04x", r1, r2)
					} else {
						fmt.Fprintf(&sb, "\\u%04x", r)
					}
				}
				sb.WriteByte('"')
				return
			}
			if f, ok := plain.(float32); ok {
				plain = json.Number(fmt32(f))
			}
			pb, err := json.Marshal(plain)
			if err != nil {
				panic(err)
			}
			sb.Write(pb)
		}
	}
	walk(tree, 0)
	return sb.String()
}

func fmt32(f float32) string {
	b, _ := json.Marshal(f)
	return string(b)
}

func utf16pair(r rune) (rune, rune) {
	r -= 0x10000
	return 0xd800 + (r>>10)&0x3ff, 0xdc00 + r&0x3ff
}

// refRor2 renders the specification's token stream: data characters are percent-encoded when reserved in the context
// (variant 1: every non-alphanumeric data byte is percent-encoded, which is equally legal)
func refRor2(b *hc.Builder, toks []any, reserved map[string]bool, variant int, atomText func(string) string) string {
	var sb strings.Builder
	for _, t := range toks {
		tm := t.(map[string]any)
		if atom, _ := tm["atom"].(bool); atom {
			at := atomText(tm["c"].(string))
			if reserved["+"] {
				at = strings.ReplaceAll(at, "+", "%2B") // the exponent sign is reserved in this context
			}
			sb.WriteString(at)
			continue
		}
		data := b.C.Bytes([]any{tm["c"]})
		if tm["d"].(bool) {
			sb.Write(data)
			continue
		}
		for _, x := range data {
			isAlnum := (x >= 'a' && x <= 'z') || (x >= 'A' && x <= 'Z') || (x >= '0' && x <= '9')
			if reserved[hc.ByteClass(x)] || x >= 0x80 || x < 0x20 || x == 0x7f || (variant == 1 && !isAlnum) {
				fmt.Fprintf(&sb, "%%%02X", x)
			} else {
				sb.WriteByte(x)
			}
		}
	}
	return sb.String()
}

func atomText(a string) string {
	switch a {
	case "+Inf":
		return "Infinity"
	case "-Inf":
		return "-Infinity"
	case "NaN", "true", "false", "null":
		return a
	case "-0":
		return "-0.0"
	}
	if hc.IsIntAtom(a) {
		return fmt.Sprint(hc.IntAtom(a))
	}
	f := hc.FloatAtom(a, 64)
	if strings.HasSuffix(a, "F32") {
		f = hc.FloatAtom(a, 32)
	}
	return strconv.FormatFloat(f, 'g', -1, 64)
}

func hasNaN(av map[string]any) bool {
	b, _ := json.Marshal(av)
	return bytes.Contains(b, []byte(`"NaN"`))
}

func callEquals(a, b reflect.Value) (bool, bool) {
	m := a.MethodByName("Equals")
	if !m.IsValid() {
		return false, false
	}
	arg := b
	if m.Type().In(0) != b.Type() {
		if b.Kind() == reflect.Ptr && m.Type().In(0) == b.Type().Elem() {
			arg = b.Elem()
		} else {
			return false, false
		}
	}
	return m.Call([]reflect.Value{arg})[0].Bool(), true
}

func main() {
	in := flag.String("in", "", "rows exported by TLC")
	reservedFile := flag.String("reserved", "", "reserved sets exported by TLC")
	seed := flag.Int64("seed", 1, "")
	mode := flag.String("mode", "codec", "codec | c09 | c10 | c13 | c11 | c06 | c07")
	aux := flag.String("aux", "", "second input file of the mode")
	order := flag.Int("order", 0, "c09: rotation of the flavour order")
	flag.Parse()
	flavourOrder = *order
	out = bufio.NewWriterSize(os.Stdout, 1<<20)
	defer out.Flush()
	var enums hc.EnumTable
	eb, err := os.ReadFile("enums.json")
	if err != nil {
		eb, err = os.ReadFile(os.Getenv("VT_ENUMS"))
	}
	if err != nil {
		panic(err)
	}
	json.Unmarshal(eb, &enums)
	var rs struct {
		Reserved map[string][]string `json:"reserved"`
	}
	rb, _ := os.ReadFile(*reservedFile)
	if err := json.Unmarshal(rb, &rs); err != nil {
		panic(err)
	}
	reserved := map[string]map[string]bool{}
	for ctx, l := range rs.Reserved {
		reserved[ctx] = map[string]bool{}
		for _, x := range l {
			reserved[ctx][x] = true
		}
	}
	b := &hc.Builder{C: hc.NewConc(*seed), Enums: enums}
	switch *mode {
	case "c09":
		runC09(*aux, *in, *seed, b)
		return
	case "c10":
		runC10(*in, *seed, b)
		return
	case "c13":
		runC13(*in, reserved, b)
		return
	case "c11":
		runC11(*in, b)
		return
	case "c06":
		runC06(*in, reserved, b)
		return
	case "c07":
		runC07(*aux, *in, reserved, b)
		return
	case "c04":
		stride := 7
		if *aux != "" {
			fmt.Sscan(*aux, &stride)
		}
		runC04(*in, b, stride)
		return
	}
	f, err := os.Open(*in)
	if err != nil {
		panic(err)
	}
	sc := bufio.NewScanner(f)
	sc.Buffer(make([]byte, 1<<20), 1<<27)
	stats := map[string]int{}
	for sc.Scan() {
		var row Row
		if err := json.Unmarshal(sc.Bytes(), &row); err != nil {
			panic(err)
		}
		typ, ok := registry[row.Schema]
		if !ok {
			continue
		}
		stats["values"]++
		// now and then an encoding FAILS in between (a record holding a union with no member set, after other fields were
		// already written): whatever the failed call left behind must not reach the encodings that follow
		if stats["values"]%25 == 1 {
			if nt, ok := registry["Nest"]; ok {
				bad := reflect.New(nt)
				if lt, ok := registry["Leaf"]; ok {
					if f := bad.Elem().FieldByName("Arr"); f.IsValid() && f.Kind() == reflect.Slice && f.Type().Elem() == lt {
						f.Set(reflect.MakeSlice(f.Type(), 2, 2)) // fields before `u` carry content
					}
				}
				for _, fl := range flavours() {
					_, err := encode(fl, marshalerOf(bad))
					stats["failing_encodings"]++
					if err == nil {
						violation("C11/union/encode-valid=false-error=false/Nest.u/members=", "a record holding a union without any member was encoded", nil)
					}
				}
			}
		}
		feat := hc.FeatureKey(row.Av)
		ptr := reflect.New(typ)
		b.Build(ptr.Elem(), row.Av)
		if d := b.Diff(ptr, row.Av, row.Schema); d != "" {
			panic("harness: built value does not carry the abstract value: " + d)
		}
		canonPtr := reflect.New(typ)
		b.Build(canonPtr.Elem(), row.Canon)
		m := marshalerOf(ptr)
		cs := func(extra map[string]any) map[string]any {
			c := map[string]any{"schema": row.Schema, "av": row.Av, "seed": *seed, "feature": feat}
			for k, v := range extra {
				c[k] = v
			}
			return c
		}
		for _, fl := range flavours() {
			var wire string
			err, pan := safely(func() (e error) { wire, e = encode(fl, m); return e })
			stats["encodings"]++
			if pan != "" {
				violation("C01/"+fl.name+"/encode-panic/"+feat, "encoder panicked: "+pan, cs(nil))
				continue
			}
			if err != nil {
				violation("C01/"+fl.name+"/encode-error/"+feat, "a valid value could not be encoded: "+err.Error(), cs(nil))
				continue
			}
			// ---- C03 emit direction: the output against the independent oracle
			if fl.ror2 == "" {
				dec := json.NewDecoder(strings.NewReader(wire))
				dec.UseNumber()
				var got any
				if err := dec.Decode(&got); err != nil || !json.Valid([]byte(wire)) {
					violation("C03/emit/"+fl.name+"/invalid-json/"+feat, fmt.Sprintf("output is not valid JSON (%v): %s", err, clip(wire)), cs(map[string]any{"wire": wire}))
				} else if d := b.DiffJSON(got, row.Json, row.Schema); d != "" {
					violation("C03/emit/"+fl.name+"/tree/"+feat, "output does not denote the value: "+d, cs(map[string]any{"wire": wire}))
				}
			} else {
				toks, err := hc.LexRor2(wire)
				if err != nil {
					violation("C03/emit/"+fl.name+"/lex/"+feat, err.Error(), cs(map[string]any{"wire": wire}))
				} else if d := b.DiffRor2Tree(toks, row.Json, reserved[fl.ror2], fl.name == "query"); d != "" {
					violation("C03/emit/"+fl.name+"/tokens/"+feat, "ROR2 output differs from the protocol encoding: "+d+"  output: "+clip(wire), cs(map[string]any{"wire": wire}))
				}
			}
			// ---- C01: decode what was encoded
			var back reflect.Value
			err, pan = safely(func() (e error) { back, e = decode(fl, wire, typ); return e })
			stats["decodings"]++
			if pan != "" {
				violation("C01/"+fl.name+"/decode-panic/"+feat, "decoder panicked on the encoder's own output: "+pan, cs(map[string]any{"wire": wire}))
				continue
			}
			if err != nil {
				violation("C01/"+fl.name+"/decode-error/"+feat, "the encoder's own output is rejected: "+err.Error()+"  wire: "+clip(wire), cs(map[string]any{"wire": wire}))
				continue
			}
			if d := b.Diff(back, row.Canon, row.Schema); d != "" {
				violation("C01/"+fl.name+"/roundtrip/"+diffPath(d)+"/"+feat, "decode(encode(v)) differs from v: "+d+"  wire: "+clip(wire), cs(map[string]any{"wire": wire}))
				continue
			}
			if !hasNaN(row.Av) && !hasRaw(row.Av) {
				if eq, ok := callEquals(back, canonPtr); ok && !eq {
					violation("C01/"+fl.name+"/equals/"+feat, "the type's own Equals says the round-tripped value differs", cs(map[string]any{"wire": wire}))
				}
			}
		}
		// ---- C03 accept direction: conforming documents produced independently of the library
		for variant := 0; variant <= 5; variant++ {
			specials := strings.Contains(string(mustJSON(row.CJson)), `"+Inf"`) || strings.Contains(string(mustJSON(row.CJson)), `"-Inf"`) || hasNaN(row.Canon)
			_ = specials
			doc := refJSON(b, row.Json, variant)
			var back reflect.Value
			err, pan := safely(func() (e error) { back, e = decode(flavours()[0], doc, typ); return e })
			stats["reference_documents"]++
			vn := []string{"canonical", "reversed-keys", "whitespace", "unknown-fields-first", "unknown-fields-last", "unicode-escapes"}[variant]
			if pan != "" {
				violation("C03/accept/json/"+vn+"/panic/"+feat, "reader panicked on a conforming document: "+pan, cs(map[string]any{"doc": doc}))
			} else if err != nil {
				violation("C03/accept/json/"+vn+"/rejected/"+feat, "a conforming document is rejected: "+err.Error()+"  doc: "+clip(doc), cs(map[string]any{"doc": doc}))
			} else if d := b.Diff(back, row.Canon, row.Schema); d != "" {
				violation("C03/accept/json/"+vn+"/value/"+diffPath(d)+"/"+feat, "a conforming document decodes to another value: "+d+"  doc: "+clip(doc), cs(map[string]any{"doc": doc}))
			}
		}
		for _, fl := range flavours()[2:] {
			for variant := 0; variant <= 1; variant++ {
				doc := refRor2(b, row.Ror2, reserved[fl.ror2], variant, atomText)
				var back reflect.Value
				err, pan := safely(func() (e error) { back, e = decode(fl, doc, typ); return e })
				stats["reference_documents"]++
				vn := []string{"minimal-escapes", "all-escaped"}[variant]
				if pan != "" {
					violation("C03/accept/"+fl.name+"/"+vn+"/panic/"+feat, "reader panicked on a conforming ROR2 string: "+pan, cs(map[string]any{"doc": doc}))
				} else if err != nil {
					violation("C03/accept/"+fl.name+"/"+vn+"/rejected/"+feat, "a conforming ROR2 string is rejected: "+err.Error()+"  doc: "+clip(doc), cs(map[string]any{"doc": doc}))
				} else if d := b.Diff(back, row.Canon, row.Schema); d != "" {
					violation("C03/accept/"+fl.name+"/"+vn+"/value/"+diffPath(d)+"/"+feat, "a conforming ROR2 string decodes to another value: "+d+"  doc: "+clip(doc), cs(map[string]any{"doc": doc}))
				}
			}
		}
		// ---- untyped reader: the same document as plain Go data
		{
			plain := b.PlainOf(row.Json)
			ptr2 := reflect.New(typ)
			err, pan := safely(func() error {
				return ptr2.Interface().(restlicodec.Unmarshaler).UnmarshalRestLi(restlicodec.NewInterfaceReader(plain))
			})
			stats["untyped_documents"]++
			if pan != "" {
				violation("C03/accept/untyped/panic/"+feat, "untyped reader panicked: "+pan, cs(nil))
			} else if err != nil {
				violation("C03/accept/untyped/rejected/"+feat, "untyped reader rejects the value's plain form: "+err.Error(), cs(nil))
			} else if d := b.Diff(ptr2, row.Canon, row.Schema); d != "" {
				violation("C03/accept/untyped/value/"+diffPath(d)+"/"+feat, "untyped reader yields another value: "+d, cs(nil))
			}
		}
	}
	keys := make([]string, 0, len(vcount))
	for k := range vcount {
		keys = append(keys, k)
	}
	sort.Strings(keys)
	sb, _ := json.Marshal(map[string]any{"kind": "stats", "stats": stats, "violation_counts": vcount})
	out.Write(sb)
	out.WriteByte('\n')
}

// diffPath: the schema path of the first difference, without indexes and map keys
func diffPath(d string) string {
	p := d
	if i := strings.Index(p, ": "); i >= 0 {
		p = p[:i]
	}
	var sb strings.Builder
	depth := 0
	for _, r := range p {
		switch {
		case r == '[':
			depth++
		case r == ']':
			depth--
			sb.WriteString("[]")
		case depth == 0:
			sb.WriteRune(r)
		}
	}
	return sb.String()
}

// hasRaw: the value carries a raw record, whose Equals is never true by design
func hasRaw(av map[string]any) bool {
	if av["t"] != "rec" {
		return false
	}
	for _, e := range av["v"].([]any) {
		if e.(map[string]any)["k"] == "raw" {
			return true
		}
	}
	return false
}

func mustJSON(v any) []byte { b, _ := json.Marshal(v); return b }

func clip(s string) string {
	if len(s) > 300 {
		return s[:300] + "..."
	}
	return s
}

// typedMap turns a decoded-JSON style document whose members all have one scalar Go type into the TYPED map an
// application may equally hand to the untyped reader (map[string]int32, map[string]bool, map[string]string ...).
func typedMap(plain any) (any, bool) {
	m, ok := plain.(map[string]any)
	if !ok || len(m) == 0 {
		return nil, false
	}
	var t reflect.Type
	for _, v := range m {
		if v == nil {
			return nil, false
		}
		vt := reflect.TypeOf(v)
		switch vt.Kind() {
		case reflect.Bool, reflect.Int32, reflect.Int64, reflect.Float32, reflect.Float64, reflect.String:
		default:
			return nil, false
		}
		if t != nil && vt != t {
			return nil, false
		}
		t = vt
	}
	out := reflect.MakeMap(reflect.MapOf(reflect.TypeOf(""), t))
	for k, v := range m {
		out.SetMapIndex(reflect.ValueOf(k), reflect.ValueOf(v))
	}
	return out.Interface(), true
}
