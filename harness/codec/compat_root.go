//go:build root

package main

import "github.com/PapaCharlie/go-restli/v2/restlicodec"

// the few places where the two module generations spell the same thing differently

func requiredFields(names ...string) restlicodec.RequiredFields {
	return restlicodec.RequiredFields(names)
}

func buildQueryParams(mw restlicodec.MapWriter) (string, error) {
	w := restlicodec.NewRestLiQueryParamsWriter()
	err := w.WriteParams(mw)
	return w.Finalize(), err
}

func newQueryWriter() restlicodec.Writer { return restlicodec.NewRestLiQueryParamsWriter() }

// resources deliberately absent from this generation's bindings (partial_update with return entity does not compile
// in the root generation: open C12 finding)
var c11ResourceLeftOut = map[string]bool{"collRR": true, "collRet": true}
