package main

import (
	"bufio"
	"encoding/json"
	"fmt"
	"os"
	"reflect"
	"strings"
	"time"

	hc "verifharness/common"

	"github.com/PapaCharlie/go-restli/v2/restlicodec"
	"github.com/PapaCharlie/go-restli/v2/restlidata"
)

// C04 on generated unmarshalers: every truncation and every single-character delete / replace / insert of every valid
// encoding (JSON and the three ROR2 flavours) of the VT values goes through the generated UnmarshalRestLi, the raw
// record decoder and the untyped reader: the call must return (a value or an error) -- no panic, no hang.
func runC04(rowsFile string, b *hc.Builder, stride int) {
	f, err := os.Open(rowsFile)
	if err != nil {
		panic(err)
	}
	sc := bufio.NewScanner(f)
	sc.Buffer(make([]byte, 1<<20), 1<<27)
	stats := map[string]int{}
	inject := []byte{'(', ')', ',', ':', '\'', '{', '}', '[', ']', '"', '\\', '%', 0x00, 0xff, 'n', '-', 'e'}
	n := 0
	for sc.Scan() {
		n++
		if n%stride != 0 {
			continue
		}
		var row Row
		if err := json.Unmarshal(sc.Bytes(), &row); err != nil {
			panic(err)
		}
		typ, ok := registry[row.Schema]
		if !ok {
			continue
		}
		ptr := reflect.New(typ)
		b.Build(ptr.Elem(), row.Av)
		for _, fl := range []flavour{flavours()[0], flavours()[2], flavours()[4]} {
			wire, err := encode(fl, marshalerOf(ptr))
			if err != nil {
				continue
			}
			stats["encodings"]++
			try := func(kind, doc string) {
				stats["mutants"]++
				done := make(chan string, 1)
				go func() {
					defer func() {
						if r := recover(); r != nil {
							done <- fmt.Sprint(r)
							return
						}
						done <- ""
					}()
					decode(fl, doc, typ)
					if fl.name == "json" {
						// the same bytes through the raw-record decoder and through the untyped reader of their plain form
						if r, err := restlicodec.NewJsonReader([]byte(doc)); err == nil {
							var raw restlidata.RawRecord
							(&raw).UnmarshalRestLi(r)
						}
						var plain any
						if json.Unmarshal([]byte(doc), &plain) == nil {
							p := reflect.New(typ)
							p.Interface().(restlicodec.Unmarshaler).UnmarshalRestLi(restlicodec.NewInterfaceReader(plain))
						}
					}
				}()
				select {
				case p := <-done:
					if p != "" {
						what := "panic"
						switch {
						case strings.Contains(p, "out of range"):
							what = "index-out-of-range"
						case strings.Contains(p, "interface conversion"):
							what = "type-assertion"
						case strings.Contains(p, "nil"):
							what = "nil-dereference"
						}
						violation("C04/generated/"+fl.name+"/"+kind+"/"+what, fmt.Sprintf("decoding a %s of a valid %s encoding of %s panicked: %s  input: %s", kind, fl.name, row.Schema, p, clip(doc)),
							map[string]any{"schema": row.Schema, "flavour": fl.name, "input": doc})
					}
				case <-time.After(10 * time.Second):
					violation("C04/generated/"+fl.name+"/hang", "decoder did not return within 10s on "+clip(doc), map[string]any{"schema": row.Schema, "input": doc})
					// the decoder is still spinning (and possibly allocating) in its goroutine: report and stop here
					sb, _ := json.Marshal(map[string]any{"kind": "stats", "stats": stats, "violation_counts": vcount})
					out.Write(sb)
					out.WriteByte('\n')
					out.Flush()
					os.Exit(0)
				}
			}
			if fl.name == "json" {
				// structural edits: every array or object of the document replaced by null, and emptied (an absent inner
				// container as opposed to a present but empty one)
				for _, sp := range jsonSpans(wire) {
					try("null-for-container", wire[:sp[0]]+"null"+wire[sp[1]+1:])
					try("emptied-container", wire[:sp[0]+1]+wire[sp[1]:])
				}
			}
			for i := 0; i <= len(wire); i++ {
				try("truncation", wire[:i])
			}
			for i := 0; i < len(wire); i++ {
				try("deletion", wire[:i]+wire[i+1:])
				c := inject[(i+n)%len(inject)]
				try("replacement", wire[:i]+string(c)+wire[i+1:])
				try("insertion", wire[:i]+string(c)+wire[i:])
			}
		}
	}
	sb, _ := json.Marshal(map[string]any{"kind": "stats", "stats": stats, "violation_counts": vcount})
	out.Write(sb)
	out.WriteByte('\n')
}

// jsonSpans returns [open, close] positions of every array / object of a valid JSON text (the outermost one excluded)
func jsonSpans(doc string) [][2]int {
	var out [][2]int
	var stack []int
	inStr := false
	for i := 0; i < len(doc); i++ {
		c := doc[i]
		if inStr {
			if c == '\\' {
				i++
			} else if c == '"' {
				inStr = false
			}
			continue
		}
		switch c {
		case '"':
			inStr = true
		case '[', '{':
			stack = append(stack, i)
		case ']', '}':
			if len(stack) > 0 {
				o := stack[len(stack)-1]
				stack = stack[:len(stack)-1]
				if len(stack) > 0 {
					out = append(out, [2]int{o, i})
				}
			}
		}
	}
	return out
}
