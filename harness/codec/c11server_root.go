//go:build root

package main

// the server-adapter pass of C11 runs on the v2 generation only
func c11ServerProbe(dirs []string, doc string, legal bool, feat string, cs map[string]any, stats map[string]int) {
}
