package main

import (
	"bufio"
	"encoding/json"
	"fmt"
	"os"
	"reflect"
	"sort"
	"strings"

	hc "verifharness/common"

	"github.com/PapaCharlie/go-restli/v2/restlicodec"
)

// C11: schema validity constraints on encode and on decode.  Cases (partial updates with every combination of
// operations per field x exclusion sets, union member subsets, enum ordinals, fixed lengths) and their legality come
// from Patch.tla via TLC.

type c11Row struct {
	Kind    string         `json:"kind"`
	Schema  string         `json:"schema"`
	Patch   map[string]any `json:"patch"`
	Excl    [][]string     `json:"excl"`
	Legal   bool           `json:"legal"`
	Amb     bool           `json:"amb"`
	Carries bool           `json:"carries"`
	Tree    map[string]any `json:"tree"`
	Members []string       `json:"members"`
	Valid   bool           `json:"valid"`
	Ordinal int            `json:"ordinal"`
	Symbols []string       `json:"symbols"`
	Len     int            `json:"len"`
	Field   string         `json:"field"`
}

func exportedName(s string) string { return strings.ToUpper(s[:1]) + s[1:] }

func buildPatch(b *hc.Builder, rv reflect.Value, p map[string]any) {
	for _, o := range p["v"].([]any) {
		om := o.(map[string]any)
		name := exportedName(om["k"].(string))
		if om["del"].(bool) {
			rv.FieldByName("Delete_Fields").FieldByName(name).SetBool(true)
		}
		if set := om["set"].(map[string]any); set["t"] != "none" {
			f := rv.FieldByName("Set_Fields").FieldByName(name)
			b.Build(f, set)
		}
		if sub := om["sub"].(map[string]any); sub["t"] != "none" {
			f := rv.FieldByName(name)
			f.Set(reflect.New(f.Type().Elem()))
			buildPatch(b, f.Elem(), sub)
		}
	}
}

func diffPatch(b *hc.Builder, rv reflect.Value, p map[string]any, path string) string {
	for _, o := range p["v"].([]any) {
		om := o.(map[string]any)
		name := exportedName(om["k"].(string))
		df := rv.FieldByName("Delete_Fields").FieldByName(name)
		if df.IsValid() {
			if df.Bool() != om["del"].(bool) {
				return fmt.Sprintf("%s.%s: delete=%v, expected %v", path, name, df.Bool(), om["del"])
			}
		}
		sf := rv.FieldByName("Set_Fields").FieldByName(name)
		set := om["set"].(map[string]any)
		if set["t"] == "none" {
			if !sf.IsNil() {
				return fmt.Sprintf("%s.%s: set although not requested", path, name)
			}
		} else if d := b.Diff(sf, set, path+"."+name); d != "" {
			return d
		}
		sub := om["sub"].(map[string]any)
		nf := rv.FieldByName(name)
		if nf.IsValid() && nf.Kind() == reflect.Ptr {
			if sub["t"] == "none" {
				if !nf.IsNil() {
					return fmt.Sprintf("%s.%s: nested patch present although not requested", path, name)
				}
			} else {
				if nf.IsNil() {
					return fmt.Sprintf("%s.%s: nested patch lost", path, name)
				}
				if d := diffPatch(b, nf.Elem(), sub, path+"."+name); d != "" {
					return d
				}
			}
		}
	}
	return ""
}

// the names in a $delete list are a set: compare in sorted order
func sortDeletes(x any) any {
	switch v := x.(type) {
	case map[string]any:
		for k, e := range v {
			if k == "$delete" {
				if l, ok := e.([]any); ok {
					sort.Slice(l, func(i, j int) bool { return fmt.Sprint(l[i]) < fmt.Sprint(l[j]) })
				}
			} else {
				sortDeletes(e)
			}
		}
	}
	return x
}

func sortDeletesTree(t map[string]any) map[string]any {
	if t["j"] != "obj" {
		return t
	}
	for _, e := range t["v"].([]any) {
		em := e.(map[string]any)
		k := em["k"].([]any)
		v := em["v"].(map[string]any)
		if len(k) == 1 && k[0] == "$delete" && v["j"] == "arr" {
			l := v["v"].([]any)
			sort.Slice(l, func(i, j int) bool {
				return fmt.Sprint(l[i].(map[string]any)["v"]) < fmt.Sprint(l[j].(map[string]any)["v"])
			})
		} else {
			sortDeletesTree(v)
		}
	}
	return t
}

func opsFeature(p map[string]any) string {
	var parts []string
	for _, o := range p["v"].([]any) {
		om := o.(map[string]any)
		s := ""
		if om["del"].(bool) {
			s += "D"
		}
		if om["set"].(map[string]any)["t"] != "none" {
			s += "S"
		}
		if om["sub"].(map[string]any)["t"] != "none" {
			s += "P(" + opsFeature(om["sub"].(map[string]any)) + ")"
		}
		if s != "" {
			parts = append(parts, om["k"].(string)+":"+s)
		}
	}
	return strings.Join(parts, ",")
}

func runC11(rowsFile string, b *hc.Builder) {
	f, err := os.Open(rowsFile)
	if err != nil {
		panic(err)
	}
	sc := bufio.NewScanner(f)
	sc.Buffer(make([]byte, 1<<20), 1<<27)
	stats := map[string]int{}
	for sc.Scan() {
		var row c11Row
		if err := json.Unmarshal(sc.Bytes(), &row); err != nil {
			panic(err)
		}
		switch row.Kind {
		case "patch":
			stats["patches"]++
			typ := registry[row.Schema+"_PartialUpdate"]
			var dirs []string
			for _, e := range row.Excl {
				dirs = append(dirs, strings.Join(e, "/"))
			}
			spec := restlicodec.NewPathSpec(dirs...)
			feat := fmt.Sprintf("%s/excl=%s/%s", row.Schema, strings.Join(dirs, "+"), opsFeature(row.Patch))
			cs := map[string]any{"schema": row.Schema, "patch": row.Patch, "excluded": dirs, "legal": row.Legal}
			ptr := reflect.New(typ)
			buildPatch(b, ptr.Elem(), row.Patch)
			// $set of a whole record whose type has an excluded sub-field: what an ENCODER does with it is left open (refuse, or
			// drop the sub-field); a DECODER sees a document, and the document is illegal iff it carries the sub-field
			legalDoc := row.Legal
			if row.Amb {
				stats["patches_encode_unspecified"]++
				legalDoc = row.Legal && !row.Carries
			}
			// encode
			w := restlicodec.NewCompactJsonWriterWithExcludedFields(spec)
			err, pan := safely(func() error { return ptr.Interface().(restlicodec.Marshaler).MarshalRestLi(w) })
			if row.Amb {
				// (nothing to say about the encoder here)
			} else if pan != "" {
				violation("C11/patch/encode-panic/"+feat, pan, cs)
			} else if (err != nil) == row.Legal {
				if row.Legal {
					violation("C11/patch/legal-rejected-on-encode/"+feat, "a legal partial update cannot be encoded: "+err.Error(), cs)
				} else {
					violation("C11/patch/illegal-accepted-on-encode/"+feat, "an illegal partial update was encoded: "+clip(w.Finalize()), cs)
				}
			} else if row.Legal {
				wire := w.Finalize()
				dec := json.NewDecoder(strings.NewReader(wire))
				dec.UseNumber()
				var got any
				if err := dec.Decode(&got); err != nil {
					violation("C11/patch/invalid-json/"+feat, err.Error(), cs)
				} else if d := b.DiffJSON(sortDeletes(got), sortDeletesTree(row.Tree), "$"); d != "" {
					violation("C11/patch/shape/"+feat, "the encoded partial update is not in the protocol's patch / $set / $delete shape: "+d+"  wire: "+clip(wire), cs)
				}
			}
			// decode the equivalent document
			doc := refJSON(b, row.Tree, 0)
			if row.Schema == "Ent" {
				c11ServerProbe(dirs, doc, legalDoc, feat, cs, stats)
			}
			r, err := restlicodec.NewJsonReaderWithExcludedFields([]byte(doc), spec, 1)
			if err != nil {
				panic(err)
			}
			back := reflect.New(typ)
			err, pan = safely(func() error { return back.Interface().(restlicodec.Unmarshaler).UnmarshalRestLi(r) })
			if pan != "" {
				violation("C11/patch/decode-panic/"+feat, pan, cs)
			} else if (err != nil) == legalDoc {
				if legalDoc {
					violation("C11/patch/legal-rejected-on-decode/"+feat, "a legal partial update document is rejected: "+err.Error()+"  doc: "+clip(doc), cs)
				} else {
					violation("C11/patch/illegal-accepted-on-decode/"+feat, "an illegal partial update document is accepted: "+clip(doc), cs)
				}
			} else if legalDoc && !row.Amb {
				if d := diffPatch(b, back.Elem(), row.Patch, row.Schema); d != "" {
					violation("C11/patch/roundtrip/"+feat, "decoded partial update differs: "+d+"  doc: "+clip(doc), cs)
				}
			}
		case "deldoc":
			// a patch document deleting ONE named field: accepted iff the field may be absent (optional or defaulted),
			// whether the record declares it itself or inherits it through an include
			stats["delete_documents"]++
			typ, ok := registry[row.Schema+"_PartialUpdate"]
			if !ok {
				violation("C11/deldoc/no-type/"+row.Schema, "no generated partial-update type", nil)
				continue
			}
			doc := fmt.Sprintf(`{"patch":{"$delete":[%q]}}`, row.Field)
			cs := map[string]any{"schema": row.Schema, "field": row.Field, "deletable": row.Valid, "doc": doc}
			for _, rd := range []string{"json", "untyped"} {
				back := reflect.New(typ)
				var err error
				var pan string
				if rd == "json" {
					r, e := restlicodec.NewJsonReader([]byte(doc))
					if e != nil {
						panic(e)
					}
					err, pan = safely(func() error { return back.Interface().(restlicodec.Unmarshaler).UnmarshalRestLi(r) })
				} else {
					r := restlicodec.NewInterfaceReader(map[string]any{"patch": map[string]any{"$delete": []any{row.Field}}})
					err, pan = safely(func() error { return back.Interface().(restlicodec.Unmarshaler).UnmarshalRestLi(r) })
				}
				key := fmt.Sprintf("%s/%s.%s", rd, row.Schema, row.Field)
				if pan != "" {
					violation("C11/deldoc/panic/"+key, pan, cs)
				} else if row.Valid && err != nil {
					violation("C11/deldoc/legal-delete-rejected/"+key, "deleting an optional / defaulted field is rejected: "+err.Error(), cs)
				} else if !row.Valid && err == nil {
					violation("C11/deldoc/illegal-delete-accepted/"+key, "a document deleting a required field is accepted: "+doc, cs)
				} else if row.Valid {
					df := back.Elem().FieldByName("Delete_Fields")
					got := false
					var find func(v reflect.Value)
					find = func(v reflect.Value) { // the flag may live in an embedded (included) struct
						for i := 0; i < v.NumField(); i++ {
							if v.Type().Field(i).Name == exportedName(row.Field) && v.Field(i).Kind() == reflect.Bool {
								got = got || v.Field(i).Bool()
							} else if v.Field(i).Kind() == reflect.Struct {
								find(v.Field(i))
							}
						}
					}
					if df.IsValid() {
						find(df)
					}
					if !got {
						find(back.Elem())
					}
					if !got {
						violation("C11/deldoc/delete-lost/"+key, "the decoded partial update does not carry the deletion", cs)
					}
				}
			}
			if row.Valid {
				// and the other way round: the deletion set on the struct (in whichever embedded struct the flag lives) is encoded
				ptr := reflect.New(typ)
				done := false
				var set func(v reflect.Value)
				set = func(v reflect.Value) {
					for i := 0; i < v.NumField() && !done; i++ {
						if v.Type().Field(i).Name == exportedName(row.Field) && v.Field(i).Kind() == reflect.Bool {
							v.Field(i).SetBool(true)
							done = true
						} else if v.Field(i).Kind() == reflect.Struct {
							set(v.Field(i))
						}
					}
				}
				set(ptr.Elem())
				w := restlicodec.NewCompactJsonWriter()
				err, pan := safely(func() error { return ptr.Interface().(restlicodec.Marshaler).MarshalRestLi(w) })
				if !done {
					violation("C11/deldoc/no-delete-flag/"+row.Schema+"."+row.Field, "the generated partial-update struct has no delete flag for a deletable field", cs)
				} else if pan != "" || err != nil {
					violation("C11/deldoc/encode-failed/"+row.Schema+"."+row.Field, fmt.Sprint(err, pan), cs)
				} else if got := w.Finalize(); got != doc {
					violation("C11/deldoc/encode/"+row.Schema+"."+row.Field, fmt.Sprintf("encoded %s, the protocol's shape is %s", got, doc), cs)
				}
			}
		case "union":
			stats["unions"]++
			typ := registry[row.Schema]
			ptr := reflect.New(typ)
			var docParts []string
			for _, alias := range row.Members {
				ft, _ := typ.FieldByNameFunc(func(n string) bool {
					sf, _ := typ.FieldByName(n)
					return strings.Split(sf.Tag.Get("json"), ",")[0] == alias
				})
				fv := ptr.Elem().FieldByName(ft.Name)
				fv.Set(reflect.New(fv.Type().Elem()))
				// member values: zero value, except records which need their required fields (zero is fine here)
				var lit string
				switch fv.Type().Elem().Kind() {
				case reflect.Int32, reflect.Int64:
					lit = "0"
				case reflect.String:
					lit = `""`
				case reflect.Struct:
					lit = `{"a":0}`
				case reflect.Slice:
					lit = `[]`
				default:
					lit = "0"
				}
				if fv.Type().Elem().Kind() == reflect.Int32 && fv.Type().Elem().Name() == "Color" {
					fv.Elem().SetInt(1)
					lit = `"RED"`
				}
				docParts = append(docParts, fmt.Sprintf("%q:%s", alias, lit))
			}
			feat := fmt.Sprintf("%s/members=%s", row.Schema, strings.Join(row.Members, "+"))
			cs := map[string]any{"schema": row.Schema, "members_set": row.Members, "valid": row.Valid}
			w := restlicodec.NewCompactJsonWriter()
			err, pan := safely(func() error { return ptr.Interface().(restlicodec.Marshaler).MarshalRestLi(w) })
			if pan != "" {
				violation("C11/union/encode-panic/"+feat, pan, cs)
			} else if (err != nil) == row.Valid {
				violation(fmt.Sprintf("C11/union/encode-valid=%v-error=%v/%s", row.Valid, err != nil, feat), fmt.Sprintf("union with members %v set: valid=%v but encoding error=%v (%s)", row.Members, row.Valid, err, clip(w.Finalize())), cs)
			}
			if m := ptr.MethodByName("ValidateUnionFields"); m.IsValid() {
				res := m.Call(nil)[0]
				if res.IsNil() != row.Valid {
					violation("C11/union/validate/"+feat, fmt.Sprintf("ValidateUnionFields error=%v, valid=%v", !res.IsNil(), row.Valid), cs)
				}
			}
			doc := "{" + strings.Join(docParts, ",") + "}"
			back := reflect.New(typ)
			r, _ := restlicodec.NewJsonReader([]byte(doc))
			err, pan = safely(func() error { return back.Interface().(restlicodec.Unmarshaler).UnmarshalRestLi(r) })
			if pan != "" {
				violation("C11/union/decode-panic/"+feat, pan, cs)
			} else if (err != nil) == row.Valid {
				violation(fmt.Sprintf("C11/union/decode-valid=%v-error=%v/%s", row.Valid, err != nil, feat), fmt.Sprintf("document %s: valid=%v but decoding error=%v", doc, row.Valid, err), cs)
			}
		case "enum":
			stats["enums"]++
			typ := registry[row.Schema]
			v := reflect.New(typ).Elem()
			v.SetInt(int64(row.Ordinal))
			cs := map[string]any{"schema": row.Schema, "ordinal": row.Ordinal}
			w := restlicodec.NewCompactJsonWriter()
			err, pan := safely(func() error { return v.Interface().(restlicodec.Marshaler).MarshalRestLi(w) })
			if pan != "" {
				violation(fmt.Sprintf("C11/enum/encode-panic/ordinal=%d", row.Ordinal), pan, cs)
			} else if (err != nil) == row.Valid {
				violation(fmt.Sprintf("C11/enum/encode-valid=%v-error=%v/ordinal=%d", row.Valid, err != nil, row.Ordinal), fmt.Sprintf("ordinal %d: output %q error %v", row.Ordinal, w.Finalize(), err), cs)
			} else if row.Valid {
				if got := w.Finalize(); got != fmt.Sprintf("%q", row.Symbols[row.Ordinal-1]) {
					violation("C11/enum/symbol", fmt.Sprintf("ordinal %d written as %s, expected %q", row.Ordinal, got, row.Symbols[row.Ordinal-1]), cs)
				}
			}
			if row.Ordinal == 0 { // decode side once per enum: every symbol and unknown ones
				for i, s := range append(append([]string{}, row.Symbols...), "PURPLE", "", "red", row.Symbols[0]+"X") {
					back := reflect.New(typ)
					r, _ := restlicodec.NewJsonReader([]byte(fmt.Sprintf("%q", s)))
					_, pan := safely(func() error { return back.Interface().(restlicodec.Unmarshaler).UnmarshalRestLi(r) })
					want := int64(0)
					if i < len(row.Symbols) {
						want = int64(i + 1)
					}
					if pan != "" {
						violation("C11/enum/decode-panic", pan, cs)
					} else if back.Elem().Int() != want {
						violation("C11/enum/decode-symbol", fmt.Sprintf("symbol %q decoded to ordinal %d, expected %d", s, back.Elem().Int(), want), cs)
					}
					// ... and into a variable that already holds another declared symbol (a reused struct, a repeated key):
					// what is decoded replaces what was there, an unknown symbol never leaves "another symbol" behind
					for prev := 1; prev <= len(row.Symbols); prev++ {
						reused := reflect.New(typ)
						reused.Elem().SetInt(int64(prev))
						r2, _ := restlicodec.NewJsonReader([]byte(fmt.Sprintf("%q", s)))
						_, pan := safely(func() error { return reused.Interface().(restlicodec.Unmarshaler).UnmarshalRestLi(r2) })
						if pan == "" && reused.Elem().Int() != want {
							violation("C11/enum/decode-symbol-into-reused-variable", fmt.Sprintf("symbol %q decoded into a variable holding %s gives ordinal %d, expected %d", s, row.Symbols[prev-1], reused.Elem().Int(), want), cs)
						}
					}
				}
			}
		case "fixed":
			stats["fixed"]++
			typ := registry[row.Schema]
			doc := fmt.Sprintf("%q", strings.Repeat("a", row.Len))
			back := reflect.New(typ)
			r, _ := restlicodec.NewJsonReader([]byte(doc))
			err, pan := safely(func() error { return back.Interface().(restlicodec.Unmarshaler).UnmarshalRestLi(r) })
			cs := map[string]any{"schema": row.Schema, "length": row.Len}
			if pan != "" {
				violation(fmt.Sprintf("C11/fixed/decode-panic/len=%d", row.Len), pan, cs)
			} else if (err != nil) == row.Valid {
				violation(fmt.Sprintf("C11/fixed/decode-valid=%v-error=%v/len=%d", row.Valid, err != nil, row.Len), fmt.Sprintf("a fixed of length %d: error %v", row.Len, err), cs)
			}
			for _, fl := range flavours()[2:3] {
				_ = fl
				back := reflect.New(typ)
				r, _ := restlicodec.NewRor2Reader(strings.Repeat("a", row.Len) + map[bool]string{true: "''", false: ""}[row.Len == 0])
				err, pan := safely(func() error { return back.Interface().(restlicodec.Unmarshaler).UnmarshalRestLi(r) })
				if pan != "" {
					violation(fmt.Sprintf("C11/fixed/ror2-decode-panic/len=%d", row.Len), pan, cs)
				} else if (err != nil) == row.Valid {
					violation(fmt.Sprintf("C11/fixed/ror2-decode-valid=%v-error=%v/len=%d", row.Valid, err != nil, row.Len), fmt.Sprintf("a fixed of length %d (ROR2): error %v", row.Len, err), cs)
				}
			}
		}
	}
	sb, _ := json.Marshal(map[string]any{"kind": "stats", "stats": stats, "violation_counts": vcount})
	out.Write(sb)
	out.WriteByte('\n')
}
