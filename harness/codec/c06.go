package main

import (
	"bufio"
	"encoding/json"
	"errors"
	"fmt"
	"os"
	"reflect"
	"sort"
	"strings"

	hc "verifharness/common"

	"github.com/PapaCharlie/go-restli/v2/restlicodec"
)

// C06: required-field accounting.  Documents (values with every subset of record fields removed, at every depth) and
// the exact set of missing required paths come from Reader.tla via TLC.  Each document is rendered independently of
// the library (key orders, unknown fields, nulls) and read by the JSON, ROR2 header / path / query and untyped
// readers: the error must be a MissingRequiredFieldsError listing exactly that set (none when it is empty) and the
// partially filled value must carry every field that was present.

type c06Row struct {
	Schema  string         `json:"schema"`
	Av      map[string]any `json:"av"`
	Canon   map[string]any `json:"canon"`
	Json    map[string]any `json:"json"`
	Nulled  map[string]any `json:"jsonNulled"` // the same document with every removed field present and null
	Ror2    []any          `json:"ror2"`
	Ror2U   []any          `json:"ror2u"` // the same document with unknown composite fields first and last in every record
	Missing [][]struct {
		Key []any `json:"key"`
		Idx int   `json:"idx"`
	} `json:"missing"`
}

func runC06(rowsFile string, reserved map[string]map[string]bool, b *hc.Builder) {
	f, err := os.Open(rowsFile)
	if err != nil {
		panic(err)
	}
	sc := bufio.NewScanner(f)
	sc.Buffer(make([]byte, 1<<20), 1<<27)
	stats := map[string]int{}
	// boundary: a query string without any parameter still lacks every required parameter
	for _, q := range []string{"", "&", "&&", "other=1", "p=1"} {
		qr, err := restlicodec.ParseQueryParams(q)
		if err != nil {
			violation("C06/query/empty/parse", fmt.Sprintf("query %q: %v", q, err), nil)
			continue
		}
		err = qr.ReadRecord(requiredFields("p", "zz"), func(r restlicodec.Reader, field string) error { return r.Skip() })
		want := "p,zz"
		if q == "p=1" {
			want = "zz"
		}
		var mf *restlicodec.MissingRequiredFieldsError
		got := ""
		if errors.As(err, &mf) {
			g := append([]string{}, mf.Fields...)
			sort.Strings(g)
			got = strings.Join(g, ",")
		} else if err != nil {
			got = "error: " + err.Error()
		}
		stats["decodings"]++
		if got != want {
			violation("C06/query/no-parameters/wrong-set", fmt.Sprintf("query %q read as a record requiring p and zz: missing reported as [%s], specified [%s]", q, got, want), map[string]any{"query": q})
		}
	}
	for sc.Scan() {
		var row c06Row
		if err := json.Unmarshal(sc.Bytes(), &row); err != nil {
			panic(err)
		}
		typ, ok := registry[row.Schema]
		if !ok {
			continue
		}
		stats["documents"]++
		var want []string
		for _, p := range row.Missing {
			var sb strings.Builder
			for i, seg := range p {
				if seg.Idx > 0 {
					fmt.Fprintf(&sb, "[%d]", seg.Idx-1)
				} else {
					if i > 0 {
						sb.WriteByte('.')
					}
					sb.Write(b.C.Bytes(seg.Key))
				}
			}
			want = append(want, sb.String())
		}
		sort.Strings(want)
		cs := map[string]any{"schema": row.Schema, "doc": row.Av, "missing_specified": want}
		type reading struct {
			name   string
			prefix string
			run    func() (reflect.Value, error)
			extra  []string // required names outside the document that are missing as well
		}
		var readings []reading
		for v, vn := range []string{"canonical", "reversed-keys", "whitespace", "unknown-fields-first", "unknown-fields-last"} {
			doc := refJSON(b, row.Json, v)
			readings = append(readings, reading{name: "json/" + vn, prefix: "", run: func() (reflect.Value, error) { return decode(flavours()[0], doc, typ) }})
		}
		if gd, ok := genericDecoders[row.Schema]; ok {
			// through restlicodec.UnmarshalRestLi[*T], the way every client method decodes a response: the partially
			// filled instance is returned next to the error
			doc := refJSON(b, row.Json, 0)
			readings = append(readings, reading{name: "json/generic-helper", prefix: "", run: func() (reflect.Value, error) {
				r, err := restlicodec.NewJsonReader([]byte(doc))
				if err != nil {
					return reflect.New(typ), err
				}
				v, err := gd(r)
				if rv := reflect.ValueOf(v); v != nil && rv.Kind() == reflect.Ptr && !rv.IsNil() {
					return rv, err
				}
				violation("C06/json/generic-helper/no-value", fmt.Sprintf("UnmarshalRestLi[*%s] returned no instance (error: %v): the partially filled value is lost", row.Schema, err), cs)
				return reflect.New(typ), err
			}})
		}
		if row.Nulled != nil {
			// "absent or null": removed fields written as null members instead (plain, and among unknown fields)
			for _, v := range []int{0, 3} {
				doc := refJSON(b, row.Nulled, v)
				readings = append(readings, reading{name: []string{"json/nulled", "", "", "json/nulled-unknown-fields-first"}[v], prefix: "", run: func() (reflect.Value, error) { return decode(flavours()[0], doc, typ) }})
			}
			readings = append(readings, reading{name: "untyped/nulled", prefix: "", run: func() (reflect.Value, error) {
				p := reflect.New(typ)
				return p, p.Interface().(restlicodec.Unmarshaler).UnmarshalRestLi(restlicodec.NewInterfaceReader(b.PlainOf(row.Nulled)))
			}})
		}
		readings = append(readings, reading{name: "untyped", prefix: "", run: func() (reflect.Value, error) {
			p := reflect.New(typ)
			return p, p.Interface().(restlicodec.Unmarshaler).UnmarshalRestLi(restlicodec.NewInterfaceReader(b.PlainOf(row.Json)))
		}})
		for _, fl := range flavours()[2:] {
			fl := fl
			prefix := ""
			if fl.name == "query" {
				prefix = "p."
			}
			readings = append(readings, reading{name: fl.name, prefix: prefix, run: func() (reflect.Value, error) {
				return decode(fl, refRor2(b, row.Ror2, reserved[fl.ror2], 0, atomText), typ)
			}})
		}
		if row.Ror2U != nil {
			for _, fl := range flavours()[2:] {
				fl := fl
				prefix := ""
				if fl.name == "query" {
					prefix = "p."
				}
				readings = append(readings, reading{name: fl.name + "/unknown-composite-fields", prefix: prefix, run: func() (reflect.Value, error) {
					return decode(fl, refRor2(b, row.Ror2U, reserved[fl.ror2], 0, atomText), typ)
				}})
			}
		}
		// readers built with an exclusion spec: a missing required field that is EXCLUDED (a read-only id on create) is not
		// reported -- and every other missing field still is, whatever order the accounting visits them in
		{
			var tops []string
			for _, p := range row.Missing {
				if len(p) == 1 && p[0].Idx == 0 {
					tops = append(tops, string(b.C.Bytes(p[0].Key)))
				}
			}
			if len(tops) >= 1 && len(row.Missing) >= 2 {
				excl := tops[0]
				var rest []string
				for _, w := range want {
					if w != excl && !strings.HasPrefix(w, excl+".") && !strings.HasPrefix(w, excl+"[") {
						rest = append(rest, w)
					}
				}
				spec := restlicodec.NewPathSpec(excl)
				doc := refJSON(b, row.Json, 0)
				rdoc := refRor2(b, row.Ror2, reserved["header"], 0, atomText)
				for rep := 0; rep < 3; rep++ {
					for _, rf := range []struct {
						name string
						mk   func() (restlicodec.Reader, error)
					}{
						{"json", func() (restlicodec.Reader, error) {
							return restlicodec.NewJsonReaderWithExcludedFields([]byte(doc), spec, 0)
						}},
						{"ror2", func() (restlicodec.Reader, error) { return restlicodec.NewRor2ReaderWithExcludedFields(rdoc, spec, 0) }},
						{"untyped", func() (restlicodec.Reader, error) {
							return restlicodec.NewInterfaceReaderWithExcludedFields(b.PlainOf(row.Json), spec, 0), nil
						}},
					} {
						r, err := rf.mk()
						if err != nil {
							continue
						}
						back := reflect.New(typ)
						err, pan := safely(func() error { return back.Interface().(restlicodec.Unmarshaler).UnmarshalRestLi(r) })
						stats["decodings"]++
						var mf *restlicodec.MissingRequiredFieldsError
						var got []string
						if pan != "" {
							violation("C06/"+rf.name+"/with-excluded-field/panic", pan, cs)
							continue
						}
						if err != nil {
							if !errors.As(err, &mf) {
								violation("C06/"+rf.name+"/with-excluded-field/other-error", err.Error(), cs)
								continue
							}
							got = append(got, mf.Fields...)
							sort.Strings(got)
						}
						if strings.Join(got, ",") != strings.Join(rest, ",") {
							violation(fmt.Sprintf("C06/%s/with-excluded-field/wrong-set/%s", rf.name, row.Schema),
								fmt.Sprintf("required field %q is excluded and absent; the other missing fields reported as %v, specified %v", excl, got, rest), cs)
						}
					}
				}
			}
		}
		// query parameters: the document is the value of parameter p; a second required parameter (zz) is missing and a
		// third one (other) is present: every missing path must be reported together, and `other` must still be read
		{
			q := refRor2(b, row.Ror2, reserved["query"], 0, atomText)
			readings = append(readings, reading{name: "query/with-siblings", prefix: "p.", extra: []string{"zz"}, run: func() (reflect.Value, error) {
				ptr := reflect.New(typ)
				qr, err := restlicodec.ParseQueryParams("p=" + q + "&other=5")
				if err != nil {
					return ptr, err
				}
				otherSeen := false
				err = qr.ReadRecord(requiredFields("p", "zz"), func(r restlicodec.Reader, field string) error {
					switch field {
					case "p":
						return ptr.Interface().(restlicodec.Unmarshaler).UnmarshalRestLi(r)
					case "other":
						otherSeen = true
						_, e := r.ReadInt32()
						return e
					}
					return r.Skip()
				})
				if !otherSeen {
					return ptr, fmt.Errorf("the present parameter `other` was never handed to the decoder (error so far: %v)", err)
				}
				return ptr, err
			}})
		}
		for _, rd := range readings {
			var back reflect.Value
			err, pan := safely(func() (e error) { back, e = rd.run(); return e })
			stats["decodings"]++
			if pan != "" {
				violation("C06/"+rd.name+"/panic", "reader panicked: "+pan, cs)
				continue
			}
			var mf *restlicodec.MissingRequiredFieldsError
			var got []string
			if err != nil {
				if !errors.As(err, &mf) {
					violation("C06/"+rd.name+"/other-error", "a document that only lacks fields is rejected with another error: "+err.Error(), cs)
					continue
				}
				for _, p := range mf.Fields {
					got = append(got, strings.TrimPrefix(p, rd.prefix))
				}
				sort.Strings(got)
			}
			want := want
			if len(rd.extra) > 0 {
				want = append(append([]string{}, want...), rd.extra...)
				sort.Strings(want)
			}
			if strings.Join(got, ",") != strings.Join(want, ",") {
				kind := "wrong-set"
				if len(want) > 0 && len(got) == 0 {
					kind = "not-reported"
				} else if len(want) == 0 {
					kind = "reported-although-complete"
				}
				depth := 0
				for _, p := range row.Missing {
					if len(p) > depth {
						depth = len(p)
					}
				}
				violation(fmt.Sprintf("C06/%s/%s/%s/depth=%d", rd.name, kind, row.Schema, depth), fmt.Sprintf("missing required fields reported as %v, specified %v", got, want), cs)
				continue
			}
			// the partially filled value carries every field that was present (and defaults)
			b.PresentOnly = true
			d := b.Diff(back, row.Av, row.Schema)
			b.PresentOnly = false
			if d != "" {
				violation("C06/"+rd.name+"/partial-value/"+diffPath(d), "the partially filled value lost or altered a field that was present: "+d, cs)
			}
		}
	}
	sb, _ := json.Marshal(map[string]any{"kind": "stats", "stats": stats, "violation_counts": vcount})
	out.Write(sb)
	out.WriteByte('\n')
}
