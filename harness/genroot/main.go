// Generator driver for the root module generation: runs /repo's current root generator on a parsed-spec JSON.
//
//	genroot <spec.json> <outDir> <packagePrefix>
package main

import (
	"fmt"
	"os"

	"github.com/PapaCharlie/go-restli/cmd"
	"github.com/PapaCharlie/go-restli/codegen/utils"
)

func main() {
	data, err := os.ReadFile(os.Args[1])
	if err != nil {
		fmt.Fprintln(os.Stderr, err)
		os.Exit(2)
	}
	utils.PackagePrefix = os.Args[3]
	if err := cmd.GenerateCode(data, os.Args[2]); err != nil {
		fmt.Fprintf(os.Stderr, "GENERATOR-ERROR: %+v\n", err)
		os.Exit(1)
	}
}
