package main

// A minimal in-process ZooKeeper server: just enough of the wire protocol (connect, ping, getData, getChildren2, close,
// watch notifications) for github.com/go-zookeeper/zk to run d2.TreeCache against it.  All state changes and all reads
// happen under one mutex and are appended to the trace there: the trace order IS the linearization order.

import (
	"encoding/binary"
	"io"
	"net"
	"sort"
	"strings"
	"sync"
)

type znode struct {
	data     []byte
	version  int
	children map[string]bool
}

type fakeZK struct {
	mu      sync.Mutex
	nodes   map[string]*znode
	dataW   map[string]bool // one-shot watches of the (single) session
	childW  map[string]bool
	conn    net.Conn
	wmu     sync.Mutex // serialises writes to the connection
	ln      net.Listener
	trace   func(ev map[string]any)
	zxid    int64
	reads   int
	holdAll bool
}

func newFakeZK(trace func(map[string]any)) *fakeZK {
	z := &fakeZK{nodes: map[string]*znode{}, dataW: map[string]bool{}, childW: map[string]bool{}, trace: trace}
	ln, err := net.Listen("tcp", "127.0.0.1:0")
	if err != nil {
		panic(err)
	}
	z.ln = ln
	go func() {
		for {
			c, err := ln.Accept()
			if err != nil {
				return
			}
			go z.serve(c)
		}
	}()
	return z
}

func (z *fakeZK) addr() string { return z.ln.Addr().String() }

func parent(p string) string {
	i := strings.LastIndex(p, "/")
	if i <= 0 {
		return "/"
	}
	return p[:i]
}

// ---- environment operations (the driver): applied and traced atomically; watches fire as in ZooKeeper
func (z *fakeZK) create(path string, data []byte) bool {
	z.mu.Lock()
	defer z.mu.Unlock()
	if _, ok := z.nodes[path]; ok {
		return false
	}
	par := parent(path)
	if path != "/" {
		p, ok := z.nodes[par]
		if !ok && par != "/" {
			return false
		}
		if ok {
			p.children[path[strings.LastIndex(path, "/")+1:]] = true
		}
	}
	z.zxid++
	z.nodes[path] = &znode{data: data, version: 1, children: map[string]bool{}}
	z.trace(map[string]any{"ev": "create", "path": path, "data": string(data)})
	z.fire(z.childW, par, 4)
	return true
}

func (z *fakeZK) set(path string, data []byte) bool {
	z.mu.Lock()
	defer z.mu.Unlock()
	n, ok := z.nodes[path]
	if !ok {
		return false
	}
	z.zxid++
	n.data = data
	n.version++
	z.trace(map[string]any{"ev": "set", "path": path, "data": string(data)})
	z.fire(z.dataW, path, 3)
	return true
}

func (z *fakeZK) delete(path string) bool {
	z.mu.Lock()
	defer z.mu.Unlock()
	n, ok := z.nodes[path]
	if !ok || len(n.children) > 0 {
		return false
	}
	z.zxid++
	delete(z.nodes, path)
	if p, ok := z.nodes[parent(path)]; ok {
		delete(p.children, path[strings.LastIndex(path, "/")+1:])
	}
	z.trace(map[string]any{"ev": "delete", "path": path})
	z.fire(z.dataW, path, 2)
	z.fire(z.childW, path, 2)
	z.fire(z.childW, parent(path), 4)
	return true
}

// fire sends the one-shot watch notification, if one is registered (caller holds mu)
func (z *fakeZK) fire(set map[string]bool, path string, typ int32) {
	if !set[path] {
		return
	}
	delete(set, path)
	if z.conn == nil {
		return
	}
	body := make([]byte, 0, 64)
	body = appendInt32(body, -1) // xid
	body = appendInt64(body, -1) // zxid
	body = appendInt32(body, 0)  // err
	body = appendInt32(body, typ)
	body = appendInt32(body, 3) // StateSyncConnected
	body = appendString(body, path)
	z.write(body)
}

func (z *fakeZK) write(body []byte) {
	z.wmu.Lock()
	defer z.wmu.Unlock()
	buf := make([]byte, 4, 4+len(body))
	binary.BigEndian.PutUint32(buf, uint32(len(body)))
	z.conn.Write(append(buf, body...))
}

func appendInt32(b []byte, v int32) []byte { return binary.BigEndian.AppendUint32(b, uint32(v)) }
func appendInt64(b []byte, v int64) []byte { return binary.BigEndian.AppendUint64(b, uint64(v)) }
func appendString(b []byte, s string) []byte {
	b = appendInt32(b, int32(len(s)))
	return append(b, s...)
}
func appendBuffer(b []byte, d []byte) []byte {
	if d == nil {
		return appendInt32(b, -1)
	}
	b = appendInt32(b, int32(len(d)))
	return append(b, d...)
}
func appendStat(b []byte, n *znode) []byte {
	b = appendInt64(b, 1)
	b = appendInt64(b, 1)
	b = appendInt64(b, 0)
	b = appendInt64(b, 0)
	b = appendInt32(b, int32(n.version))
	b = appendInt32(b, 0)
	b = appendInt32(b, 0)
	b = appendInt64(b, 0)
	b = appendInt32(b, int32(len(n.data)))
	b = appendInt32(b, int32(len(n.children)))
	return appendInt64(b, 1)
}

func readPacket(c net.Conn) ([]byte, error) {
	var l [4]byte
	if _, err := io.ReadFull(c, l[:]); err != nil {
		return nil, err
	}
	buf := make([]byte, binary.BigEndian.Uint32(l[:]))
	_, err := io.ReadFull(c, buf)
	return buf, err
}

func (z *fakeZK) serve(c net.Conn) {
	defer c.Close()
	// connect request -> connect response
	if _, err := readPacket(c); err != nil {
		return
	}
	z.mu.Lock()
	z.conn = c
	z.mu.Unlock()
	resp := appendInt32(nil, 0)
	resp = appendInt32(resp, 30000)
	resp = appendInt64(resp, 0x1234)
	resp = appendBuffer(resp, make([]byte, 16))
	z.write(resp)
	for {
		pkt, err := readPacket(c)
		if err != nil {
			return
		}
		xid := int32(binary.BigEndian.Uint32(pkt[0:4]))
		op := int32(binary.BigEndian.Uint32(pkt[4:8]))
		switch op {
		case 11: // ping
			z.write(appendInt32(appendInt64(appendInt32(nil, -2), 0), 0))
		case -11: // close
			z.write(appendInt32(appendInt64(appendInt32(nil, xid), 0), 0))
			return
		case 4, 12: // getData, getChildren2
			plen := int(binary.BigEndian.Uint32(pkt[8:12]))
			path := string(pkt[12 : 12+plen])
			watch := pkt[12+plen] != 0
			z.mu.Lock()
			n, ok := z.nodes[path]
			hdr := appendInt64(appendInt32(nil, xid), z.zxid)
			if !ok {
				z.trace(map[string]any{"ev": map[int32]string{4: "getdata", 12: "getchildren"}[op], "path": path, "found": false})
				z.mu.Unlock()
				z.write(appendInt32(hdr, -101))
				continue
			}
			hdr = appendInt32(hdr, 0)
			if op == 4 {
				if watch {
					z.dataW[path] = true
				}
				z.trace(map[string]any{"ev": "getdata", "path": path, "found": true, "data": string(n.data)})
				hdr = appendStat(appendBuffer(hdr, n.data), n)
			} else {
				if watch {
					z.childW[path] = true
				}
				kids := []string{}
				for k := range n.children {
					kids = append(kids, k)
				}
				sort.Strings(kids)
				z.trace(map[string]any{"ev": "getchildren", "path": path, "found": true, "children": kids})
				hdr = appendInt32(hdr, int32(len(kids)))
				for _, k := range kids {
					hdr = appendString(hdr, k)
				}
				hdr = appendStat(hdr, n)
			}
			z.reads++
			z.mu.Unlock()
			z.write(hdr)
		default:
			z.write(appendInt32(appendInt64(appendInt32(nil, xid), 0), -6)) // unimplemented
		}
	}
}
