// Harness for d2.TreeCache (the ZooKeeper mirror that feeds the D2 client with announcement events).  The real TreeCache
// runs, through the real go-zookeeper client, against an in-process fake ZooKeeper server; a driver applies random
// create / set / delete operations, lets the cache catch up every now and then (quiescence), and everything that is
// visible at the ZooKeeper boundary -- operations, the cache's reads, the TreeCacheEvents it emits -- is written to one
// trace in linearization order.  TLC validates the trace against TreeCache.tla's contract (Trace_TreeCache.tla).
package main

import (
	"bufio"
	"encoding/json"
	"flag"
	"fmt"
	"io"
	"log"
	"math/rand"
	"os"
	"runtime"
	"sync"
	"time"

	"github.com/PapaCharlie/go-restli/v2/d2"
	"github.com/go-zookeeper/zk"
)

func main() {
	seed := flag.Int64("seed", 1, "")
	runs := flag.Int("runs", 20, "executions")
	ops := flag.Int("ops", 30, "operations per execution")
	out := flag.String("trace", "", "")
	procs := flag.Int("procs", 0, "GOMAXPROCS (0 = default)")
	flag.Parse()
	if *procs > 0 {
		runtime.GOMAXPROCS(*procs)
	}
	d2.Logger = log.New(io.Discard, "", 0)
	f, err := os.Create(*out)
	if err != nil {
		panic(err)
	}
	w := bufio.NewWriterSize(f, 1<<20)
	defer func() { w.Flush(); f.Close() }()
	var tmu sync.Mutex
	seq := 0
	run := 0
	trace := func(ev map[string]any) {
		tmu.Lock()
		defer tmu.Unlock()
		seq++
		ev["n"] = seq
		ev["run"] = run
		b, _ := json.Marshal(ev)
		w.Write(b)
		w.WriteByte('\n')
	}
	rng := rand.New(rand.NewSource(*seed))
	names := []string{"a", "b"}
	stats := map[string]int{}
	for r := 0; r < *runs; r++ {
		run = r
		trace(map[string]any{"ev": "reset"})
		z := newFakeZK(trace)
		z.create("/p", []byte("0"))
		conn, _, err := zk.Connect([]string{z.addr()}, 30*time.Second, zk.WithLogger(log.New(io.Discard, "", 0)))
		if err != nil {
			panic(err)
		}
		events := make(chan d2.TreeCacheEvent, 4096)
		var lastEmit time.Time
		var emu sync.Mutex
		done := make(chan struct{})
		go func() {
			for {
				select {
				case e := <-events:
					ev := map[string]any{"ev": "emit", "path": e.Path, "deleted": e.Data == nil}
					if e.Data != nil {
						ev["data"] = string(*e.Data)
					}
					trace(ev)
					emu.Lock()
					lastEmit = time.Now()
					emu.Unlock()
					stats["emitted"]++
				case <-done:
					return
				}
			}
		}()
		tc := d2.NewTreeCache(conn, "/p", events)
		quiesce := func() {
			// idle = no read by the cache and no emitted event for a while
			for {
				z.mu.Lock()
				before := z.reads
				z.mu.Unlock()
				time.Sleep(60 * time.Millisecond)
				z.mu.Lock()
				after := z.reads
				z.mu.Unlock()
				emu.Lock()
				idle := time.Since(lastEmit) > 60*time.Millisecond
				emu.Unlock()
				if before == after && idle && len(events) == 0 {
					break
				}
			}
			trace(map[string]any{"ev": "quiescent"})
			stats["quiescent_points"]++
		}
		quiesce()
		val := 0
		// the shape TLC's counterexamples have (MC_TreeCache_legacy_placeholder.cfg): a node and its child disappear in one
		// burst, so that several watchers fire at about the same time, and the node comes back once the cache has settled
		for rep := 0; rep < 3; rep++ {
			xi := rng.Intn(2)
			x := "/p/" + names[xi]
			w := "/p/" + names[1-xi]
			y := x + "/" + names[rng.Intn(2)]
			val++
			z.create(x, []byte(fmt.Sprint(val)))
			z.create(y, []byte(fmt.Sprint(val)))
			z.create(w, []byte(fmt.Sprint(val)))
			quiesce()
			z.delete(y)
			if rng.Intn(2) == 0 {
				z.delete(w)
			}
			z.delete(x)
			quiesce()
			val++
			z.create(x, []byte(fmt.Sprint(val)))
			quiesce()
			z.delete(x)
			stats["operations"] += 6
		}
		for i := 0; i < *ops; i++ {
			// paths of depth 1 and 2 under /p
			p := "/p/" + names[rng.Intn(2)]
			if rng.Intn(2) == 0 {
				p += "/" + names[rng.Intn(2)]
			}
			val++
			ok := false
			switch rng.Intn(4) {
			case 0, 1:
				ok = z.create(p, []byte(fmt.Sprint(val)))
			case 2:
				ok = z.set(p, []byte(fmt.Sprint(val)))
			case 3:
				ok = z.delete(p)
			}
			if ok {
				stats["operations"]++
			}
			switch rng.Intn(6) {
			case 0:
				quiesce()
			case 1, 2:
				time.Sleep(time.Duration(rng.Intn(3)) * time.Millisecond)
			}
		}
		quiesce()
		tc.Stop()
		close(done)
		conn.Close()
		z.ln.Close()
		stats["executions"]++
	}
	b, _ := json.Marshal(map[string]any{"kind": "stats", "stats": stats})
	fmt.Println(string(b))
}
