// Harness for C15 (request URL construction).
//
//	replay : every (context path, resource path, trailing slash, host, query) of Url.tla's bound is run through
//	         NewGetRequest / NewJsonRequest with a SimpleHostnameResolver; URL.String(), EscapedPath() and RawQuery
//	         are compared with the URL the specification prescribes.
//	record : random contexts and keys (encoded by the real ROR2 path / query escapers, all byte values) are logged
//	         for Trace_Url.tla.
package main

import (
	"bufio"
	"bytes"
	"context"
	"encoding/json"
	"flag"
	"fmt"
	"io"
	"math/rand"
	"net/http"
	"net/http/httptest"
	"net/url"
	"os"
	"strings"

	"github.com/PapaCharlie/go-restli/v2/restli"
	"github.com/PapaCharlie/go-restli/v2/restlicodec"
)

type Row struct {
	Ctx    []string `json:"ctx"`
	Rp     []string `json:"rp"`
	Slash  bool     `json:"slash"`
	Host   bool     `json:"host"`
	Query  string   `json:"query"`
	Unspec bool     `json:"unspec"`
	Path   []string `json:"path"`
}

var out *bufio.Writer
var vcount = map[string]int{}

func violation(key, what string, c any) {
	vcount[key]++
	if vcount[key] > 3 {
		return
	}
	b, _ := json.Marshal(map[string]any{"kind": "violation", "key": key, "what": what, "case": c})
	out.Write(b)
	out.WriteByte('\n')
}

type emptyBody struct{}

func (emptyBody) MarshalRestLi(w restlicodec.Writer) error {
	return w.WriteMap(func(func(string) restlicodec.Writer) error { return nil })
}

func baseURL(ctx []string, slash, host bool) string {
	b := ""
	if host {
		b = "https://h.example:8443"
	}
	if len(ctx) > 0 {
		b += "/" + strings.Join(ctx, "/")
	}
	if slash {
		b += "/"
	}
	return b
}

type result struct {
	full, escaped, rawQuery string
	err                     error
}

// captureRT records the URL of the request a client call sends and answers 204
type captureRT struct{ u *url.URL }

func (c *captureRT) RoundTrip(req *http.Request) (*http.Response, error) {
	c.u = req.URL
	return &http.Response{StatusCode: 204, Header: http.Header{"X-Restli-Protocol-Version": {"2.0.0"}}, Body: http.NoBody, Request: req}, nil
}

// constructCall goes through the client's call functions (Delete, Update) instead of the request constructors
func constructCall(base string, rp string, query *string, kind string) result {
	u, err := url.Parse(base)
	if err != nil {
		return result{err: err}
	}
	rt := &captureRT{}
	c := &restli.Client{Client: &http.Client{Transport: rt}, HostnameResolver: &restli.SimpleHostnameResolver{Hostname: u}}
	var q restli.QueryParamsEncoder
	if query != nil {
		q = restli.QueryParamsString(*query)
	}
	if kind == "delete-call" {
		err = restli.Delete(c, context.Background(), restli.ResourcePathString(rp), q)
	} else {
		err = restli.Update(c, context.Background(), restli.ResourcePathString(rp), emptyBody{}, q, nil)
	}
	if rt.u == nil {
		if err == nil {
			err = fmt.Errorf("no request was sent")
		}
		return result{err: err}
	}
	return result{full: rt.u.String(), escaped: rt.u.EscapedPath(), rawQuery: rt.u.RawQuery}
}

func construct(base string, rp string, query *string, json bool) result {
	u, err := url.Parse(base)
	if err != nil {
		return result{err: err}
	}
	c := &restli.Client{HostnameResolver: &restli.SimpleHostnameResolver{Hostname: u}}
	var q restli.QueryParamsEncoder
	if query != nil {
		q = restli.QueryParamsString(*query)
	}
	// The resolver hands out the SAME *url.URL for every request of this client: an earlier request (to another entity,
	// with another query) must leave no trace in it, neither in the next request nor in the resolver's own object
	before := u.String()
	if _, err := restli.NewGetRequest(c, context.Background(), restli.ResourcePathString("/root/earlier/sub/7"), restli.QueryParamsString("stale=1"), restli.Method_get); err == nil {
		if after := u.String(); after != before {
			violation("C15/resolver-url-modified", fmt.Sprintf("building a request changed the URL object owned by the resolver: %q -> %q", before, after),
				map[string]any{"base": base})
			u, _ = url.Parse(base)
			c = &restli.Client{HostnameResolver: &restli.SimpleHostnameResolver{Hostname: u}}
		}
	}
	var req interface{ GetURL() *url.URL }
	_ = req
	if json {
		r, err := restli.NewJsonRequest(c, context.Background(), restli.ResourcePathString(rp), q, "PUT", restli.Method_update, emptyBody{}, nil)
		if err != nil {
			return result{err: err}
		}
		return result{full: r.URL.String(), escaped: r.URL.EscapedPath(), rawQuery: r.URL.RawQuery}
	}
	r, err := restli.NewGetRequest(c, context.Background(), restli.ResourcePathString(rp), q, restli.Method_get)
	if err != nil {
		return result{err: err}
	}
	return result{full: r.URL.String(), escaped: r.URL.EscapedPath(), rawQuery: r.URL.RawQuery}
}

// constructTunnelled builds the request with a tunnelling threshold of 1 (every non-empty query is tunnelled) and hands it
// to the server side's DecodeTunnelledQuery: the URL the server sees must again be the specified one, byte for byte
func constructTunnelled(base string, rp string, query *string, json bool) result {
	u, err := url.Parse(base)
	if err != nil {
		return result{err: err}
	}
	c := &restli.Client{HostnameResolver: &restli.SimpleHostnameResolver{Hostname: u}, QueryTunnellingThreshold: 1}
	var q restli.QueryParamsEncoder
	if query != nil {
		q = restli.QueryParamsString(*query)
	}
	var r *http.Request
	if json {
		r, err = restli.NewJsonRequest(c, context.Background(), restli.ResourcePathString(rp), q, "PUT", restli.Method_update, emptyBody{}, nil)
	} else {
		r, err = restli.NewGetRequest(c, context.Background(), restli.ResourcePathString(rp), q, restli.Method_get)
	}
	if err != nil {
		return result{err: err}
	}
	var body []byte
	if r.Body != nil {
		body, _ = io.ReadAll(r.Body)
	}
	sreq := httptest.NewRequest(r.Method, r.URL.RequestURI(), bytes.NewReader(body))
	sreq.Header = r.Header.Clone()
	if err := restli.DecodeTunnelledQuery(sreq); err != nil {
		return result{err: fmt.Errorf("the server side cannot de-tunnel the request: %w", err)}
	}
	full := sreq.URL.RequestURI()
	if u.Host != "" {
		full = u.Scheme + "://" + u.Host + full
	}
	return result{full: full, escaped: sreq.URL.EscapedPath(), rawQuery: sreq.URL.RawQuery}
}

func classify(ctx, rp []string) string {
	for _, k := range rp {
		if k == "." || k == ".." {
			return "dot-segment-key"
		}
	}
	for i, s := range ctx {
		if strings.HasPrefix(s, "root") && s != "root" && i < len(ctx)-1 {
			return "root-prefixed-segment-before-root"
		}
	}
	return "other"
}

func main() {
	mode := flag.String("mode", "replay", "")
	in := flag.String("in", "", "")
	trace := flag.String("trace", "", "")
	seed := flag.Int64("seed", 1, "")
	n := flag.Int("n", 1000, "")
	flag.Parse()
	out = bufio.NewWriterSize(os.Stdout, 1<<20)
	defer out.Flush()
	queries := map[string]*string{"none": nil}
	p, q := "a=b&c=List(1,2)", "q=x%20y%2Fz&p=%25&e=''"
	queries["plain"], queries["pct"] = &p, &q
	e := "" // present but empty: the request still says "?"
	queries["empty"] = &e
	switch *mode {
	case "replay":
		f, err := os.Open(*in)
		if err != nil {
			panic(err)
		}
		sc := bufio.NewScanner(f)
		sc.Buffer(make([]byte, 1<<20), 1<<26)
		rows, compared := 0, 0
		for sc.Scan() {
			var row Row
			if err := json.Unmarshal(sc.Bytes(), &row); err != nil {
				panic(err)
			}
			rows++
			if row.Unspec {
				continue
			}
			base := baseURL(row.Ctx, row.Slash, row.Host)
			rp := "/" + strings.Join(row.Rp, "/")
			wantPath := "/" + strings.Join(row.Path, "/")
			query := queries[row.Query]
			for _, kind := range []string{"get-request", "json-request", "delete-call", "update-call", "get-request-tunnelled", "json-request-tunnelled"} {
				js := strings.HasPrefix(kind, "json-request")
				var r result
				if strings.HasSuffix(kind, "-tunnelled") {
					if query == nil || *query == "" {
						continue // nothing to tunnel
					}
					r = constructTunnelled(base, rp, query, js)
				} else if strings.HasSuffix(kind, "-call") {
					r = constructCall(base, rp, query, kind)
				} else {
					r = construct(base, rp, query, js)
				}
				compared++
				cs := map[string]any{"base": base, "resource_path": rp, "query": row.Query, "kind": kind, "got": r.full, "want_path": wantPath}
				if r.err != nil {
					violation("C15/error", "request construction failed: "+r.err.Error(), cs)
					continue
				}
				wantFull := ""
				if row.Host {
					wantFull = "https://h.example:8443"
				}
				wantFull += wantPath
				wantQ := ""
				if query != nil {
					wantQ = *query
					wantFull += "?" + wantQ
				}
				if r.escaped != wantPath {
					violation("C15/path/"+classify(row.Ctx, row.Rp), fmt.Sprintf("base %q + resource path %q: request path %q, specified %q", base, rp, r.escaped, wantPath), cs)
					continue
				}
				if r.rawQuery != wantQ {
					violation("C15/query", fmt.Sprintf("query %q reached the URL as %q", wantQ, r.rawQuery), cs)
					continue
				}
				if r.full != wantFull {
					violation("C15/url", fmt.Sprintf("URL %q, specified %q", r.full, wantFull), cs)
				}
			}
		}
		b, _ := json.Marshal(map[string]any{"kind": "stats", "rows": rows, "compared": compared, "violation_counts": vcount})
		out.Write(b)
		out.WriteByte('\n')
	case "record":
		rng := rand.New(rand.NewSource(*seed))
		tf, _ := os.Create(*trace)
		tw := bufio.NewWriter(tf)
		enc := json.NewEncoder(tw)
		ctxPool := []string{"root", "rootx", "roo", "xroot", "ctx", "api", "v2", "root.v1", "ROOT", "ro%6Ft", "a%2Fb", "root;x=1"}
		randKey := func() string {
			switch rng.Intn(8) {
			case 0:
				return "."
			case 1:
				return ".."
			case 2:
				return ""
			case 3:
				return "root"
			}
			nb := 1 + rng.Intn(6)
			b := make([]byte, nb)
			for i := range b {
				b[i] = byte(rng.Intn(256))
			}
			return string(b)
		}
		for i := 0; i < *n; i++ {
			var ctx []string
			for j := rng.Intn(4); j > 0; j-- {
				ctx = append(ctx, ctxPool[rng.Intn(len(ctx)+len(ctxPool))%len(ctxPool)])
			}
			// resource path through the real path writer: /root/{key}[/sub/{key2}]
			segs := []string{"root"}
			nk := rng.Intn(3)
			for j := 0; j < nk; j++ {
				w := restlicodec.NewRor2PathWriter()
				w.WriteString(randKey())
				if j > 0 {
					segs = append(segs, "sub")
				}
				segs = append(segs, w.Finalize())
			}
			var query *string
			qs := ""
			if rng.Intn(3) > 0 {
				qs = "p=" + restlicodec.Ror2QueryEscape(randKey()) + "&q=" + restlicodec.Ror2QueryEscape(randKey())
				query = &qs
			}
			slash, host := rng.Intn(2) == 0, rng.Intn(2) == 0
			base := baseURL(ctx, slash, host)
			r := construct(base, "/"+strings.Join(segs, "/"), query, rng.Intn(2) == 0)
			if ctx == nil {
				ctx = []string{}
			}
			if r.err != nil {
				enc.Encode(map[string]any{"ev": "url", "ctx": ctx, "rp": segs, "err": true, "path": []string{}, "query_in": qs, "query_out": "", "prefix_ok": false})
				continue
			}
			prefix := ""
			if host {
				prefix = "https://h.example:8443"
			}
			obs := strings.Split(strings.TrimPrefix(r.escaped, "/"), "/")
			enc.Encode(map[string]any{"ev": "url", "ctx": ctx, "rp": segs, "err": false, "path": obs, "query_in": qs, "query_out": r.rawQuery,
				"prefix_ok": strings.HasPrefix(r.full, prefix+"/") && strings.HasPrefix(r.escaped, "/")})
		}
		tw.Flush()
		tf.Close()
	}
}
