// Harness for ClientResp.tla: every abstract response of the table TLC exports is concretised (status line, headers,
// body text), handed to the real client through a canned transport for the kind of call the row names, and the error the
// client returns is classified and compared with the specification's outcome.
package main

import (
	"bufio"
	"context"
	"encoding/json"
	"errors"
	"flag"
	"fmt"
	"io"
	"net/http"
	"net/url"
	"os"
	"strings"

	"github.com/PapaCharlie/go-restli/v2/restli"
	"github.com/PapaCharlie/go-restli/v2/restlicodec"
)

type Resp struct {
	Sc     string `json:"sc"`
	Eh     string `json:"eh"`
	Pv     string `json:"pv"`
	Body   string `json:"body"`
	Id     string `json:"id"`
	Kind   string `json:"kind"`
	Strict bool   `json:"strict"`
}

type Outcome struct {
	O       string `json:"o"`
	Status  string `json:"status,omitempty"`
	Decoded *bool  `json:"decoded,omitempty"`
}

type Row struct {
	Resp    Resp    `json:"resp"`
	Outcome Outcome `json:"outcome"`
}

type entT struct{ X int32 }

var entRequired = requiredFields("x")

func (e *entT) NewInstance() *entT { return new(entT) }
func (e *entT) MarshalRestLi(w restlicodec.Writer) error {
	return w.WriteMap(func(kw func(string) restlicodec.Writer) error { kw("x").WriteInt32(e.X); return nil })
}
func (e *entT) UnmarshalRestLi(r restlicodec.Reader) error {
	return r.ReadRecord(entRequired, func(r restlicodec.Reader, k string) (err error) {
		if k == "x" {
			e.X, err = r.ReadInt32()
			return err
		}
		return r.Skip()
	})
}

type canned struct {
	status int
	hdr    http.Header
	body   string
}

func (c *canned) RoundTrip(req *http.Request) (*http.Response, error) {
	if req.Body != nil {
		io.Copy(io.Discard, req.Body)
		req.Body.Close()
	}
	return &http.Response{StatusCode: c.status, Status: http.StatusText(c.status), Header: c.hdr.Clone(), Body: io.NopCloser(strings.NewReader(c.body)), Request: req, ProtoMajor: 1, ProtoMinor: 1}, nil
}

var httpStatus = map[string]int{"2xx": 200, "3xx": 301, "4xx": 404, "5xx": 503}

const bodyStatus = 418 // the status an error document carries, different from every HTTP status used

var bodies = map[string]string{
	"entity": `{"x":1}`, "partial": `{"y":2}`, "error_with_status": `{"status":418,"message":"m","exceptionClass":"c"}`,
	"error_no_status": `{"message":"m"}`, "garbage": `{"x":`, "empty": ``,
}

func main() {
	in := flag.String("in", "", "")
	flag.Parse()
	f, err := os.Open(*in)
	if err != nil {
		panic(err)
	}
	out := bufio.NewWriter(os.Stdout)
	defer out.Flush()
	emit := func(o any) {
		b, _ := json.Marshal(o)
		out.Write(b)
		out.WriteByte('\n')
	}
	sc := bufio.NewScanner(f)
	n, bad := 0, 0
	u, _ := url.Parse("http://host.example")
	for sc.Scan() {
		var row Row
		if err := json.Unmarshal(sc.Bytes(), &row); err != nil {
			panic(err)
		}
		r := row.Resp
		hdr := http.Header{}
		switch r.Eh {
		case "true", "TRUE", "false":
			hdr.Set("X-RestLi-Error-Response", r.Eh)
		case "other":
			hdr.Set("X-RestLi-Error-Response", "yes")
		}
		switch r.Pv {
		case "2.0.0":
			hdr.Set("X-RestLi-Protocol-Version", "2.0.0")
		case "other":
			hdr.Set("X-RestLi-Protocol-Version", "1.0.0")
		}
		switch r.Id {
		case "key":
			hdr.Set("X-RestLi-Id", "7")
		case "malformed":
			hdr.Set("X-RestLi-Id", "(")
		}
		status := httpStatus[r.Sc]
		if r.Kind == "created" && r.Sc == "2xx" {
			status = 201
		}
		tr := &canned{status: status, hdr: hdr, body: bodies[r.Body]}
		c := &restli.Client{Client: &http.Client{Transport: tr, CheckRedirect: func(*http.Request, []*http.Request) error { return http.ErrUseLastResponse }},
			HostnameResolver: &restli.SimpleHostnameResolver{Hostname: u}, StrictResponseDeserialization: r.Strict}
		ctx := context.Background()
		var callErr error
		var value string
		func() {
			defer func() {
				if p := recover(); p != nil {
					callErr = fmt.Errorf("PANIC: %v", p)
				}
			}()
			switch r.Kind {
			case "entity":
				var e *entT
				e, callErr = restli.Get[*entT](c, ctx, restli.ResourcePathString("/r/1"), nil)
				if e != nil {
					value = fmt.Sprintf("x=%d", e.X)
				}
			case "void":
				callErr = restli.Delete(c, ctx, restli.ResourcePathString("/r/1"), nil)
			case "created":
				var ce any
				ce, callErr = create(c, ctx)
				value = fmt.Sprint(ce)
			}
		}()
		got := Outcome{O: "ok"}
		var re *restli.Error
		var us *restli.UnexpectedStatusCodeError
		var up *restli.UnsupportedRestLiProtocolVersion
		var mf *restlicodec.MissingRequiredFieldsError
		var ni *restli.CreateResponseHasNoEntityHeaderError
		switch {
		case callErr == nil:
		case strings.HasPrefix(callErr.Error(), "PANIC"):
			got.O = "panic"
		case errors.As(callErr, &re):
			got.O = "restli_error"
			got.Status = "http"
			if re.Status != nil && *re.Status == bodyStatus {
				got.Status = "body"
			} else if re.Status == nil || int(*re.Status) != status {
				got.Status = fmt.Sprintf("neither (%v)", re.Status)
			}
			d := re.DeserializationError == nil
			got.Decoded = &d
		case errors.As(callErr, &us):
			got.O = "unexpected_status"
		case errors.As(callErr, &up):
			got.O = "unsupported_protocol"
		case errors.As(callErr, &mf):
			got.O = "missing_fields"
		case errors.As(callErr, &ni):
			got.O = "no_id_header"
		default:
			got.O = "decode_error"
		}
		n++
		same := got.O == row.Outcome.O && got.Status == row.Outcome.Status &&
			((got.Decoded == nil) == (row.Outcome.Decoded == nil)) && (got.Decoded == nil || *got.Decoded == *row.Outcome.Decoded)
		if !same {
			bad++
			if bad <= 40 {
				emit(map[string]any{"kind": "violation", "key": fmt.Sprintf("X-CLIENTRESP/%s/%s-instead-of-%s", r.Kind, got.O, row.Outcome.O),
					"what": fmt.Sprintf("response %+v: the client returned %+v (error %v, value %s), ClientResp.tla says %+v", r, got, callErr, value, row.Outcome), "case": row})
			}
		}
	}
	emit(map[string]any{"kind": "stats", "rows": n, "disagreements": bad})
}
