//go:build root

package main

import (
	"context"

	"github.com/PapaCharlie/go-restli/v2/restli"
	"github.com/PapaCharlie/go-restli/v2/restlicodec"
)

func requiredFields(names ...string) restlicodec.RequiredFields {
	return restlicodec.RequiredFields(names)
}

func create(c *restli.Client, ctx context.Context) (any, error) {
	return restli.Create[int64](c, ctx, restli.ResourcePathString("/r"), &entT{X: 1}, nil, nil)
}
