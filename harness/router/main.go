// Harness for C05 (routing and method inference): model -> code replay and code -> model trace recording.
//
// Every model tree is registered on a real restli.Server with the generic Register* functions, a harness-defined
// resource-path type and recording handlers and filters (no generated code).  Every row exported by TLC from
// Router.tla -- (tree, path, verb, method header) x 27 combinations of (q, ids, action) -- is sent in-process, plain
// and tunnelled, against the bare handler, a ServeMux mounting and a prefixed server, and the observed outcome
// (status, which handler ran with which keys, what the filters saw, in which order) is compared with the set of
// outcomes the specification admits.
package main

import (
	"bufio"
	"bytes"
	"context"
	"encoding/json"
	"flag"
	"fmt"
	"io"
	"net/http"
	"net/http/httptest"
	"os"
	"sort"
	"strings"
	"sync"

	"github.com/PapaCharlie/go-restli/v2/restli"
	"github.com/PapaCharlie/go-restli/v2/restlicodec"
	"github.com/PapaCharlie/go-restli/v2/restlidata/generated/com/linkedin/restli/common"
)

// ---- resource path, query params and entity types of the harness

type rpT struct{ keys []string }

func (r *rpT) NewInstance() *rpT { return new(rpT) }
func (r *rpT) UnmarshalResourcePath(segments []restlicodec.Reader) error {
	for _, s := range segments {
		k, err := s.ReadString()
		if err != nil {
			return err
		}
		r.keys = append(r.keys, k)
	}
	return nil
}

type qpT struct{}

func (q *qpT) NewInstance() *qpT                                     { return new(qpT) }
func (q *qpT) DecodeQueryParams(restlicodec.QueryParamsReader) error { return nil }

type entT struct{}

func (e *entT) NewInstance() *entT { return new(entT) }
func (e *entT) MarshalRestLi(w restlicodec.Writer) error {
	return w.WriteMap(func(func(string) restlicodec.Writer) error { return nil })
}
func (e *entT) UnmarshalRestLi(r restlicodec.Reader) error {
	return r.ReadMap(func(r restlicodec.Reader, _ string) error { return r.Skip() })
}

// ---- recording

type ctxKey int

const recKey ctxKey = 0

type recorder struct {
	mu      sync.Mutex
	invoked []string // "node|method|name|k1,k2"
	filters []string // "pre1", "pre2", "post2", "post1"
	seen    []string // what each PreRequest saw: "method|name|segs|keys"
}

func recOf(ctx context.Context) *recorder {
	r, _ := ctx.Value(recKey).(*recorder)
	return r
}

type recFilter struct {
	id string
}

func (f *recFilter) PreRequest(req *http.Request) (context.Context, error) {
	r := recOf(req.Context())
	if r == nil {
		return nil, nil
	}
	ctx := req.Context()
	m := restli.GetMethodFromContext(ctx)
	name := ""
	if m == restli.Method_finder {
		name = restli.GetFinderNameFromContext(ctx)
	} else if m == restli.Method_action {
		name = restli.GetActionNameFromContext(ctx)
	}
	var keys []string
	for _, rd := range restli.GetEntitySegmentsFromContext(ctx) {
		k, err := rd.ReadString()
		if err != nil {
			k = "!err"
		}
		keys = append(keys, k)
	}
	segs := restli.GetResourcePathSegmentsFromContext(ctx)
	r.mu.Lock()
	r.filters = append(r.filters, "pre"+f.id)
	// the whole resource path (names and kinds of every segment from the root), not only its length
	r.seen = append(r.seen, fmt.Sprintf("%s|%s|%d %v|%s", m.String(), name, len(segs), segs, strings.Join(keys, ",")))
	r.mu.Unlock()
	return nil, nil
}

func (f *recFilter) PostRequest(ctx context.Context, _ http.Header) error {
	if r := recOf(ctx); r != nil {
		r.mu.Lock()
		r.filters = append(r.filters, "post"+f.id)
		r.mu.Unlock()
	}
	return nil
}

// ---- trees

type Node struct {
	Coll    bool     `json:"coll"`
	Methods []string `json:"methods"`
	Finders []string `json:"finders"`
	Actions []string `json:"actions"`
	Subs    []string `json:"subs"`
}

type Tree struct {
	Id    string          `json:"id"`
	Roots []string        `json:"roots"`
	Nodes map[string]Node `json:"nodes"`
}

func (t *Tree) segmentsOf(name string) []restli.ResourcePathSegment {
	// find the parent chain
	var chain []string
	cur := name
	for {
		chain = append([]string{cur}, chain...)
		parent := ""
		for pn, p := range t.Nodes {
			for _, s := range p.Subs {
				if s == cur {
					parent = pn
				}
			}
		}
		if parent == "" {
			break
		}
		cur = parent
	}
	var segs []restli.ResourcePathSegment
	for _, c := range chain {
		segs = append(segs, restli.NewResourcePathSegment(c, t.Nodes[c].Coll))
	}
	return segs
}

func record(ctx *restli.RequestContext, node, method, name string, rp *rpT) {
	if r := recOf(ctx.Request.Context()); r != nil {
		r.mu.Lock()
		r.invoked = append(r.invoked, fmt.Sprintf("%s|%s|%s|%s", node, method, name, strings.Join(rp.keys, ",")))
		r.mu.Unlock()
	}
}

type bqp = *restli.SliceBatchQueryParams[string]
type bresp = *common.BatchResponse[string, *common.BatchEntityUpdateResponse]

func registerMethod(s restli.Server, segs []restli.ResourcePathSegment, node, m string) {
	switch m {
	case "get":
		restli.RegisterGet(s, segs, func(ctx *restli.RequestContext, rp *rpT, qp *qpT) (*entT, error) {
			record(ctx, node, m, "", rp)
			return &entT{}, nil
		})
	case "create":
		restli.RegisterCreate(s, segs, nil, func(ctx *restli.RequestContext, rp *rpT, v *entT, qp *qpT) (*common.CreatedEntity[string], error) {
			record(ctx, node, m, "", rp)
			return &common.CreatedEntity[string]{Id: "new"}, nil
		})
	case "delete":
		restli.RegisterDelete(s, segs, func(ctx *restli.RequestContext, rp *rpT, qp *qpT) error {
			record(ctx, node, m, "", rp)
			return nil
		})
	case "update":
		restli.RegisterUpdate(s, segs, nil, func(ctx *restli.RequestContext, rp *rpT, v *entT, qp *qpT) error {
			record(ctx, node, m, "", rp)
			return nil
		})
	case "partial_update":
		restli.RegisterPartialUpdate(s, segs, nil, func(ctx *restli.RequestContext, rp *rpT, v *entT, qp *qpT) error {
			record(ctx, node, m, "", rp)
			return nil
		})
	case "batch_get":
		restli.RegisterBatchGet(s, segs, func(ctx *restli.RequestContext, rp *rpT, keys []string, qp bqp) (*common.BatchResponse[string, *entT], error) {
			record(ctx, node, m, "", rp)
			return &common.BatchResponse[string, *entT]{}, nil
		})
	case "batch_create":
		restli.RegisterBatchCreate(s, segs, nil, func(ctx *restli.RequestContext, rp *rpT, vs []*entT, qp *qpT) ([]*common.CreatedEntity[string], error) {
			record(ctx, node, m, "", rp)
			return nil, nil
		})
	case "batch_delete":
		restli.RegisterBatchDelete(s, segs, func(ctx *restli.RequestContext, rp *rpT, keys []string, qp bqp) (bresp, error) {
			record(ctx, node, m, "", rp)
			return &common.BatchResponse[string, *common.BatchEntityUpdateResponse]{}, nil
		})
	case "batch_update":
		restli.RegisterBatchUpdate(s, segs, nil, func(ctx *restli.RequestContext, rp *rpT, vs map[string]*entT, qp bqp) (bresp, error) {
			record(ctx, node, m, "", rp)
			return &common.BatchResponse[string, *common.BatchEntityUpdateResponse]{}, nil
		})
	case "batch_partial_update":
		restli.RegisterBatchPartialUpdate(s, segs, nil, func(ctx *restli.RequestContext, rp *rpT, vs map[string]*entT, qp bqp) (bresp, error) {
			record(ctx, node, m, "", rp)
			return &common.BatchResponse[string, *common.BatchEntityUpdateResponse]{}, nil
		})
	case "get_all":
		restli.RegisterGetAll(s, segs, func(ctx *restli.RequestContext, rp *rpT, qp *qpT) (*common.Elements[*entT], error) {
			record(ctx, node, m, "", rp)
			return &common.Elements[*entT]{}, nil
		})
	default:
		panic("unknown method " + m)
	}
}

var allRest = []string{"get", "create", "delete", "update", "partial_update", "batch_get", "batch_create", "batch_delete",
	"batch_update", "batch_partial_update", "get_all"}

func register(s restli.Server, t *Tree) {
	names := make([]string, 0, len(t.Nodes))
	for n := range t.Nodes {
		names = append(names, n)
	}
	sort.Strings(names)
	for _, name := range names {
		n := t.Nodes[name]
		segs := t.segmentsOf(name)
		node := name
		for _, m := range n.Methods {
			registerMethod(s, segs, node, m)
		}
		for _, f := range n.Finders {
			fn := f
			restli.RegisterFinder(s, segs, fn, func(ctx *restli.RequestContext, rp *rpT, qp *qpT) (*common.Elements[*entT], error) {
				record(ctx, node, "finder", fn, rp)
				return &common.Elements[*entT]{}, nil
			})
		}
		for _, a := range n.Actions {
			an := a
			restli.RegisterAction(s, segs, an, func(ctx *restli.RequestContext, rp *rpT, p *entT) error {
				record(ctx, node, "action", an, rp)
				return nil
			})
		}
	}
}

// registerLate registers, after a handler was obtained, a new root resource and every missing method, finder and
// action on every existing node: none of it may be visible through the earlier handler.
func registerLate(s restli.Server, t *Tree) {
	segs := []restli.ResourcePathSegment{restli.NewResourcePathSegment("zz", true)}
	for _, m := range allRest {
		registerMethod(s, segs, "zz", m)
	}
	for name, n := range t.Nodes {
		has := map[string]bool{}
		for _, m := range n.Methods {
			has[m] = true
		}
		nsegs := t.segmentsOf(name)
		node := name
		for _, m := range allRest {
			if !has[m] {
				registerMethod(s, nsegs, node+"-late", m)
			}
		}
		restli.RegisterFinder(s, nsegs, "zz", func(ctx *restli.RequestContext, rp *rpT, qp *qpT) (*common.Elements[*entT], error) {
			record(ctx, node+"-late", "finder", "zz", rp)
			return &common.Elements[*entT]{}, nil
		})
		restli.RegisterAction(s, nsegs, "zz", func(ctx *restli.RequestContext, rp *rpT, p *entT) error {
			record(ctx, node+"-late", "action", "zz", rp)
			return nil
		})
		subsegs := append(append([]restli.ResourcePathSegment{}, nsegs...), restli.NewResourcePathSegment("zz", false))
		registerMethod(s, subsegs, node+"-latesub", "get")
	}
}

// ---- rows

type Row struct {
	T      string          `json:"t"`
	Path   []string        `json:"path"`
	Verb   string          `json:"verb"`
	Hdr    string          `json:"hdr"`
	Exp    [][]interface{} `json:"exp"` // 27 x set of outcomes; outcome = ["404"] or [node, method, name, keys, segs]
	Unspec []bool          `json:"unspec"`
	Oper   []interface{}   `json:"oper"`
}

var qv = []string{"none", "f1", "zz"}
var iv = []string{"none", "some", "bad"}
var av = []string{"none", "a1", "zz"}

type outcome struct {
	st     string // routed | 404 | 400 | 500 | other
	node   string
	method string
	name   string
	keys   string
	nseg   int
}

func (o outcome) String() string {
	if o.st == "routed" {
		return fmt.Sprintf("routed(%s.%s%s keys=[%s])", o.node, o.method, map[bool]string{true: ":" + o.name, false: ""}[o.name != ""], o.keys)
	}
	return o.st
}

func parseOutcome(x interface{}) outcome {
	a := x.([]interface{})
	if len(a) == 1 {
		return outcome{st: a[0].(string)}
	}
	var keys []string
	for _, k := range a[3].([]interface{}) {
		keys = append(keys, k.(string))
	}
	return outcome{st: "routed", node: a[0].(string), method: a[1].(string), name: a[2].(string), keys: strings.Join(keys, ","),
		nseg: len(a[4].([]interface{}))}
}

func bodyFor(method string) []byte {
	switch method {
	case "create", "update", "action":
		return []byte(`{}`)
	case "partial_update":
		return []byte(`{"patch":{}}`)
	case "batch_create":
		return []byte(`{"elements":[]}`)
	case "batch_update", "batch_partial_update":
		return []byte(`{"entities":{}}`)
	}
	return nil
}

type mount struct {
	name    string
	handler http.Handler
	prefix  string
}

type result struct {
	obs     outcome
	status  int
	errHdr  bool
	rec     *recorder
	body    string
	version string
}

// mode 0: as is; 1: tunnelled (POST + override header, query in the body); 2: a stray X-HTTP-Method-Override header on a
// request that is not a POST (Tunnel.tla: ignored, the request is routed by its own verb)
func send(m *mount, verb, target string, hdr string, body []byte, mode int) result {
	tunnel := mode == 1
	u := "http://host" + m.prefix + target
	path, query, _ := strings.Cut(u, "?")
	var req *http.Request
	h := http.Header{}
	if body != nil {
		h.Set("Content-Type", "application/json")
	}
	if tunnel {
		nb, th := restli.EncodeTunnelledQuery(verb, query, body)
		req = httptest.NewRequest("POST", path, bytes.NewReader(nb))
		for k := range th {
			h.Set(k, th.Get(k))
		}
	} else {
		var rd io.Reader = http.NoBody
		if body != nil {
			rd = bytes.NewReader(body)
		}
		req = httptest.NewRequest(verb, u, rd)
	}
	for k := range h {
		req.Header.Set(k, h.Get(k))
	}
	req.Header.Set("X-RestLi-Protocol-Version", "2.0.0")
	if mode == 2 {
		req.Header.Set("X-HTTP-Method-Override", map[bool]string{true: "DELETE", false: "GET"}[verb == "GET"])
		if body == nil {
			req.Header.Set("Content-Type", "application/x-www-form-urlencoded")
		}
	}
	switch hdr {
	case "absent":
	case "unknown":
		req.Header.Set("X-RestLi-Method", "bogus")
	default:
		req.Header.Set("X-RestLi-Method", hdr)
	}
	rec := &recorder{}
	req = req.WithContext(context.WithValue(req.Context(), recKey, rec))
	w := httptest.NewRecorder()
	m.handler.ServeHTTP(w, req)
	res := result{status: w.Code, errHdr: w.Header().Get("X-RestLi-Error-Response") != "", rec: rec, body: w.Body.String(),
		version: w.Header().Get("X-RestLi-Protocol-Version")}
	switch {
	case len(rec.invoked) > 0:
		p := strings.Split(rec.invoked[0], "|")
		res.obs = outcome{st: "routed", node: p[0], method: p[1], name: p[2], keys: p[3]}
	case w.Code == 404:
		res.obs = outcome{st: "404"}
	case w.Code == 400:
		res.obs = outcome{st: "400"}
	case w.Code >= 500:
		res.obs = outcome{st: "500"}
	default:
		res.obs = outcome{st: fmt.Sprintf("status%d", w.Code)}
	}
	return res
}

type violation struct {
	Key  string `json:"key"`
	What string `json:"what"`
	Case any    `json:"case"`
}

var (
	outMu  sync.Mutex
	out    *bufio.Writer
	vcount = map[string]int{}
)

func emitViolation(key, what string, c any) {
	outMu.Lock()
	defer outMu.Unlock()
	vcount[key]++
	if vcount[key] > 3 {
		return
	}
	b, _ := json.Marshal(map[string]any{"kind": "violation", "key": key, "what": what, "case": c})
	out.Write(b)
	out.WriteByte('\n')
}

func shape(t *Tree, path []string) string {
	var sb strings.Builder
	for _, p := range path {
		switch {
		case p == "k":
			sb.WriteString("k")
		case p == "":
			sb.WriteString("e")
		case p == ")":
			sb.WriteString("b")
		case p == "zz":
			sb.WriteString("z")
		default:
			if n, ok := t.Nodes[p]; ok {
				if n.Coll {
					sb.WriteString("C")
				} else {
					sb.WriteString("S")
				}
			} else {
				sb.WriteString("?")
			}
		}
	}
	return sb.String()
}

func hdrClass(h string) string {
	if h == "absent" || h == "unknown" {
		return h
	}
	return "named"
}

type counters struct {
	Requests, Compared, Unspecified, Routed, Rejected404, Rejected400, DecodeFragile, ModelAgree, ModelDisagree int64
}

func main() {
	treesFile := flag.String("trees", "", "")
	rowsFile := flag.String("rows", "", "")
	traceFile := flag.String("trace", "", "ndjson trace output (one event per request, bare mounting, sampled)")
	traceEvery := flag.Int("trace-every", 50, "")
	flag.Parse()
	out = bufio.NewWriterSize(os.Stdout, 1<<20)
	defer out.Flush()

	var trees []Tree
	tb, err := os.ReadFile(*treesFile)
	if err != nil {
		panic(err)
	}
	if err := json.Unmarshal(tb, &trees); err != nil {
		panic(err)
	}
	type mounted struct {
		tree   *Tree
		mounts []*mount
	}
	mts := map[string]*mounted{}
	for i := range trees {
		t := &trees[i]
		f1, f2 := &recFilter{id: "1"}, &recFilter{id: "2"}
		s := restli.NewServer(f1, f2)
		register(s, t)
		bare := s.Handler()
		mux := http.NewServeMux()
		s.AddToMux(mux)
		registerLate(s, t) // after Handler()/AddToMux: must not be visible through them
		ps := restli.NewPrefixedServer("/api/v1", &recFilter{id: "1"}, &recFilter{id: "2"})
		register(ps, t)
		pmux := http.NewServeMux()
		ps.AddToMux(pmux)
		mts[t.Id] = &mounted{tree: t, mounts: []*mount{
			{"bare", bare, ""}, {"mux", mux, ""}, {"prefix", ps.Handler(), "/api/v1"}, {"prefix-mux", pmux, "/api/v1"}}}
	}

	f, err := os.Open(*rowsFile)
	if err != nil {
		panic(err)
	}
	sc := bufio.NewScanner(f)
	sc.Buffer(make([]byte, 1<<20), 1<<26)
	rows := make(chan Row, 256)
	var wg sync.WaitGroup
	var cmu sync.Mutex
	var total counters
	var traceMu sync.Mutex
	var traceW *bufio.Writer
	if *traceFile != "" {
		tf, _ := os.Create(*traceFile)
		defer tf.Close()
		traceW = bufio.NewWriterSize(tf, 1<<20)
		defer traceW.Flush()
	}
	var rowSeq int64
	for w := 0; w < 16; w++ {
		wg.Add(1)
		go func() {
			defer wg.Done()
			var c counters
			for row := range rows {
				mt := mts[row.T]
				t := mt.tree
				for i := 0; i < 27; i++ {
					q, ids, act := qv[i/9], iv[(i/3)%3], av[i%3]
					var exp []outcome
					for _, e := range row.Exp[i] {
						exp = append(exp, parseOutcome(e))
					}
					oper := parseOutcome(row.Oper[i])
					// the single routed method the specification admits (if any) selects the body
					var body []byte
					fragile := false
					for _, e := range exp {
						if e.st == "routed" {
							body = bodyFor(e.method)
							if strings.HasPrefix(e.method, "batch_") && e.method != "batch_create" && (ids != "some" || q != "none" || act != "none") {
								fragile = true // the ids parameter is missing, or parameters the batch decoder does not know are present: parameters do not decode
							}
							for _, k := range strings.Split(e.keys, ",") {
								if k == "" && e.keys != "" || (e.keys == "" && strings.Contains(strings.Join(row.Path, "/"), "//")) {
									fragile = true
								}
							}
							if strings.HasSuffix("/"+strings.Join(row.Path, "/"), "/") {
								fragile = true // trailing empty segment read as an empty key: whether it decodes is the key type's business
							}
						}
					}
					var qs []string
					if q != "none" {
						qs = append(qs, "q="+q)
					}
					if ids == "some" {
						qs = append(qs, "ids=List(k)")
					} else if ids == "bad" {
						qs = append(qs, "ids=)")
					}
					if act != "none" {
						qs = append(qs, "action="+act)
					}
					target := "/" + strings.Join(row.Path, "/")
					if len(qs) > 0 {
						target += "?" + strings.Join(qs, "&")
					}
					hasEmpty := false
					for _, p := range row.Path {
						if p == "" {
							hasEmpty = true
						}
					}
					for _, m := range mt.mounts {
						isMux := strings.HasSuffix(m.name, "mux")
						if isMux && hasEmpty {
							continue // ServeMux answers empty segments itself (redirect to the cleaned path)
						}
						for mode := 0; mode < 5; mode++ {
							tunnel := mode == 1
							target := target
							if mode >= 3 {
								// an EMPTY element in the query string (a leading "&", a doubled "&&"): it carries no parameter and
								// changes nothing
								if m.name != "bare" || len(qs) == 0 {
									continue
								}
								if mode == 3 {
									target = "/" + strings.Join(row.Path, "/") + "?&" + strings.Join(qs, "&")
								} else {
									target = "/" + strings.Join(row.Path, "/") + "?&&" + strings.Join(qs, "&&")
								}
							}
							if tunnel && (m.name != "bare" || len(qs) == 0) {
								continue // a client never tunnels an empty query
							}
							if mode == 2 && (m.name != "bare" || row.Verb == "POST") {
								continue
							}
							res := send(m, row.Verb, target, row.Hdr, body, mode)
							c.Requests++
							cs := map[string]any{"tree": row.T, "mount": m.name, "tunnelled": tunnel, "strayOverride": mode == 2, "verb": row.Verb, "hdr": row.Hdr,
								"target": target, "status": res.status, "observed": res.obs.String(), "admissible": fmt.Sprint(exp)}
							// invariants that hold for every request, specified or not
							if len(res.rec.invoked) > 1 {
								emitViolation("C05/more-than-one-method-invoked", fmt.Sprintf("%d handlers ran: %v", len(res.rec.invoked), res.rec.invoked), cs)
							}
							if len(res.rec.invoked) == 0 && len(res.rec.filters) > 0 && res.status < 500 {
								// filters ran but the method did not: only legitimate if the adapter then refused to decode
								if !(res.status == 400) {
									emitViolation("C05/filters-ran-without-method/"+fmt.Sprint(res.status), "filters ran for a request that was not routed", cs)
								}
							}
							if row.Unspec[i] {
								c.Unspecified++
								continue
							}
							c.Compared++
							ok := false
							for _, e := range exp {
								if e.st == res.obs.st && (e.st != "routed" || (e.node == res.obs.node && e.method == res.obs.method && e.name == res.obs.name && e.keys == res.obs.keys)) {
									ok = true
								}
							}
							if !ok && fragile && res.obs.st == "400" {
								ok = true
								c.DecodeFragile++
							}
							if res.obs.st == oper.st && (oper.st != "routed" || (oper.node == res.obs.node && oper.method == res.obs.method)) {
								c.ModelAgree++
							} else {
								c.ModelDisagree++
							}
							switch res.obs.st {
							case "routed":
								c.Routed++
							case "404":
								c.Rejected404++
							case "400":
								c.Rejected400++
							}
							if !ok {
								key := ""
								hasBadKey := false
								for _, p := range row.Path {
									if p == ")" {
										hasBadKey = true
									}
								}
								switch {
								case hasBadKey && res.obs.st == "404" && len(exp) >= 1 && exp[0].st == "400":
									key = "C05/undecodable-key-answered-404"
								case ids == "bad" && res.obs.st == "500":
									key = "C05/unparseable-query-answered-500"
								case m.name == "prefix" || m.name == "prefix-mux" || m.name == "mux":
									expk := "rejected"
									for _, e := range exp {
										if e.st == "routed" {
											expk = "routed"
										}
									}
									key = fmt.Sprintf("C05/mount=%s/expected-%s/got-%s/%s", m.name, expk, res.obs.st, map[bool]string{true: "entity-path", false: "resource-path"}[len(row.Path) > 1])
								default:
									expk := exp[0].st
									key = fmt.Sprintf("C05/expected-%s/got-%s/%s/%s/%s/q=%s,ids=%s,act=%s", expk, res.obs.st, shape(t, row.Path), row.Verb, hdrClass(row.Hdr), q, ids, act)
								}
								if mode == 2 {
									key = "C05/stray-override-on-" + row.Verb + "/" + key[4:]
								} else if mode >= 3 {
									key = "C05/empty-query-element/" + key[4:]
								}
								emitViolation(key, fmt.Sprintf("%s %s (method header %s, mount %s, tunnelled %v): observed %s (HTTP %d), the specification admits %v",
									row.Verb, target, row.Hdr, m.name, tunnel, res.obs, res.status, exp), cs)
								continue
							}
							// routed: filters in registration order before, reverse order after; they saw the routed facts
							if res.obs.st == "routed" {
								want := "pre1,pre2,post2,post1"
								if got := strings.Join(res.rec.filters, ","); got != want {
									emitViolation("C05/filter-order", fmt.Sprintf("filters ran as [%s], expected [%s]", got, want), cs)
								}
								for _, e := range exp {
									if e.st == "routed" && e.node == res.obs.node && e.method == res.obs.method {
										wantSeen := fmt.Sprintf("%s|%s|%d %v|%s", e.method, e.name, e.nseg, mt.tree.segmentsOf(e.node), e.keys)
										for _, s := range res.rec.seen {
											if s != wantSeen {
												emitViolation("C05/filter-context", fmt.Sprintf("a filter saw %q, the routed facts are %q", s, wantSeen), cs)
											}
										}
									}
								}
								if res.status < 200 || res.status > 299 || res.errHdr {
									emitViolation("C05/routed-but-failure-status", fmt.Sprintf("method invoked and succeeded but HTTP %d (error header %v)", res.status, res.errHdr), cs)
								}
							} else {
								if len(res.rec.filters) > 0 && !fragile {
									emitViolation("C05/filters-ran-for-unrouted-request", fmt.Sprintf("filters %v ran for a request answered %d", res.rec.filters, res.status), cs)
								}
								if strings.Contains(res.body, "goroutine ") {
									emitViolation("C05/stack-trace-in-response", "response body carries a stack trace", cs)
								}
							}
							if traceW != nil && m.name == "bare" && mode == 0 {
								traceMu.Lock()
								rowSeq++
								if rowSeq%int64(*traceEvery) == 0 {
									ev := map[string]any{"ev": "req", "t": row.T, "path": row.Path, "verb": row.Verb, "hdr": row.Hdr, "q": q, "ids": ids, "act": act,
										"st": res.obs.st, "node": res.obs.node, "method": res.obs.method, "name": res.obs.name, "fragile": fragile}
									b, _ := json.Marshal(ev)
									traceW.Write(b)
									traceW.WriteByte('\n')
								}
								traceMu.Unlock()
							}
						}
					}
				}
			}
			cmu.Lock()
			total.Requests += c.Requests
			total.Compared += c.Compared
			total.Unspecified += c.Unspecified
			total.Routed += c.Routed
			total.Rejected404 += c.Rejected404
			total.Rejected400 += c.Rejected400
			total.DecodeFragile += c.DecodeFragile
			total.ModelAgree += c.ModelAgree
			total.ModelDisagree += c.ModelDisagree
			cmu.Unlock()
		}()
	}
	nrows := 0
	for sc.Scan() {
		var row Row
		if err := json.Unmarshal(sc.Bytes(), &row); err != nil {
			panic(err)
		}
		rows <- row
		nrows++
	}
	close(rows)
	wg.Wait()
	outMu.Lock()
	b, _ := json.Marshal(map[string]any{"kind": "stats", "rows": nrows, "counters": total, "violation_counts": vcount})
	out.Write(b)
	out.WriteByte('\n')
	outMu.Unlock()
}
