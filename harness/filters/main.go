// Harness for the filter-chain clause of C05.  Every behaviour exported by TLC from Filters.tla (chain of up to 3 filters
// of kinds pass / addctx / failpre / failpost, method outcome ok / error) is run on a real server: the order of the
// PreRequest / method / PostRequest calls, the context markers each of them sees and the HTTP status are compared with
// the specification.
package main

import (
	"bufio"
	"context"
	"encoding/json"
	"flag"
	"fmt"
	"net/http"
	"net/http/httptest"
	"os"
	"reflect"

	"github.com/PapaCharlie/go-restli/v2/restli"
	"github.com/PapaCharlie/go-restli/v2/restlicodec"
	"github.com/PapaCharlie/go-restli/v2/restlidata/generated/com/linkedin/restli/common"
)

type rpT struct{ keys []string }

func (r *rpT) NewInstance() *rpT { return new(rpT) }
func (r *rpT) UnmarshalResourcePath(segments []restlicodec.Reader) error {
	for _, s := range segments {
		k, err := s.ReadString()
		if err != nil {
			return err
		}
		r.keys = append(r.keys, k)
	}
	return nil
}

type qpT struct{}

func (q *qpT) NewInstance() *qpT                                     { return new(qpT) }
func (q *qpT) DecodeQueryParams(restlicodec.QueryParamsReader) error { return nil }

type entT struct{ X int32 }

func (e *entT) NewInstance() *entT { return new(entT) }
func (e *entT) MarshalRestLi(w restlicodec.Writer) error {
	return w.WriteMap(func(kw func(string) restlicodec.Writer) error {
		kw("x").WriteInt32(e.X)
		return nil
	})
}

type call struct {
	What string `json:"what"`
	I    int    `json:"i"`
	Seen []int  `json:"seen"`
}

type marker int

// factsBroken is set when a filter or the method cannot read the routed method from its context any more
var factsBroken string

func seen(ctx context.Context) []int {
	func() {
		defer func() {
			if r := recover(); r != nil {
				factsBroken = fmt.Sprint("reading the routed method panicked: ", r)
			}
		}()
		if m := restli.GetMethodFromContext(ctx); m != restli.Method_get {
			factsBroken = fmt.Sprintf("the routed method reads %v, the request is a get", m)
		}
	}()
	out := []int{}
	for j := 1; j <= 8; j++ {
		if ctx.Value(marker(j)) != nil {
			out = append(out, j)
		}
	}
	return out
}

type filter struct {
	i    int
	kind string
	log  *[]call
}

func errResp(status int32) error {
	msg := "filter says no"
	return &common.ErrorResponse{Status: &status, Message: &msg}
}

func (f *filter) PreRequest(req *http.Request) (context.Context, error) {
	*f.log = append(*f.log, call{"pre", f.i, seen(req.Context())})
	switch f.kind {
	case "failpre":
		return nil, errResp(403)
	case "addctx":
		// the filter's own marker -- added through the library's own context helpers as well (a header-propagating and a
		// header-capturing filter): none of this may disturb the routing facts later filters and the method read
		ctx := context.WithValue(req.Context(), marker(f.i), true)
		ctx = restli.ExtraRequestHeaders(ctx, func() (http.Header, error) { return http.Header{"X-Trace": {"t"}}, nil })
		ctx, _ = restli.AddResponseHeadersCaptor(ctx)
		return ctx, nil
	}
	return nil, nil
}

func (f *filter) PostRequest(ctx context.Context, _ http.Header) error {
	*f.log = append(*f.log, call{"post", f.i, seen(ctx)})
	if f.kind == "failpost" {
		return errResp(409)
	}
	return nil
}

func main() {
	in := flag.String("in", "", "behaviours exported from Filters.tla")
	flag.Parse()
	f, err := os.Open(*in)
	if err != nil {
		panic(err)
	}
	out := bufio.NewWriter(os.Stdout)
	defer out.Flush()
	emit := func(v any) {
		b, _ := json.Marshal(v)
		out.Write(b)
		out.WriteByte('\n')
	}
	sc := bufio.NewScanner(f)
	n := 0
	for sc.Scan() {
		var row struct {
			Chain   []string `json:"chain"`
			Outcome string   `json:"outcome"`
			Status  int      `json:"status"`
			Log     []call   `json:"log"`
		}
		if err := json.Unmarshal(sc.Bytes(), &row); err != nil {
			panic(err)
		}
		n++
		var log []call
		var filters []restli.Filter
		for i, k := range row.Chain {
			filters = append(filters, &filter{i: i + 1, kind: k, log: &log})
		}
		for _, mount := range []string{"bare", "prefix"} {
			log = nil
			var s restli.Server
			path := "/r/k"
			if mount == "prefix" {
				s = restli.NewPrefixedServer("/api", filters...)
				path = "/api/r/k"
			} else {
				s = restli.NewServer(filters...)
			}
			restli.RegisterGet(s, []restli.ResourcePathSegment{restli.NewResourcePathSegment("r", true)},
				func(ctx *restli.RequestContext, rp *rpT, qp *qpT) (*entT, error) {
					log = append(log, call{"method", 0, seen(ctx.Request.Context())})
					if row.Outcome == "error" {
						return nil, errResp(418)
					}
					return &entT{X: 1}, nil
				})
			rec := httptest.NewRecorder()
			req := httptest.NewRequest("GET", path, nil)
			factsBroken = ""
			func() {
				defer func() {
					if r := recover(); r != nil {
						factsBroken = fmt.Sprint("ServeHTTP panicked: ", r)
					}
				}()
				s.Handler().ServeHTTP(rec, req)
			}()
			if factsBroken != "" {
				emit(map[string]any{"kind": "violation", "key": fmt.Sprintf("C05/filters/routing-facts-lost/%v/%s", row.Chain, row.Outcome),
					"what": factsBroken, "case": map[string]any{"chain": row.Chain, "outcome": row.Outcome, "mount": mount}})
				continue
			}
			cs := map[string]any{"chain": row.Chain, "outcome": row.Outcome, "mount": mount, "observed_log": log, "specified_log": row.Log, "observed_status": rec.Code, "specified_status": row.Status}
			if !reflect.DeepEqual(log, row.Log) {
				emit(map[string]any{"kind": "violation", "key": fmt.Sprintf("C05/filters/call-order-or-context/%v/%s", row.Chain, row.Outcome),
					"what": fmt.Sprintf("filters and method were called as %+v, Filters.tla specifies %+v", log, row.Log), "case": cs})
			}
			if rec.Code != row.Status {
				emit(map[string]any{"kind": "violation", "key": fmt.Sprintf("C05/filters/status/%v/%s", row.Chain, row.Outcome),
					"what": fmt.Sprintf("answered %d, Filters.tla specifies %d", rec.Code, row.Status), "case": cs})
			}
			if (rec.Code != 200) != (rec.Header().Get("X-RestLi-Error-Response") == "true") {
				emit(map[string]any{"kind": "violation", "key": fmt.Sprintf("C05/filters/error-header/%v/%s", row.Chain, row.Outcome),
					"what": fmt.Sprintf("status %d with error header %q", rec.Code, rec.Header().Get("X-RestLi-Error-Response")), "case": cs})
			}
		}
	}
	emit(map[string]any{"kind": "stats", "stats": map[string]int{"filter_behaviours": n, "filter_requests": 2 * n}})
}
