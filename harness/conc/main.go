// Harness for C17 (shared objects are safe for concurrent use, requests do not interfere).  Built with -race.
// Each phase runs N goroutines against ONE shared object and checks every request against the outcome the sequential
// specification assigns to it alone (D2.tla Eligible, Server.tla's error propagation, identity of request and
// response); the race detector observes the same executions (its reports are collected by the driver from stderr).
package main

import (
	"bufio"
	"context"
	"encoding/json"
	"flag"
	"fmt"
	"io"
	"net/http"
	"net/http/httptest"
	"net/url"
	"os"
	"runtime"
	"sort"
	"strings"
	"sync"

	"github.com/PapaCharlie/go-restli/v2/d2"
	"github.com/PapaCharlie/go-restli/v2/restli"
	"github.com/PapaCharlie/go-restli/v2/restlicodec"
	"github.com/PapaCharlie/go-restli/v2/restlidata/generated/com/linkedin/restli/common"
)

var out *bufio.Writer
var outMu sync.Mutex
var vcount = map[string]int{}

func violation(key, what string, c any) {
	outMu.Lock()
	defer outMu.Unlock()
	vcount[key]++
	if vcount[key] > 3 {
		return
	}
	b, _ := json.Marshal(map[string]any{"kind": "violation", "key": key, "what": what, "case": c})
	out.Write(b)
	out.WriteByte('\n')
}

type rpT struct{ keys []string }

func (r *rpT) NewInstance() *rpT { return new(rpT) }
func (r *rpT) UnmarshalResourcePath(segments []restlicodec.Reader) error {
	for _, s := range segments {
		k, err := s.ReadString()
		if err != nil {
			return err
		}
		r.keys = append(r.keys, k)
	}
	return nil
}

type qpT struct{ p string }

func (q *qpT) NewInstance() *qpT { return new(qpT) }
func (q *qpT) DecodeQueryParams(r restlicodec.QueryParamsReader) error {
	if pr, ok := r["p"]; ok {
		var err error
		q.p, err = pr.ReadString()
		return err
	}
	return nil
}

type entT struct{ K, P string }

func (e *entT) NewInstance() *entT { return new(entT) }
func (e *entT) MarshalRestLi(w restlicodec.Writer) error {
	k, p := e.K, e.P
	return w.WriteMap(func(kw func(string) restlicodec.Writer) error {
		kw("k").WriteString(k)
		kw("p").WriteString(p)
		return nil
	})
}
func (e *entT) UnmarshalRestLi(r restlicodec.Reader) error {
	return r.ReadMap(func(r restlicodec.Reader, k string) (err error) {
		switch k {
		case "k":
			e.K, err = r.ReadString()
		case "p":
			e.P, err = r.ReadString()
		default:
			err = r.Skip()
		}
		return err
	})
}

// ---- phase 0: cold start.  The very first deserialisations of a record type in the process happen concurrently (the
// first requests hitting a freshly started handler): per-type metadata shared by all readers must be ready, or be made
// ready safely.  Every goroutine must get exactly the serial outcome: the complete document decodes, the incomplete one
// reports exactly the required fields it lacks.  Must run before anything else in the process reads these types.
type probe struct {
	name, doc string
	missing   []string // nil: decodes
	decode    func(string) error
}

func phaseCold(n int, stats map[string]int) {
	probes := append(coldExtra(), []probe{
		{"Link", `{"href":"h"}`, []string{"rel", "type"}, func(d string) error { return decodeInto(d, new(common.Link)) }},
		{"Link", `{"rel":"r","href":"h","type":"t"}`, nil, func(d string) error { return decodeInto(d, new(common.Link)) }},
		{"ErrorResponse", `{"status":500,"message":"m"}`, nil, func(d string) error { return decodeInto(d, new(common.ErrorResponse)) }},
	}...)
	start := make(chan struct{})
	var wg sync.WaitGroup
	for g := 0; g < 2*n; g++ {
		wg.Add(1)
		go func(g int) {
			defer wg.Done()
			<-start
			for i := range probes {
				p := probes[(i+g)%len(probes)]
				err := p.decode(p.doc)
				got := []string(nil)
				if err != nil {
					mf, ok := err.(*restlicodec.MissingRequiredFieldsError)
					if !ok {
						violation("C17/cold-start/"+p.name, fmt.Sprintf("first concurrent decode of %s failed with %v", p.doc, err), nil)
						continue
					}
					got = append(got, mf.Fields...)
					sort.Strings(got)
				}
				if strings.Join(got, ",") != strings.Join(p.missing, ",") {
					violation("C17/cold-start/"+p.name, fmt.Sprintf("first concurrent decode of %s reports missing required fields %v, serially %v", p.doc, got, p.missing), nil)
				}
			}
		}(g)
	}
	close(start)
	wg.Wait()
	stats["cold_start_decodes"] = 2 * n * len(probes)
}

func decodeInto(doc string, v restlicodec.Unmarshaler) error {
	r, err := restlicodec.NewJsonReader([]byte(doc))
	if err != nil {
		return err
	}
	return v.UnmarshalRestLi(r)
}

// ---- phase 0b: the codec's writers used from many goroutines at once (each goroutine its own writer, as every request
// does): the text each call produces must be what the same call produces alone (computed serially beforehand)
func phaseCodec(n, iters int, stats map[string]int) {
	type enc func(v float64, k int64, s string) string
	encoders := map[string]enc{
		"header": func(v float64, k int64, s string) string {
			w := restlicodec.NewRor2HeaderWriter()
			w.WriteMap(func(kw func(string) restlicodec.Writer) error {
				kw("f").WriteFloat64(v)
				kw("g").WriteFloat32(float32(v))
				kw("k").WriteInt64(k)
				kw("s").WriteString(s)
				return nil
			})
			return w.Finalize()
		},
		"path": func(v float64, k int64, s string) string {
			w := restlicodec.NewRor2PathWriter()
			w.WriteArray(func(iw func() restlicodec.Writer) error {
				iw().WriteFloat64(v)
				iw().WriteInt64(k)
				iw().WriteString(s)
				iw().WriteBytes([]byte(s))
				return nil
			})
			return w.Finalize()
		},
		"json": func(v float64, k int64, s string) string {
			w := restlicodec.NewCompactJsonWriter()
			w.WriteMap(func(kw func(string) restlicodec.Writer) error {
				kw("f").WriteFloat64(v)
				kw("k").WriteInt64(k)
				kw("s").WriteString(s)
				return nil
			})
			return w.Finalize()
		},
	}
	value := func(g, i int) (float64, int64, string) {
		return float64(g*1000003+i*17) + 0.0625*float64(i%16) + 1e-7*float64(g), int64(g)<<40 + int64(i), fmt.Sprintf("s(%d,%d)'", g, i)
	}
	if iters > 400 {
		iters = 400
	}
	want := map[string][][]string{}
	for name, e := range encoders {
		want[name] = make([][]string, n)
		for g := 0; g < n; g++ {
			want[name][g] = make([]string, iters)
			for i := 0; i < iters; i++ {
				want[name][g][i] = e(value(g, i))
			}
		}
	}
	var wg sync.WaitGroup
	for g := 0; g < n; g++ {
		wg.Add(1)
		go func(g int) {
			defer wg.Done()
			for i := 0; i < iters; i++ {
				for name, e := range encoders {
					if got := e(value(g, i)); got != want[name][g][i] {
						violation("C17/codec/"+name, fmt.Sprintf("encoded concurrently: %s, alone: %s", got, want[name][g][i]), nil)
					}
				}
			}
		}(g)
	}
	wg.Wait()
	stats["codec_encodings"] = n * iters * len(encoders)
}

// ---- phase 1: D2 resolver
func phaseD2(n, iters int, stats map[string]int) {
	h := d2.NewVerifHarness("S", "C")
	sp := []byte(`{"serviceName":"S","clusterName":"C","prioritizedSchemes":["https","http"]}`)
	h.ServiceEvent(&sp)
	a1 := []byte(`{"weights":{"https://h1:443":1,"http://h1:80":5}}`)
	a2 := []byte(`{"weights":{"https://h2:443":3}}`)
	a3 := []byte(`{"weights":{"http://h3:80":2}}`)
	h.UriEvent("n1", &a1)
	eligible := map[string]bool{"https://h1:443": true, "https://h2:443": true} // the union over all states the history passes through
	var wg sync.WaitGroup
	stop := make(chan struct{})
	go func() { // concurrent announcements: n2 comes and goes, n3 (http only) too
		for i := 0; ; i++ {
			select {
			case <-stop:
				return
			default:
			}
			if i%2 == 0 {
				h.UriEvent("n2", &a2)
				h.UriEvent("n3", &a3)
			} else {
				h.UriEvent("n2", nil)
				h.UriEvent("n3", nil)
			}
			runtime.Gosched()
		}
	}()
	for g := 0; g < n; g++ {
		wg.Add(1)
		go func() {
			defer wg.Done()
			for i := 0; i < iters; i++ {
				u, err := h.Resolve()
				if err != nil || u == nil {
					violation("C17/d2/resolve-failed", fmt.Sprintf("resolution failed (%v) although https hosts are announced throughout", err), nil)
					return
				}
				if !eligible[u.String()] {
					violation("C17/d2/ineligible-host", "resolution returned "+u.String()+", never eligible in any state of the history", nil)
					return
				}
			}
		}()
	}
	wg.Wait()
	close(stop)
	stats["d2_resolutions"] = n * iters
}

// ---- phase 2: one handler, shared error object, per-request isolation
func phaseServer(n, iters int, stats map[string]int) {
	st := int32(418)
	shared := &common.ErrorResponse{Status: &st} // no message: the server defaults it in the response
	s := restli.NewServer()
	segs := []restli.ResourcePathSegment{restli.NewResourcePathSegment("r", true)}
	restli.RegisterGet(s, segs, func(ctx *restli.RequestContext, rp *rpT, qp *qpT) (*entT, error) {
		if strings.HasPrefix(rp.keys[0], "err") {
			return nil, shared
		}
		ctx.ResponseHeaders.Set("X-Echo", rp.keys[0])
		if strings.HasPrefix(rp.keys[0], "st") {
			ctx.ResponseStatus = 203
		}
		return &entT{K: rp.keys[0], P: qp.p}, nil
	})
	h := s.Handler()
	var wg sync.WaitGroup
	for g := 0; g < n; g++ {
		wg.Add(1)
		go func(g int) {
			defer wg.Done()
			for i := 0; i < iters; i++ {
				kind := []string{"ok", "err", "st"}[(g+i)%3]
				key := fmt.Sprintf("%s-%d-%d", kind, g, i)
				req := httptest.NewRequest("GET", "/r/"+key+"?p=v"+key, nil)
				req.Header.Set("X-RestLi-Protocol-Version", "2.0.0")
				w := httptest.NewRecorder()
				h.ServeHTTP(w, req)
				body := w.Body.String()
				cs := map[string]any{"key": key, "status": w.Code, "body": body}
				switch kind {
				case "err":
					if w.Code != 418 || w.Header().Get("X-RestLi-Error-Response") == "" || !strings.Contains(body, "teapot") {
						violation("C17/server/error-response", "a request answered with the shared error object did not get its serial outcome", cs)
					}
				default:
					want := 200
					if kind == "st" {
						want = 203
					}
					if w.Code != want || w.Header().Get("X-Echo") != key || !strings.Contains(body, `"k":"`+key+`"`) || !strings.Contains(body, `"p":"v`+key+`"`) {
						violation("C17/server/leak", fmt.Sprintf("request %s observed status %d, echo header %q, body %s", key, w.Code, w.Header().Get("X-Echo"), body), cs)
					}
				}
			}
		}(g)
	}
	wg.Wait()
	if shared.Message != nil || *shared.Status != 418 {
		violation("C17/server/shared-error-object-modified", "the error object shared between requests was modified", nil)
	}
	stats["server_requests"] = n * iters
}

// ---- phase 2b: what a resource KEEPS.  (1) Entities decoded from request bodies and stored by the resource (map keys and
// values) must still read what each request sent after many later requests were served.  (2) One canned per-key response
// object (status left at 0: "use the default") shared by all keys and all concurrent batch requests must stay unmodified.
type noteT struct{ M map[string]string }

func (e *noteT) NewInstance() *noteT { return new(noteT) }
func (e *noteT) MarshalRestLi(w restlicodec.Writer) error {
	return w.WriteMap(func(kw func(string) restlicodec.Writer) error {
		return kw("m").WriteMap(func(kw func(string) restlicodec.Writer) error {
			for k, v := range e.M {
				kw(k).WriteString(v)
			}
			return nil
		})
	})
}
func (e *noteT) UnmarshalRestLi(r restlicodec.Reader) error {
	e.M = map[string]string{}
	return r.ReadMap(func(r restlicodec.Reader, k string) error {
		if k != "m" {
			return r.Skip()
		}
		return r.ReadMap(func(r restlicodec.Reader, k string) error {
			v, err := r.ReadString()
			e.M[k] = v // the key and the value as the reader handed them over
			return err
		})
	})
}

type bqpT = *restli.SliceBatchQueryParams[int64]

func phaseRetain(n, iters int, stats map[string]int) {
	if iters > 200 {
		iters = 200
	}
	s := restli.NewServer()
	segs := []restli.ResourcePathSegment{restli.NewResourcePathSegment("notes", true)}
	var mu sync.Mutex
	stored := map[string]*noteT{}
	restli.RegisterUpdate(s, segs, nil, func(ctx *restli.RequestContext, rp *rpT, v *noteT, qp *qpT) error {
		mu.Lock()
		stored[rp.keys[0]] = v // kept beyond the request
		mu.Unlock()
		return nil
	})
	canned := &common.BatchEntityUpdateResponse{} // Status 0: the default
	restli.RegisterBatchDelete(s, segs, func(ctx *restli.RequestContext, rp *rpT, keys []int64, qp bqpT) (*common.BatchResponse[int64, *common.BatchEntityUpdateResponse], error) {
		res := &common.BatchResponse[int64, *common.BatchEntityUpdateResponse]{Results: map[int64]*common.BatchEntityUpdateResponse{}}
		for _, k := range keys {
			res.Results[k] = canned
		}
		return res, nil
	})
	h := s.Handler()
	var wg sync.WaitGroup
	for g := 0; g < n; g++ {
		wg.Add(1)
		go func(g int) {
			defer wg.Done()
			for i := 0; i < iters; i++ {
				key := fmt.Sprintf("n-%d-%d", g, i)
				body := fmt.Sprintf(`{"m":{"owner-%s":"o-%s","topic-%s":"t-%s"}}`, key, key, key, key)
				req := httptest.NewRequest("PUT", "/notes/"+key, strings.NewReader(body))
				req.Header.Set("X-RestLi-Protocol-Version", "2.0.0")
				req.Header.Set("Content-Type", "application/json")
				w := httptest.NewRecorder()
				h.ServeHTTP(w, req)
				if w.Code != 204 {
					violation("C17/retain/update-failed", fmt.Sprintf("PUT /notes/%s answered %d: %s", key, w.Code, w.Body.String()), nil)
				}
				req = httptest.NewRequest("DELETE", fmt.Sprintf("/notes?ids=List(%d,%d)", g, i+1000), nil)
				req.Header.Set("X-RestLi-Protocol-Version", "2.0.0")
				req.Header.Set("X-RestLi-Method", "batch_delete")
				w = httptest.NewRecorder()
				h.ServeHTTP(w, req)
				if w.Code != 200 || !strings.Contains(w.Body.String(), `"status":204`) {
					violation("C17/retain/batch-delete", fmt.Sprintf("batch_delete answered %d: %s", w.Code, w.Body.String()), nil)
				}
			}
		}(g)
	}
	wg.Wait()
	for key, v := range stored {
		want := map[string]string{"owner-" + key: "o-" + key, "topic-" + key: "t-" + key}
		if fmt.Sprint(v.M) != fmt.Sprint(want) {
			violation("C17/retain/stored-entity-changed", fmt.Sprintf("the entity the resource stored for %s now reads %v, the request said %v", key, v.M, want), nil)
		}
	}
	if len(stored) != n*iters {
		violation("C17/retain/lost", fmt.Sprintf("%d entities stored, %d requests", len(stored), n*iters), nil)
	}
	if canned.Status != 0 {
		violation("C17/retain/shared-response-object-modified", fmt.Sprintf("the canned per-key response shared by all requests now has status %d", canned.Status), nil)
	}
	stats["retained_entities"] = len(stored)
}

// ---- phase 3: one client
type echoRT struct{}

// every request must carry its own method header (a GET says get, a DELETE says delete), the application's static extra
// header, and the key in path and query must belong together
func (echoRT) RoundTrip(req *http.Request) (*http.Response, error) {
	key := req.URL.Path[strings.LastIndex(req.URL.Path, "/")+1:]
	want := map[string]string{"GET": "get", "DELETE": "delete"}[req.Method]
	if got := req.Header.Get("X-RestLi-Method"); got != want {
		violation("C17/client/header-leak", fmt.Sprintf("a %s request carries X-RestLi-Method %q", req.Method, got), nil)
	}
	if got := req.Header.Get("Authorization"); got != "static" {
		violation("C17/client/extra-header-lost", fmt.Sprintf("the application's extra header arrived as %q", got), nil)
	}
	if req.URL.RawQuery != "p="+key {
		violation("C17/client/leak", fmt.Sprintf("path key %s travels with query %s", key, req.URL.RawQuery), nil)
	}
	body := fmt.Sprintf(`{"k":%q,"p":%q}`, key, req.URL.RawQuery)
	return &http.Response{StatusCode: 200, Header: http.Header{"X-Restli-Protocol-Version": {"2.0.0"}}, Body: io.NopCloser(strings.NewReader(body)), Request: req}, nil
}

func phaseClient(n, iters int, stats map[string]int) {
	u, _ := url.Parse("http://h/ctx")
	c := &restli.Client{Client: &http.Client{Transport: echoRT{}}, HostnameResolver: &restli.SimpleHostnameResolver{Hostname: u}, QueryTunnellingThreshold: 0}
	// an application-owned header map handed out again and again (static credentials): the client may read it, never
	// write it, and must not make it the header map of a request
	static := http.Header{"Authorization": {"static"}}
	var wg sync.WaitGroup
	for g := 0; g < n; g++ {
		wg.Add(1)
		go func(g int) {
			defer wg.Done()
			for i := 0; i < iters; i++ {
				key := fmt.Sprintf("k-%d-%d", g, i)
				ctx, hdrs := restli.AddResponseHeadersCaptor(context.Background())
				ctx = restli.ExtraRequestHeaders(ctx, func() (http.Header, error) { return static, nil })
				if (g+i)%2 == 0 {
					e, err := restli.Get[*entT](c, ctx, restli.ResourcePathString("/r/"+key), restli.QueryParamsString("p="+key))
					if err != nil || e.K != key || e.P != "p="+key || hdrs.Get("X-Restli-Protocol-Version") != "2.0.0" {
						violation("C17/client/leak", fmt.Sprintf("call for %s returned %+v (%v)", key, e, err), nil)
					}
				} else if err := restli.Delete(c, ctx, restli.ResourcePathString("/r/"+key), restli.QueryParamsString("p="+key)); err != nil {
					violation("C17/client/leak", fmt.Sprintf("delete of %s failed: %v", key, err), nil)
				}
			}
		}(g)
	}
	wg.Wait()
	if len(static) != 1 || static.Get("Authorization") != "static" {
		violation("C17/client/extra-headers-modified", fmt.Sprintf("the application's header map was modified by the client: %v", static), nil)
	}
	stats["client_calls"] = n * iters
}

func main() {
	n := flag.Int("n", 8, "goroutines")
	iters := flag.Int("iters", 300, "iterations per goroutine")
	procs := flag.Int("procs", 0, "GOMAXPROCS")
	flag.Parse()
	if *procs > 0 {
		runtime.GOMAXPROCS(*procs)
	}
	out = bufio.NewWriterSize(os.Stdout, 1<<20)
	defer out.Flush()
	stats := map[string]int{}
	phaseCold(*n, stats)
	phaseCodec(*n, *iters, stats)
	phaseD2(*n, *iters, stats)
	phaseServer(*n, *iters, stats)
	phaseRetain(*n, *iters, stats)
	phaseClient(*n, *iters, stats)
	phaseRegistry(*n, *iters, stats)
	b, _ := json.Marshal(map[string]any{"kind": "stats", "stats": stats, "violation_counts": vcount})
	out.Write(b)
	out.WriteByte('\n')
}
