//go:build root

package main

// the root module has no custom-typeref registry
func phaseRegistry(n, iters int, stats map[string]int) {}
