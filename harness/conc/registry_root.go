//go:build root

package main

import (
	common "github.com/PapaCharlie/go-restli/restlidata"
)

// the root module has no custom-typeref registry
func phaseRegistry(n, iters int, stats map[string]int) {}

func coldExtra() []probe {
	return []probe{
		{"CollectionMedata", `{"start":1}`, []string{"count", "links"}, func(d string) error { return decodeInto(d, new(common.CollectionMedata)) }},
		{"CollectionMedata", `{"start":1,"count":2,"links":[]}`, nil, func(d string) error { return decodeInto(d, new(common.CollectionMedata)) }},
	}
}
