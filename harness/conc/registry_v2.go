//go:build v2

package main

import (
	"fmt"
	"sync"

	"github.com/PapaCharlie/go-restli/v2/fnv1a"
	"github.com/PapaCharlie/go-restli/v2/restlicodec"
	"github.com/PapaCharlie/go-restli/v2/restlidata/generated/com/linkedin/restli/common"
)

func coldExtra() []probe {
	return []probe{
		{"CollectionMetadata", `{"start":1}`, []string{"count", "links"}, func(d string) error { return decodeInto(d, new(common.CollectionMetadata)) }},
		{"CollectionMetadata", `{"start":1,"count":2,"links":[]}`, nil, func(d string) error { return decodeInto(d, new(common.CollectionMetadata)) }},
		{"UpdateStatus", `{}`, []string{"status"}, func(d string) error { return decodeInto(d, new(common.UpdateStatus)) }},
		{"CreateStatus", `{"id":"1"}`, []string{"status"}, func(d string) error { return decodeInto(d, new(common.CreateStatus)) }},
		{"CreateStatus", `{"status":201}`, nil, func(d string) error { return decodeInto(d, new(common.CreateStatus)) }},
	}
}

// ---- phase 4: custom typeref registry
type ct1 string
type ct2 int64

// registered lazily, while other goroutines use the registry (a plugin, a sync.Once on first use, a late import)
type (
	lz1 string
	lz2 string
	lz3 string
	lz4 string
	lz5 string
	lz6 string
	lz7 string
	lz8 string
)

func regLazy[T ~string]() {
	restlicodec.RegisterCustomTyperef(func(t T) (string, error) { return string(t), nil }, func(p string) (T, error) { return T(p), nil },
		func(t T) fnv1a.Hash { return fnv1a.HashString(string(t)) }, func(a, b T) bool { return a == b })
}

func phaseRegistry(n, iters int, stats map[string]int) {
	var once sync.WaitGroup
	once.Add(2)
	go func() {
		defer once.Done()
		restlicodec.RegisterCustomTyperef(func(t ct1) (string, error) { return string(t), nil }, func(p string) (ct1, error) { return ct1(p), nil },
			func(t ct1) fnv1a.Hash { return fnv1a.HashString(string(t)) }, func(a, b ct1) bool { return a == b })
	}()
	go func() {
		defer once.Done()
		restlicodec.RegisterCustomTyperef(func(t ct2) (int64, error) { return int64(t), nil }, func(p int64) (ct2, error) { return ct2(p), nil },
			func(t ct2) fnv1a.Hash { return fnv1a.HashInt64(int64(t)) }, func(a, b ct2) bool { return a == b })
	}()
	once.Wait()
	var wg sync.WaitGroup
	wg.Add(1)
	go func() {
		defer wg.Done()
		for i, reg := range []func(){regLazy[lz1], regLazy[lz2], regLazy[lz3], regLazy[lz4], regLazy[lz5], regLazy[lz6], regLazy[lz7], regLazy[lz8]} {
			for spin := 0; spin < 2000*(i+1); spin++ {
				_ = fnv1a.HashString("spread the registrations over the run")
			}
			reg()
			w := restlicodec.NewCompactJsonWriter()
			if err := restlicodec.MarshalRestLi(lz1("x"), w); err != nil || w.Finalize() != `"x"` {
				violation("C17/registry/lazy", fmt.Sprintf("a type registered while the registry is in use cannot be marshaled: %v", err), nil)
			}
		}
	}()
	for g := 0; g < n; g++ {
		wg.Add(1)
		go func(g int) {
			defer wg.Done()
			for i := 0; i < iters; i++ {
				w := restlicodec.NewCompactJsonWriter()
				v := ct1(fmt.Sprintf("v-%d-%d", g, i))
				if err := restlicodec.MarshalRestLi(v, w); err != nil {
					violation("C17/registry/marshal", err.Error(), nil)
					continue
				}
				r, _ := restlicodec.NewJsonReader([]byte(w.Finalize()))
				back, err := restlicodec.UnmarshalRestLi[ct1](r)
				if err != nil || back != v {
					violation("C17/registry/roundtrip", fmt.Sprintf("%q came back as %q (%v)", v, back, err), nil)
				}
				w2 := restlicodec.NewCompactJsonWriter()
				restlicodec.MarshalRestLi(ct2(int64(g*iters+i)), w2)
				if w2.Finalize() != fmt.Sprint(g*iters+i) {
					violation("C17/registry/leak", "wrong adapter used", nil)
				}
			}
		}(g)
	}
	wg.Wait()
	stats["registry_ops"] = n * iters * 2
}
