// Harness for C08 (error and status propagation).  Every (adapter kind, resource outcome) enumerated by TLC from
// Server.tla is run through a real httptest.Server (real connections: an escaped panic shows up as a broken
// connection) and the real generic client functions; HTTP status, error header, what the client call returns and the
// error object still held by the resource are compared with the specification.
package main

import (
	"bufio"
	"context"
	"encoding/json"
	"errors"
	"flag"
	"fmt"
	"net/http"
	"net/http/httptest"
	"net/url"
	"os"
	"reflect"
	"strconv"
	"strings"
	"sync"

	"github.com/PapaCharlie/go-restli/v2/restli"
	"github.com/PapaCharlie/go-restli/v2/restlicodec"
	"github.com/PapaCharlie/go-restli/v2/restlidata/generated/com/linkedin/restli/common"
)

func itoa(i int) string { return strconv.Itoa(i) }
func itoa32(p *int32) string {
	if p == nil {
		return "nil"
	}
	return strconv.Itoa(int(*p))
}
func deref(p *string) string {
	if p == nil {
		return "nil"
	}
	return *p
}

type rpT struct{ keys []string }

func (r *rpT) NewInstance() *rpT { return new(rpT) }
func (r *rpT) UnmarshalResourcePath(segments []restlicodec.Reader) error {
	for _, s := range segments {
		k, err := s.ReadString()
		if err != nil {
			return err
		}
		r.keys = append(r.keys, k)
	}
	return nil
}

type qpT struct{}

func (q *qpT) NewInstance() *qpT                                     { return new(qpT) }
func (q *qpT) DecodeQueryParams(restlicodec.QueryParamsReader) error { return nil }

// entT behaves like a generated record: its marshaler dereferences the receiver
type entT struct{ X int32 }

func (e *entT) NewInstance() *entT { return new(entT) }
func (e *entT) MarshalRestLi(w restlicodec.Writer) error {
	x := e.X
	return w.WriteMap(func(kw func(string) restlicodec.Writer) error {
		kw("x").WriteInt32(x)
		return nil
	})
}
func (e *entT) UnmarshalRestLi(r restlicodec.Reader) error {
	return r.ReadMap(func(r restlicodec.Reader, k string) (err error) {
		if k == "x" {
			e.X, err = r.ReadInt32()
			return err
		}
		return r.Skip()
	})
}

// the scripted resource
type script struct {
	mu      sync.Mutex
	outcome string
	errObj  *common.ErrorResponse // the object the resource returns and keeps
	invoked int
}

var sc script

type nullLogger struct{}

func (nullLogger) Printf(string, ...interface{}) {}

var errPlain = errors.New("plain failure \"quoted\", disk 100% full (%s %d %v)")

// createdStatus: the status a create implementation chooses itself (0: leave the default)
func createdStatus() int {
	sc.mu.Lock()
	defer sc.mu.Unlock()
	switch sc.outcome {
	case "created200":
		return 200
	case "created202":
		return 202
	}
	return 0
}

// act performs the scripted outcome; returns (isNil, err)
func act(ctx *restli.RequestContext) (bool, error) {
	sc.mu.Lock()
	defer sc.mu.Unlock()
	sc.invoked++
	switch sc.outcome {
	case "value":
		return false, nil
	case "override":
		ctx.ResponseStatus = 202
		return false, nil
	case "created200", "created202":
		return false, nil // the create handlers put the status into the entity they return
	case "nil":
		return true, nil
	case "errresp":
		return false, sc.errObj
	case "error":
		return false, errPlain
	case "wrapped":
		st := int32(418)
		inner := "inner teapot"
		return false, fmt.Errorf("%s: %w", errPlain.Error(), &common.ErrorResponse{Status: &st, Message: &inner})
	case "panic":
		panic("resource panicked: \"boom\"")
	}
	return false, nil
}

type bqp = *restli.SliceBatchQueryParams[string]
type bresp = *common.BatchResponse[string, *common.BatchEntityUpdateResponse]

func segs(name string) []restli.ResourcePathSegment {
	return []restli.ResourcePathSegment{restli.NewResourcePathSegment(name, true)}
}

func batchErrors() map[string]*common.ErrorResponse {
	st, st3 := int32(404), int32(410)
	msg, msg3 := "no such key", "gone for good"
	return map[string]*common.ErrorResponse{"k,2": {Status: &st, Message: &msg}, "k3": {Status: &st3, Message: &msg3}}
}

func batchResult() bresp {
	return &common.BatchResponse[string, *common.BatchEntityUpdateResponse]{
		Results: map[string]*common.BatchEntityUpdateResponse{"k1": {Status: 204}},
		Errors:  batchErrors(),
	}
}

func newServer() http.Handler {
	s := restli.NewServer()
	restli.RegisterGet(s, segs("get"), func(ctx *restli.RequestContext, rp *rpT, qp *qpT) (*entT, error) {
		isNil, err := act(ctx)
		if isNil || err != nil {
			return nil, err
		}
		return &entT{X: 7}, nil
	})
	restli.RegisterGetAll(s, segs("get_all"), func(ctx *restli.RequestContext, rp *rpT, qp *qpT) (*common.Elements[*entT], error) {
		isNil, err := act(ctx)
		if isNil || err != nil {
			return nil, err
		}
		return &common.Elements[*entT]{Elements: []*entT{{X: 1}}}, nil
	})
	restli.RegisterFinder(s, segs("finder"), "f", func(ctx *restli.RequestContext, rp *rpT, qp *qpT) (*common.Elements[*entT], error) {
		isNil, err := act(ctx)
		if isNil || err != nil {
			return nil, err
		}
		return &common.Elements[*entT]{Elements: []*entT{{X: 1}}}, nil
	})
	restli.RegisterBatchGet(s, segs("batch_get"), func(ctx *restli.RequestContext, rp *rpT, keys []string, qp bqp) (*common.BatchResponse[string, *entT], error) {
		isNil, err := act(ctx)
		if isNil || err != nil {
			return nil, err
		}
		return &common.BatchResponse[string, *entT]{Results: map[string]*entT{"k1": {X: 1}}, Errors: batchErrors()}, nil
	})
	restli.RegisterCreate(s, segs("create"), nil, func(ctx *restli.RequestContext, rp *rpT, v *entT, qp *qpT) (*common.CreatedEntity[string], error) {
		isNil, err := act(ctx)
		if isNil || err != nil {
			return nil, err
		}
		return &common.CreatedEntity[string]{Id: "new id", Status: createdStatus()}, nil
	})
	restli.RegisterCreateWithReturnEntity(s, segs("create_ret"), nil, func(ctx *restli.RequestContext, rp *rpT, v *entT, qp *qpT) (*common.CreatedAndReturnedEntity[string, *entT], error) {
		isNil, err := act(ctx)
		if isNil || err != nil {
			return nil, err
		}
		return &common.CreatedAndReturnedEntity[string, *entT]{CreatedEntity: common.CreatedEntity[string]{Id: "new id", Status: createdStatus()}, Entity: &entT{X: 3}}, nil
	})
	restli.RegisterUpdate(s, segs("update"), nil, func(ctx *restli.RequestContext, rp *rpT, v *entT, qp *qpT) error {
		_, err := act(ctx)
		return err
	})
	restli.RegisterPartialUpdate(s, segs("partial_update"), nil, func(ctx *restli.RequestContext, rp *rpT, v *entT, qp *qpT) error {
		_, err := act(ctx)
		return err
	})
	restli.RegisterDelete(s, segs("delete"), func(ctx *restli.RequestContext, rp *rpT, qp *qpT) error {
		_, err := act(ctx)
		return err
	})
	asegs := []restli.ResourcePathSegment{restli.NewResourcePathSegment("actions", false)}
	restli.RegisterActionWithResults(s, asegs, "action", restlicodec.GenericMarshaler[*entT](func(e *entT, w restlicodec.Writer) error { return e.MarshalRestLi(w) }),
		func(ctx *restli.RequestContext, rp *rpT, p *entT) (*entT, error) {
			isNil, err := act(ctx)
			if isNil || err != nil {
				return nil, err
			}
			return &entT{X: 9}, nil
		})
	restli.RegisterAction(s, asegs, "action_noresult", func(ctx *restli.RequestContext, rp *rpT, p *entT) error {
		_, err := act(ctx)
		return err
	})
	restli.RegisterBatchUpdate(s, segs("batch_update"), nil, func(ctx *restli.RequestContext, rp *rpT, vs map[string]*entT, qp bqp) (bresp, error) {
		isNil, err := act(ctx)
		if isNil || err != nil {
			return nil, err
		}
		return batchResult(), nil
	})
	restli.RegisterBatchDelete(s, segs("batch_delete"), func(ctx *restli.RequestContext, rp *rpT, keys []string, qp bqp) (bresp, error) {
		isNil, err := act(ctx)
		if isNil || err != nil {
			return nil, err
		}
		return batchResult(), nil
	})
	restli.RegisterBatchCreate(s, segs("batch_create"), nil, func(ctx *restli.RequestContext, rp *rpT, vs []*entT, qp *qpT) ([]*common.CreatedEntity[string], error) {
		isNil, err := act(ctx)
		if isNil || err != nil {
			return nil, err
		}
		return []*common.CreatedEntity[string]{{Id: "a", Status: 201}}, nil
	})
	return s.Handler()
}

// call performs the client side of the adapter; returns the error of the generated-style client call and, for batch
// adapters, a description of the per-key errors
func call(c *restli.Client, adapter string) (err error, batchErrs map[string]string) {
	ctx := context.Background()
	rp := func(p string) restli.ResourcePath { return restli.ResourcePathString(p) }
	keys := []string{"k1", "k,2", "k3"}
	be := func(m map[string]*common.ErrorResponse) map[string]string {
		out := map[string]string{}
		for k, e := range m {
			out[k] = fmt.Sprint(fieldsOf(e))
		}
		return out
	}
	switch adapter {
	case "get":
		_, err = restli.Get[*entT](c, ctx, rp("/get/k"), nil)
	case "get_all":
		_, err = restli.GetAll[*entT](c, ctx, rp("/get_all"), nil)
	case "finder":
		_, err = restli.Find[*entT](c, ctx, rp("/finder"), restli.QueryParamsString("q=f"))
	case "batch_get":
		var r *common.BatchResponse[string, *entT]
		r, err = restli.BatchGet[string, *entT](c, ctx, rp("/batch_get"), keys, nil)
		if err == nil {
			batchErrs = be(r.Errors)
		}
	case "create":
		_, err = restli.Create[string](c, ctx, rp("/create"), &entT{X: 1}, nil, nil)
	case "create_ret":
		_, err = restli.CreateWithReturnEntity[string](c, ctx, rp("/create_ret"), &entT{X: 1}, nil, nil)
	case "update":
		err = restli.Update(c, ctx, rp("/update/k"), &entT{X: 1}, nil, nil)
	case "partial_update":
		err = restli.PartialUpdate(c, ctx, rp("/partial_update/k"), &entT{X: 1}, nil, nil)
	case "delete":
		err = restli.Delete(c, ctx, rp("/delete/k"), nil)
	case "action":
		_, err = restli.DoActionRequestWithResults(c, ctx, rp("/actions"), restli.QueryParamsString("action=action"), &entT{X: 1}, restlicodec.UnmarshalRestLi[*entT])
	case "action_noresult":
		err = restli.DoActionRequest(c, ctx, rp("/actions"), restli.QueryParamsString("action=action_noresult"), &entT{X: 1})
	case "batch_update":
		var r bresp
		r, err = restli.BatchUpdate(c, ctx, rp("/batch_update"), map[string]*entT{"k1": {X: 1}, "k,2": {X: 2}, "k3": {X: 3}}, nil, nil)
		if err == nil {
			batchErrs = be(r.Errors)
		}
	case "batch_delete":
		var r bresp
		r, err = restli.BatchDelete(c, ctx, rp("/batch_delete"), keys, nil)
		if err == nil {
			batchErrs = be(r.Errors)
		}
	case "batch_create":
		_, err = restli.BatchCreate[string](c, ctx, rp("/batch_create"), []*entT{{X: 1}}, nil, nil)
	default:
		panic("adapter " + adapter)
	}
	return err, batchErrs
}

type Row struct {
	Adapter      string   `json:"adapter"`
	Outcome      string   `json:"outcome"`
	Fields       []string `json:"fields"`
	Status       int      `json:"status"`
	ErrHdr       bool     `json:"errhdr"`
	Client       string   `json:"client"`
	ClientFields []string `json:"clientfields"`
}

// recording transport
type recT struct {
	mu     sync.Mutex
	status int
	errHdr bool
	body   string
	terr   error
}

func (r *recT) RoundTrip(req *http.Request) (*http.Response, error) {
	res, err := http.DefaultTransport.RoundTrip(req)
	r.mu.Lock()
	defer r.mu.Unlock()
	r.terr = err
	if err == nil {
		r.status = res.StatusCode
		r.errHdr = res.Header.Get("X-RestLi-Error-Response") != ""
	}
	return res, err
}

var out *bufio.Writer
var vcount = map[string]int{}

func violation(key, what string, c any) {
	vcount[key]++
	if vcount[key] > 3 {
		return
	}
	b, _ := json.Marshal(map[string]any{"kind": "violation", "key": key, "what": what, "case": c})
	out.Write(b)
	out.WriteByte('\n')
}

func main() {
	in := flag.String("in", "", "")
	trace := flag.String("trace", "", "")
	flag.Parse()
	out = bufio.NewWriterSize(os.Stdout, 1<<20)
	defer out.Flush()
	srv := httptest.NewServer(newServer())
	defer srv.Close()
	u, _ := url.Parse(srv.URL)
	rt := &recT{}
	c := &restli.Client{Client: &http.Client{Transport: rt}, HostnameResolver: &restli.SimpleHostnameResolver{Hostname: u}, StrictResponseDeserialization: true}
	cLogging := &restli.Client{Client: &http.Client{Transport: &restli.LoggingRoundTripper{RoundTripper: rt, Logger: nullLogger{}}}, HostnameResolver: &restli.SimpleHostnameResolver{Hostname: u}, StrictResponseDeserialization: true}
	f, err := os.Open(*in)
	if err != nil {
		panic(err)
	}
	scn := bufio.NewScanner(f)
	var tw *bufio.Writer
	if *trace != "" {
		tf, _ := os.Create(*trace)
		defer tf.Close()
		tw = bufio.NewWriter(tf)
		defer tw.Flush()
	}
	rows, skipped := 0, 0
	for scn.Scan() {
		var row Row
		if err := json.Unmarshal(scn.Bytes(), &row); err != nil {
			panic(err)
		}
		if row.Outcome == "nil" && row.Adapter == "batch_create" {
			skipped++ // a nil slice of created entities is the empty list, not a missing entity
			continue
		}
		obj := &common.ErrorResponse{}
		ok := true
		for _, fl := range row.Fields {
			if !setField(obj, fl) {
				ok = false
			}
		}
		if !ok {
			skipped++
			continue
		}
		rows++
		before := fieldsOf(obj)
		sc.mu.Lock()
		sc.outcome, sc.errObj, sc.invoked = row.Outcome, obj, 0
		sc.mu.Unlock()
		*rt = recT{}
		// every second exchange goes through a client whose transport is wrapped in the library's logging round tripper
		// (it reads requests and responses on their way): what the caller gets must not depend on it
		cl := c
		if rows%2 == 0 {
			cl = cLogging
		}
		cerr, batchErrs := call(cl, row.Adapter)
		after := fieldsOf(obj)
		cs := map[string]any{"adapter": row.Adapter, "outcome": row.Outcome, "fields": row.Fields, "http_status": rt.status, "error_header": rt.errHdr,
			"client_error": fmt.Sprint(cerr), "expected_status": row.Status}
		// what did the client get?
		kind := "value"
		var rerr *restli.Error
		var clientFields map[string]string
		switch {
		case cerr == nil:
		case errors.As(cerr, &rerr):
			kind = "resterr"
			clientFields = fieldsOf(&rerr.ErrorResponse)
		default:
			var ue *url.Error
			if errors.As(cerr, &ue) {
				kind = "connection-crashed"
			} else {
				kind = "other-error"
			}
		}
		if tw != nil {
			cf := []string{}
			for k := range clientFields {
				if k != "stackTrace" {
					cf = append(cf, k)
				}
			}
			b, _ := json.Marshal(map[string]any{"ev": "exchange", "adapter": row.Adapter, "outcome": row.Outcome, "fields": row.Fields,
				"status": rt.status, "errhdr": rt.errHdr, "client": kind, "clientfields": cf, "held_same": reflect.DeepEqual(before, after)})
			tw.Write(b)
			tw.WriteByte('\n')
		}
		if !reflect.DeepEqual(before, after) {
			violation("C08/error-object-modified", fmt.Sprintf("the error object held by the resource changed: %v -> %v", before, after), cs)
		}
		if kind == "connection-crashed" {
			violation("C08/connection-crashed/"+row.Outcome, "the exchange ended with a broken connection: "+cerr.Error(), cs)
			continue
		}
		if rt.status != row.Status && !(row.Outcome == "error" || row.Outcome == "panic" || row.Outcome == "nil") {
			violation(fmt.Sprintf("C08/status/%s/%s", row.Outcome, row.Adapter), fmt.Sprintf("HTTP status %d, specified %d", rt.status, row.Status), cs)
			continue
		}
		if (row.Outcome == "error" || row.Outcome == "panic" || row.Outcome == "nil") && (rt.status < 400 || rt.status > 599) {
			violation(fmt.Sprintf("C08/no-failure-status/%s/%s", row.Outcome, row.Adapter), fmt.Sprintf("HTTP status %d for a failed call", rt.status), cs)
			continue
		}
		if rt.errHdr != row.ErrHdr {
			violation(fmt.Sprintf("C08/error-header/%s", row.Outcome), fmt.Sprintf("error header %v, specified %v", rt.errHdr, row.ErrHdr), cs)
			continue
		}
		if kind != row.Client {
			violation(fmt.Sprintf("C08/client-result/%s/%s", row.Outcome, row.Adapter), fmt.Sprintf("client call returned %s (%v), specified %s", kind, cerr, row.Client), cs)
			continue
		}
		if kind == "resterr" {
			switch row.Outcome {
			case "errresp":
				for k, v := range before {
					if clientFields[k] != v {
						violation("C08/error-response-field-lost/"+k, fmt.Sprintf("field %s of the error response: resource returned %q, client received %q", k, v, clientFields[k]), cs)
					}
				}
				for k := range clientFields {
					if _, ok := before[k]; !ok && k != "message" && k != "status" {
						violation("C08/error-response-field-added/"+k, fmt.Sprintf("client received field %s = %q the resource never set", k, clientFields[k]), cs)
					}
				}
			case "error", "wrapped":
				if !strings.Contains(clientFields["message"], errPlain.Error()) { // verbatim, including its percent signs
					violation("C08/error-message-lost", fmt.Sprintf("client error message %q does not carry the error's message", clientFields["message"]), cs)
				}
			case "panic":
				if !strings.Contains(clientFields["message"], "boom") {
					violation("C08/panic-message-lost", fmt.Sprintf("client error message %q does not carry the panic's message", clientFields["message"]), cs)
				}
			}
		}
		if row.Outcome == "value" && batchErrs != nil {
			want := map[string]string{"k,2": "map[message:no such key status:404]", "k3": "map[message:gone for good status:410]"}
			if len(batchErrs) != len(want) || batchErrs["k,2"] != want["k,2"] || batchErrs["k3"] != want["k3"] {
				violation("C08/batch-error-key", fmt.Sprintf("per-key errors arrived as %v, expected %v", batchErrs, want), cs)
			}
		}
	}
	b, _ := json.Marshal(map[string]any{"kind": "stats", "rows": rows, "skipped": skipped, "violation_counts": vcount})
	out.Write(b)
	out.WriteByte('\n')
}
