//go:build v2

package main

import "github.com/PapaCharlie/go-restli/v2/restlidata/generated/com/linkedin/restli/common"

func setField(e *common.ErrorResponse, f string) bool {
	switch f {
	case "status":
		s := int32(418)
		e.Status = &s
	case "message":
		s := "resource says no: \"quoted\" é"
		e.Message = &s
	case "code":
		s := "INPUT_VALIDATION_FAILED"
		e.Code = &s
		n := int32(77)
		e.ServiceErrorCode = &n
	case "exceptionClass":
		s := "com.example.Boom"
		e.ExceptionClass = &s
	case "details":
		s := "com.example.Detail"
		e.ErrorDetailType = &s
		e.ErrorDetails = &common.ErrorDetails{}
	default:
		return false
	}
	return true
}

func fieldsOf(e *common.ErrorResponse) map[string]string {
	m := map[string]string{}
	if e.Status != nil {
		m["status"] = itoa(int(*e.Status))
	}
	if e.Message != nil {
		m["message"] = *e.Message
	}
	if e.Code != nil || e.ServiceErrorCode != nil {
		m["code"] = deref(e.Code) + "/" + itoa32(e.ServiceErrorCode)
	}
	if e.ExceptionClass != nil {
		m["exceptionClass"] = *e.ExceptionClass
	}
	if e.ErrorDetailType != nil || e.ErrorDetails != nil {
		m["details"] = deref(e.ErrorDetailType)
		if e.ErrorDetails != nil {
			m["details"] += "+obj"
		}
	}
	if e.StackTrace != nil {
		m["stackTrace"] = "set"
	}
	return m
}
