//go:build root

package main

import "github.com/PapaCharlie/go-restli/v2/restlidata/generated/com/linkedin/restli/common"

func setField(e *common.ErrorResponse, f string) bool {
	switch f {
	case "status":
		s := int32(418)
		e.Status = &s
	case "message":
		s := "resource says no: \"quoted\" é"
		e.Message = &s
	case "exceptionClass":
		s := "com.example.Boom"
		e.ExceptionClass = &s
	default:
		return false // the root module's ErrorResponse has no such field
	}
	return true
}

func fieldsOf(e *common.ErrorResponse) map[string]string {
	m := map[string]string{}
	if e.Status != nil {
		m["status"] = itoa(int(*e.Status))
	}
	if e.Message != nil {
		m["message"] = *e.Message
	}
	if e.ExceptionClass != nil {
		m["exceptionClass"] = *e.ExceptionClass
	}
	if e.StackTrace != nil {
		m["stackTrace"] = "set"
	}
	return m
}
