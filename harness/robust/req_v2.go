//go:build v2

package main

import "github.com/PapaCharlie/go-restli/v2/restlicodec"

func requiredA() *restlicodec.RequiredFields { return restlicodec.NewRequiredFields().Add("a") }

func requiredNone() *restlicodec.RequiredFields { return restlicodec.NewRequiredFields() }
func requiredX() *restlicodec.RequiredFields    { return restlicodec.NewRequiredFields().Add("x") }
