//go:build root

package main

import "github.com/PapaCharlie/go-restli/v2/restlicodec"

func requiredA() restlicodec.RequiredFields { return restlicodec.RequiredFields{"a"} }

func requiredNone() restlicodec.RequiredFields { return restlicodec.RequiredFields{} }
func requiredX() restlicodec.RequiredFields    { return restlicodec.RequiredFields{"x"} }
