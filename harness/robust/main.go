// Harness for C04 (decoder robustness) on the raw readers of both module generations: every string over the ROR2 /
// JSON / query delimiter alphabets up to a bound (enumerated by TLC from Ror2Lex.tla, or generated here for the larger
// bounds) is fed to every reader entry point under recover and a watchdog; untyped Go values of a small type lattice
// go through the interface reader.  A case passes iff the call returns (a value or an error) without panicking.
package main

import (
	"bufio"
	"encoding/json"
	"flag"
	"fmt"
	"os"
	"strings"
	"sync/atomic"
	"time"

	"github.com/PapaCharlie/go-restli/v2/restlicodec"
)

var out *bufio.Writer
var vcount = map[string]int{}

func violation(key, what string, c any) {
	vcount[key]++
	if vcount[key] > 3 {
		return
	}
	b, _ := json.Marshal(map[string]any{"kind": "violation", "key": key, "what": what, "case": c})
	out.Write(b)
	out.WriteByte('\n')
}

var current atomic.Value // string: the case being executed, for the watchdog
var heartbeat int64

type entry struct {
	name string
	run  func(r restlicodec.Reader) error
}

var readInterfaceDeep func(r restlicodec.Reader) error

func entries() []entry {
	skipAll := func(r restlicodec.Reader, _ string) error { return r.Skip() }
	return []entry{
		{"ReadInterface", func(r restlicodec.Reader) error { _, err := r.ReadInterface(); return err }},
		{"ReadMap+Skip", func(r restlicodec.Reader) error { return r.ReadMap(skipAll) }},
		{"ReadMap+ReadString", func(r restlicodec.Reader) error {
			return r.ReadMap(func(r restlicodec.Reader, _ string) error { _, err := r.ReadString(); return err })
		}},
		{"ReadMap+ReadMap+ReadInt", func(r restlicodec.Reader) error {
			return r.ReadMap(func(r restlicodec.Reader, _ string) error {
				return r.ReadMap(func(r restlicodec.Reader, _ string) error { _, err := r.ReadInt32(); return err })
			})
		}},
		{"ReadMap+ReadArray+ReadString", func(r restlicodec.Reader) error {
			return r.ReadMap(func(r restlicodec.Reader, _ string) error {
				return r.ReadArray(func(r restlicodec.Reader) error { _, err := r.ReadString(); return err })
			})
		}},
		{"ReadArray+ReadString", func(r restlicodec.Reader) error {
			return r.ReadArray(func(r restlicodec.Reader) error { _, err := r.ReadString(); return err })
		}},
		{"ReadArray+ReadMap+Skip", func(r restlicodec.Reader) error {
			return r.ReadArray(func(r restlicodec.Reader) error { return r.ReadMap(skipAll) })
		}},
		{"ReadArray+Skip", func(r restlicodec.Reader) error {
			return r.ReadArray(func(r restlicodec.Reader) error { return r.Skip() })
		}},
		{"ReadRecord", func(r restlicodec.Reader) error {
			return r.ReadRecord(requiredA(), func(r restlicodec.Reader, f string) error {
				if f == "a" {
					_, err := r.ReadString()
					return err
				}
				return r.Skip()
			})
		}},
		{"ReadString", func(r restlicodec.Reader) error { _, err := r.ReadString(); return err }},
		{"ReadBytes", func(r restlicodec.Reader) error { _, err := r.ReadBytes(); return err }},
		{"ReadInt64", func(r restlicodec.Reader) error { _, err := r.ReadInt64(); return err }},
		{"ReadFloat64", func(r restlicodec.Reader) error { _, err := r.ReadFloat64(); return err }},
		{"ReadBool", func(r restlicodec.Reader) error { _, err := r.ReadBool(); return err }},
		{"Skip", func(r restlicodec.Reader) error { return r.Skip() }},
		{"ReadRawBytes", func(r restlicodec.Reader) error { _, err := r.ReadRawBytes(); return err }},
		{"ReadMap+ReadRawBytes", func(r restlicodec.Reader) error {
			return r.ReadMap(func(r restlicodec.Reader, _ string) error { _, err := r.ReadRawBytes(); return err })
		}},
	}
}

type counters struct{ Calls, Errors, Accepted, Panics int }

func tryCall(format, entryName, input string, mk func() (restlicodec.Reader, error), run func(restlicodec.Reader) error, c *counters) {
	current.Store(format + " " + entryName + " " + fmt.Sprintf("%q", input))
	atomic.AddInt64(&heartbeat, 1)
	c.Calls++
	defer func() {
		if r := recover(); r != nil {
			c.Panics++
			msg := fmt.Sprint(r)
			kind := "panic"
			switch {
			case strings.Contains(msg, "index out of range"), strings.Contains(msg, "slice bounds out of range"):
				kind = "index-out-of-range"
			case strings.Contains(msg, "nil pointer"), strings.Contains(msg, "nil map"):
				kind = "nil-dereference"
			case strings.Contains(msg, "interface conversion"):
				kind = "type-assertion"
			}
			violation(fmt.Sprintf("C04/%s/%s/%s", format, entryName, kind), fmt.Sprintf("%s on input %q: %s", entryName, input, msg),
				map[string]any{"format": format, "entry": entryName, "input": input})
		}
	}()
	r, err := mk()
	if err != nil {
		c.Errors++
		return
	}
	if err := run(r); err != nil {
		c.Errors++
	} else {
		c.Accepted++
	}
}

func enumerate(tokens []string, maxLen int, f func(s string)) {
	var rec func(prefix string, n int)
	rec = func(prefix string, n int) {
		f(prefix)
		if n == maxLen {
			return
		}
		for _, t := range tokens {
			rec(prefix+t, n+1)
		}
	}
	rec("", 0)
}

type chanT chan int

func untypedValues() []any {
	var nilMap map[string]any
	var nilSlice []any
	var nilPtr *int
	var nilIface any
	i := 42
	return []any{
		nil, nilMap, nilSlice, nilPtr, &nilIface, 42, int8(1), uint64(1 << 63), 1.5, "x", []byte("x"), true, &i,
		make(chanT), func() {}, struct{ A int }{1}, &struct{ A int }{1},
		map[string]any{"a": nil}, map[string]any{"a": map[string]any{"b": []any{nil, 1, "x", map[int]string{1: "y"}}}},
		map[int]any{1: 2}, map[string]int{"a": 1}, []int{1, 2}, []any{[]any{[]any{}}}, [2]int{1, 2},
		map[string]any{"a": make(chanT), "b": func() {}}, []any{nilPtr, nilMap}, map[string]*int{"a": nil},
		complex(1, 2), uintptr(1), json.Number("12"), json.Number("x"),
	}
}

func main() {
	rorLen := flag.Int("ror2-len", 5, "max tokens of ROR2 strings")
	jsonLen := flag.Int("json-len", 4, "max tokens of JSON strings")
	queryLen := flag.Int("query-len", 5, "max tokens of query strings")
	extra := flag.String("extra", "", "file with additional inputs, one JSON string per line: {\"format\":..,\"input\":..}")
	model := flag.String("model", "", "inputs with the accept/reject verdict of Ror2Lex.tla (conformance of ReadInterface)")
	httpSeg := flag.Int("http-seg-len", 3, "max tokens of path segments / query values at HTTP level")
	httpBody := flag.Int("http-body-len", 3, "max tokens of bodies at HTTP level")
	flag.Parse()
	out = bufio.NewWriterSize(os.Stdout, 1<<20)
	defer out.Flush()
	// watchdog: a call that does not return within 5 seconds is a hang
	go func() {
		last := int64(-1)
		for {
			time.Sleep(5 * time.Second)
			hb := atomic.LoadInt64(&heartbeat)
			if hb == last {
				b, _ := json.Marshal(map[string]any{"kind": "violation", "key": "C04/hang", "what": fmt.Sprintf("call did not return within 5s: %v", current.Load()), "case": map[string]any{"case": current.Load()}})
				os.Stdout.Write(append(b, '\n'))
				os.Exit(3)
			}
			last = hb
		}
	}()
	stats := map[string]*counters{}
	get := func(k string) *counters {
		if stats[k] == nil {
			stats[k] = &counters{}
		}
		return stats[k]
	}
	ents := entries()
	// ---- ROR2
	enumerate([]string{"(", ")", ",", ":", "'", "a", "List(", "%", "$"}, *rorLen, func(s string) {
		for _, e := range ents {
			tryCall("ror2", e.name, s, func() (restlicodec.Reader, error) { return restlicodec.NewRor2Reader(s) }, e.run, get("ror2"))
		}
	})
	// ---- query strings
	enumerate([]string{"a", "=", "&", "(", ")", ",", ":", "%", "List("}, *queryLen, func(s string) {
		current.Store("query " + s)
		atomic.AddInt64(&heartbeat, 1)
		c := get("query")
		var params restlicodec.QueryParamsReader
		func() {
			defer func() {
				if r := recover(); r != nil {
					c.Panics++
					violation("C04/query/ParseQueryParams/panic", fmt.Sprintf("ParseQueryParams(%q): %v", s, r), map[string]any{"input": s})
				}
			}()
			c.Calls++
			var err error
			params, err = restlicodec.ParseQueryParams(s)
			if err != nil {
				c.Errors++
				params = nil
			}
		}()
		for name := range params {
			name := name
			for _, e := range ents[:6] {
				tryCall("query", e.name, s, func() (restlicodec.Reader, error) {
					p, err := restlicodec.ParseQueryParams(s)
					if err != nil {
						return nil, err
					}
					return p[name], nil
				}, e.run, c)
			}
		}
		tryCall("query", "QueryParamsReader.ReadRecord", s, func() (restlicodec.Reader, error) { return nil, nil }, func(restlicodec.Reader) error {
			p, err := restlicodec.ParseQueryParams(s)
			if err != nil {
				return err
			}
			return p.ReadRecord(requiredA(), func(r restlicodec.Reader, f string) error { _, err := r.ReadInterface(); return err })
		}, c)
	})
	// ---- JSON
	enumerate([]string{"{", "}", "[", "]", "\"", ":", ",", "a", "1", "null", "\\", "-", "e", " "}, *jsonLen, func(s string) {
		for _, e := range ents {
			tryCall("json", e.name, s, func() (restlicodec.Reader, error) { return restlicodec.NewJsonReader([]byte(s)) }, e.run, get("json"))
		}
	})
	// ---- untyped values
	for i, v := range untypedValues() {
		for _, e := range ents {
			v := v
			tryCall("untyped", e.name, fmt.Sprintf("#%d %T", i, v), func() (restlicodec.Reader, error) { return restlicodec.NewInterfaceReader(v), nil }, e.run, get("untyped"))
		}
	}
	// ---- additional inputs (mutations of valid encodings, exported by the driver)
	if *extra != "" {
		f, err := os.Open(*extra)
		if err != nil {
			panic(err)
		}
		sc := bufio.NewScanner(f)
		sc.Buffer(make([]byte, 1<<20), 1<<26)
		for sc.Scan() {
			var x struct{ Format, Input string }
			if json.Unmarshal(sc.Bytes(), &x) != nil {
				continue
			}
			for _, e := range ents {
				s := x.Input
				if x.Format == "json" {
					tryCall("json-mutation", e.name, s, func() (restlicodec.Reader, error) { return restlicodec.NewJsonReader([]byte(s)) }, e.run, get("json-mutation"))
				} else {
					tryCall("ror2-mutation", e.name, s, func() (restlicodec.Reader, error) { return restlicodec.NewRor2Reader(s) }, e.run, get("ror2-mutation"))
				}
			}
		}
	}
	runHTTP(get, *httpSeg, *httpBody)
	// ---- conformance with the specification's parser: accept / reject of ReadInterface on every modelled input
	agree, disagree := 0, 0
	var firstDis string
	if *model != "" {
		f, err := os.Open(*model)
		if err != nil {
			panic(err)
		}
		sc := bufio.NewScanner(f)
		for sc.Scan() {
			var x struct {
				Toks   []string `json:"toks"`
				Accept bool     `json:"accept"`
			}
			if json.Unmarshal(sc.Bytes(), &x) != nil {
				continue
			}
			in := strings.Join(x.Toks, "")
			accepted := false
			func() {
				defer func() { recover() }()
				if r, err := restlicodec.NewRor2Reader(in); err == nil {
					_, err = r.ReadInterface()
					accepted = err == nil
				}
			}()
			if accepted == x.Accept {
				agree++
			} else {
				disagree++
				if firstDis == "" {
					firstDis = fmt.Sprintf("%q: reader accepts=%v, specification accepts=%v", in, accepted, x.Accept)
				}
			}
		}
	}
	b, _ := json.Marshal(map[string]any{"kind": "stats", "stats": stats, "violation_counts": vcount, "model_agree": agree, "model_disagree": disagree, "first_disagreement": firstDis})
	out.Write(b)
	out.WriteByte('\n')
}
