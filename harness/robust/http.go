package main

import (
	"bytes"
	"context"
	"encoding/json"
	"fmt"
	"io"
	"net/http"
	"net/http/httptest"
	"net/url"
	"strings"
	"sync/atomic"

	"github.com/PapaCharlie/go-restli/v2/restli"
	"github.com/PapaCharlie/go-restli/v2/restlicodec"
	"github.com/PapaCharlie/go-restli/v2/restlidata/generated/com/linkedin/restli/common"
)

// HTTP level of C04: hostile bytes at every peer-controlled position of an exchange.
//   server: path segment, query string, body, tunnelled body, method-override / content-type headers -- the answer must
//           never be a 5xx, a recovered panic or carry a stack trace, and resource code runs only for 2xx answers;
//   client: status line, headers and body of the response -- the client call must return (a value or an error).

type rpT struct{ keys []int64 }

func (r *rpT) NewInstance() *rpT { return new(rpT) }
func (r *rpT) UnmarshalResourcePath(segments []restlicodec.Reader) error {
	for _, s := range segments {
		k, err := s.ReadInt64()
		if err != nil {
			return err
		}
		r.keys = append(r.keys, k)
	}
	return nil
}

type qpT struct{ p string }

func (q *qpT) NewInstance() *qpT { return new(qpT) }
func (q *qpT) DecodeQueryParams(r restlicodec.QueryParamsReader) error {
	return r.ReadRecord(requiredNone(), func(rd restlicodec.Reader, f string) (err error) {
		if f == "p" {
			q.p, err = rd.ReadString()
			return err
		}
		_, err = rd.ReadInterface()
		return err
	})
}

type entT struct{ X int32 }

func (e *entT) NewInstance() *entT { return new(entT) }
func (e *entT) MarshalRestLi(w restlicodec.Writer) error {
	x := e.X
	return w.WriteMap(func(kw func(string) restlicodec.Writer) error { kw("x").WriteInt32(x); return nil })
}
func (e *entT) UnmarshalRestLi(r restlicodec.Reader) error {
	return r.ReadRecord(requiredX(), func(r restlicodec.Reader, k string) (err error) {
		if k == "x" {
			e.X, err = r.ReadInt32()
			return err
		}
		return r.Skip()
	})
}

var invoked int64

type bqp = *restli.SliceBatchQueryParams[int64]

func newHostileServer() http.Handler {
	s := restli.NewServer()
	segs := []restli.ResourcePathSegment{restli.NewResourcePathSegment("r1", true)}
	hit := func() { atomic.AddInt64(&invoked, 1) }
	restli.RegisterGet(s, segs, func(ctx *restli.RequestContext, rp *rpT, qp *qpT) (*entT, error) { hit(); return &entT{X: 1}, nil })
	restli.RegisterUpdate(s, segs, nil, func(ctx *restli.RequestContext, rp *rpT, v *entT, qp *qpT) error { hit(); return nil })
	restli.RegisterPartialUpdate(s, segs, nil, func(ctx *restli.RequestContext, rp *rpT, v *entT, qp *qpT) error { hit(); return nil })
	restli.RegisterDelete(s, segs, func(ctx *restli.RequestContext, rp *rpT, qp *qpT) error { hit(); return nil })
	restli.RegisterGetAll(s, segs, func(ctx *restli.RequestContext, rp *rpT, qp *qpT) (*common.Elements[*entT], error) {
		hit()
		return &common.Elements[*entT]{}, nil
	})
	restli.RegisterBatchGet(s, segs, func(ctx *restli.RequestContext, rp *rpT, keys []int64, qp bqp) (*common.BatchResponse[int64, *entT], error) {
		hit()
		return &common.BatchResponse[int64, *entT]{}, nil
	})
	restli.RegisterBatchUpdate(s, segs, nil, func(ctx *restli.RequestContext, rp *rpT, vs map[int64]*entT, qp bqp) (*common.BatchResponse[int64, *common.BatchEntityUpdateResponse], error) {
		hit()
		return &common.BatchResponse[int64, *common.BatchEntityUpdateResponse]{}, nil
	})
	restli.RegisterCreate(s, segs, nil, func(ctx *restli.RequestContext, rp *rpT, v *entT, qp *qpT) (*common.CreatedEntity[int64], error) {
		hit()
		return &common.CreatedEntity[int64]{Id: 7}, nil
	})
	restli.RegisterBatchDelete(s, segs, func(ctx *restli.RequestContext, rp *rpT, keys []int64, qp bqp) (*common.BatchResponse[int64, *common.BatchEntityUpdateResponse], error) {
		hit()
		return &common.BatchResponse[int64, *common.BatchEntityUpdateResponse]{}, nil
	})
	restli.RegisterBatchPartialUpdate(s, segs, nil, func(ctx *restli.RequestContext, rp *rpT, vs map[int64]*entT, qp bqp) (*common.BatchResponse[int64, *common.BatchEntityUpdateResponse], error) {
		hit()
		return &common.BatchResponse[int64, *common.BatchEntityUpdateResponse]{}, nil
	})
	restli.RegisterBatchCreate(s, segs, nil, func(ctx *restli.RequestContext, rp *rpT, vs []*entT, qp *qpT) ([]*common.CreatedEntity[int64], error) {
		hit()
		return []*common.CreatedEntity[int64]{{Id: 7}}, nil
	})
	restli.RegisterFinder(s, segs, "f", func(ctx *restli.RequestContext, rp *rpT, qp *qpT) (*common.Elements[*entT], error) {
		hit()
		return &common.Elements[*entT]{}, nil
	})
	restli.RegisterAction(s, segs, "a", func(ctx *restli.RequestContext, rp *rpT, p *entT) error { hit(); return nil })
	// a resource with read-only / create-only annotations (wildcards included): the exclusion matcher sees every key of the
	// body, also the patch operators and keys named like them
	segs2 := []restli.ResourcePathSegment{restli.NewResourcePathSegment("r2", true)}
	ro := restlicodec.NewPathSpec("x", "m/*/x", "m/*/y/z")
	restli.RegisterCreate(s, segs2, ro, func(ctx *restli.RequestContext, rp *rpT, v *anyT, qp *qpT) (*common.CreatedEntity[int64], error) {
		hit()
		return &common.CreatedEntity[int64]{Id: 7}, nil
	})
	restli.RegisterUpdate(s, segs2, ro, func(ctx *restli.RequestContext, rp *rpT, v *anyT, qp *qpT) error { hit(); return nil })
	restli.RegisterPartialUpdate(s, segs2, ro, func(ctx *restli.RequestContext, rp *rpT, v *anyT, qp *qpT) error { hit(); return nil })
	return s.Handler()
}

// anyT reads whatever object it is given, entering every nested object and array (so that every key is seen in its scope)
type anyT struct{}

func (e *anyT) NewInstance() *anyT { return new(anyT) }
func (e *anyT) MarshalRestLi(w restlicodec.Writer) error {
	return w.WriteMap(func(func(string) restlicodec.Writer) error { return nil })
}
func (e *anyT) UnmarshalRestLi(r restlicodec.Reader) error {
	var rd func(r restlicodec.Reader, depth int) error
	rd = func(r restlicodec.Reader, depth int) error {
		return r.ReadMap(func(r restlicodec.Reader, k string) error {
			if depth < 4 {
				if err := rd(r, depth+1); err == nil {
					return nil
				}
			}
			return r.Skip()
		})
	}
	return rd(r, 0)
}

func serverProbe(h http.Handler, position, verb, target string, hdr map[string]string, body []byte, c *counters) {
	current.Store("http " + position + " " + verb + " " + target + " " + string(body))
	atomic.AddInt64(&heartbeat, 1)
	c.Calls++
	before := atomic.LoadInt64(&invoked)
	var rd io.Reader = http.NoBody
	if body != nil {
		rd = bytes.NewReader(body)
	}
	cs := map[string]any{"position": position, "verb": verb, "target": target, "headers": hdr, "body": string(body)}
	var req *http.Request
	func() {
		defer func() {
			if r := recover(); r != nil {
				req = nil
			}
		}()
		req = httptest.NewRequest(verb, target, rd)
	}()
	if req == nil {
		return // net/http itself refuses the request line
	}
	for k, v := range hdr {
		req.Header.Set(k, v)
	}
	rec := httptest.NewRecorder()
	func() {
		defer func() {
			if r := recover(); r != nil {
				c.Panics++
				violation("C04/http/server/"+position+"/panic-escaped", fmt.Sprintf("ServeHTTP panicked: %v", r), cs)
			}
		}()
		h.ServeHTTP(rec, req)
	}()
	ran := atomic.LoadInt64(&invoked) != before
	cs["status"] = rec.Code
	switch {
	case rec.Code >= 500:
		c.Errors++
		kind := "5xx"
		if strings.Contains(rec.Body.String(), "goroutine ") {
			kind = "recovered-panic-with-stack-trace"
		}
		violation("C04/http/server/"+position+"/"+kind, fmt.Sprintf("%s %s answered %d: %s", verb, target, rec.Code, clipS(rec.Body.String())), cs)
	case strings.Contains(rec.Body.String(), "goroutine "):
		violation("C04/http/server/"+position+"/stack-trace", "response carries a stack trace", cs)
	case position == "body" && !json.Valid(body) && (ran || rec.Code < 400):
		// an independent strict parser (encoding/json) says the body is not one JSON document: a malformed request
		violation("C04/http/server/body/malformed-body-accepted", fmt.Sprintf("%s %s with a body that is not a JSON document was answered %d (resource invoked: %v): %s", verb, target, rec.Code, ran, clipS(string(body))), cs)
	case position == "path-shape" && (ran || rec.Code < 400):
		// the path shape contradicts the method the request names (or that the protocol infers): a malformed request
		violation("C04/http/server/path-shape/malformed-request-accepted", fmt.Sprintf("%s %s (%v) was answered %d (resource invoked: %v)", verb, target, hdr["X-RestLi-Method"], rec.Code, ran), cs)
	case ran && (rec.Code < 200 || rec.Code > 299):
		violation("C04/http/server/"+position+"/resource-invoked-for-rejected-request", fmt.Sprintf("resource code ran although the answer is %d", rec.Code), cs)
	default:
		if rec.Code >= 400 {
			c.Errors++
		} else {
			c.Accepted++
		}
	}
}

func clipS(s string) string {
	if len(s) > 200 {
		return s[:200] + "..."
	}
	return s
}

type cannedRT struct {
	status int
	header http.Header
	body   string
}

func (c *cannedRT) RoundTrip(req *http.Request) (*http.Response, error) {
	return &http.Response{StatusCode: c.status, Status: fmt.Sprint(c.status), Header: c.header.Clone(), Body: io.NopCloser(strings.NewReader(c.body)),
		Request: req, ProtoMajor: 1, ProtoMinor: 1}, nil
}

func clientProbe(status int, hdr http.Header, body string, c *counters) {
	// a strict client reports missing required fields, a lenient one goes on with the partial value: both must survive
	clientProbeMode(status, hdr, body, c, true)
	clientProbeMode(status, hdr, body, c, false)
}

func clientProbeMode(status int, hdr http.Header, body string, c *counters, strict bool) {
	u, _ := url.Parse("http://h")
	rt := &cannedRT{status, hdr, body}
	cl := &restli.Client{Client: &http.Client{Transport: rt}, HostnameResolver: &restli.SimpleHostnameResolver{Hostname: u}, StrictResponseDeserialization: strict}
	ctx := context.Background()
	rp := restli.ResourcePathString("/r1/1")
	calls := map[string]func() error{
		"Get":    func() error { _, err := restli.Get[*entT](cl, ctx, rp, nil); return err },
		"GetAll": func() error { _, err := restli.GetAll[*entT](cl, ctx, rp, nil); return err },
		"Find":   func() error { _, err := restli.Find[*entT](cl, ctx, rp, restli.QueryParamsString("q=f")); return err },
		"Create": func() error { _, err := restli.Create[int64](cl, ctx, rp, &entT{}, nil, nil); return err },
		"CreateRet": func() error {
			_, err := restli.CreateWithReturnEntity[int64](cl, ctx, rp, &entT{}, nil, nil)
			return err
		},
		"Update":      func() error { return restli.Update(cl, ctx, rp, &entT{}, nil, nil) },
		"Delete":      func() error { return restli.Delete(cl, ctx, rp, nil) },
		"BatchGet":    func() error { _, err := restli.BatchGet[int64, *entT](cl, ctx, rp, []int64{1, 2}, nil); return err },
		"BatchDelete": func() error { _, err := restli.BatchDelete(cl, ctx, rp, []int64{1, 2}, nil); return err },
		"BatchCreate": func() error { _, err := restli.BatchCreate[int64](cl, ctx, rp, []*entT{{}}, nil, nil); return err },
		"Action": func() error {
			_, err := restli.DoActionRequestWithResults(cl, ctx, rp, restli.QueryParamsString("action=a"), &entT{}, restlicodec.UnmarshalRestLi[*entT])
			return err
		},
	}
	for name, f := range calls {
		current.Store(fmt.Sprintf("client %s %d %v %q", name, status, hdr, body))
		atomic.AddInt64(&heartbeat, 1)
		c.Calls++
		func() {
			defer func() {
				if r := recover(); r != nil {
					c.Panics++
					violation("C04/http/client/"+name+"/panic", fmt.Sprintf("client call (strict=%v) panicked on a malformed response (%d, %v, %q): %v", strict, status, hdr, body, r),
						map[string]any{"call": name, "status": status, "headers": hdr, "body": body, "strict": strict})
				}
			}()
			if err := f(); err != nil {
				c.Errors++
			} else {
				c.Accepted++
			}
		}()
	}
}

func runHTTP(get func(string) *counters, segLen, bodyLen int) {
	h := newHostileServer()
	ver := map[string]string{"X-RestLi-Protocol-Version": "2.0.0"}
	with := func(extra map[string]string) map[string]string {
		m := map[string]string{}
		for k, v := range ver {
			m[k] = v
		}
		for k, v := range extra {
			m[k] = v
		}
		return m
	}
	c := get("http-server")
	// path segments and query values over the ROR2 alphabet (percent-encoded where the request line needs it)
	enumerate([]string{"(", ")", ",", ":", "'", "a", "List(", "%25", "1", "%28", "/"}, segLen, func(s string) {
		serverProbe(h, "path-segment", "GET", "/r1/"+s, ver, nil, c)
		serverProbe(h, "path-segment", "DELETE", "/r1/"+s+"/zz", ver, nil, c)
		serverProbe(h, "query", "GET", "/r1/1?p="+s, ver, nil, c)
		serverProbe(h, "query", "GET", "/r1?ids="+s, with(map[string]string{"X-RestLi-Method": "batch_get"}), nil, c)
		serverProbe(h, "query", "GET", "/r1?q=f&"+s+"="+s, ver, nil, c)
		serverProbe(h, "tunnelled-query", "POST", "/r1/1", with(map[string]string{"X-HTTP-Method-Override": "GET", "Content-Type": "application/x-www-form-urlencoded"}), []byte("p="+s), c)
	})
	// the shape of the path against the method: whole-collection methods with an entity segment, entity methods without one
	// (named by the header, and as the protocol infers them from verb and query)
	js0 := map[string]string{"Content-Type": "application/json"}
	for _, ent := range []string{"1", "(a:(b:1)", "%28"} {
		for _, p := range []struct{ verb, query, method, body string }{
			{"GET", "?ids=List(1,2)", "batch_get", ""}, // (a header-less GET with an entity key is a get, whatever the query)
			{"DELETE", "?ids=List(2,3)", "batch_delete", ""}, {"DELETE", "?ids=List(2,3)", "", ""},
			{"PUT", "?ids=List(1)", "batch_update", `{"entities":{"1":{"x":1}}}`}, {"PUT", "?ids=List(1)", "", `{"entities":{"1":{"x":1}}}`},
			{"POST", "?ids=List(1)", "batch_partial_update", `{"entities":{"1":{"patch":{}}}}`},
			{"POST", "", "create", `{"x":1}`}, {"POST", "", "batch_create", `{"elements":[{"x":1}]}`},
			{"GET", "?q=f", "finder", ""}, {"GET", "", "get_all", ""},
		} {
			hd := with(nil)
			if p.method != "" {
				hd["X-RestLi-Method"] = p.method
			}
			var body []byte
			if p.body != "" {
				body = []byte(p.body)
				for k, v := range js0 {
					hd[k] = v
				}
			}
			serverProbe(h, "path-shape", p.verb, "/r1/"+ent+p.query, hd, body, c)
		}
	}
	for _, p := range []struct{ verb, method, body string }{{"GET", "get", ""}, {"PUT", "update", `{"x":1}`}, {"DELETE", "delete", ""}, {"POST", "partial_update", `{"patch":{}}`}} {
		hd := with(map[string]string{"X-RestLi-Method": p.method})
		var body []byte
		if p.body != "" {
			body = []byte(p.body)
			hd["Content-Type"] = "application/json"
		}
		serverProbe(h, "path-shape", p.verb, "/r1", hd, body, c)
	}
	// bodies over the JSON alphabet
	enumerate([]string{"{", "}", "[", "]", "\"", ":", ",", "x", "1", "null", "\\", "-"}, bodyLen, func(s string) {
		js := map[string]string{"Content-Type": "application/json"}
		serverProbe(h, "body", "PUT", "/r1/1", with(js), []byte(s), c)
		serverProbe(h, "body", "POST", "/r1", with(map[string]string{"Content-Type": "application/json", "X-RestLi-Method": "create"}), []byte(s), c)
		serverProbe(h, "body", "POST", "/r1/1", with(map[string]string{"Content-Type": "application/json", "X-RestLi-Method": "partial_update"}), []byte(s), c)
		serverProbe(h, "body", "POST", "/r1?action=a", with(map[string]string{"Content-Type": "application/json", "X-RestLi-Method": "action"}), []byte(s), c)
		serverProbe(h, "body", "PUT", "/r1?ids=List(1)", with(map[string]string{"Content-Type": "application/json", "X-RestLi-Method": "batch_update"}), []byte(s), c)
		serverProbe(h, "body-on-bodyless-method", "GET", "/r1/1", with(js), []byte(s), c)
		// tunnelled: multipart framing damaged by the same strings
		mp := "--b\r\nContent-Type: application/x-www-form-urlencoded\r\n\r\np=1\r\n--b\r\nContent-Type: application/json\r\n\r\n" + s + "\r\n--b--\r\n"
		serverProbe(h, "tunnelled-body", "POST", "/r1/1", with(map[string]string{"X-HTTP-Method-Override": "PUT", "Content-Type": "multipart/mixed; boundary=b"}), []byte(mp), c)
		serverProbe(h, "tunnelled-framing", "POST", "/r1/1", with(map[string]string{"X-HTTP-Method-Override": "PUT", "Content-Type": "multipart/mixed; boundary=b"}), []byte(s+mp[:len(mp)/2]), c)
	})
	// a complete, valid body followed by more bytes is not one JSON document
	js := map[string]string{"Content-Type": "application/json"}
	for _, tail := range []string{"}", "]", `{"x":2}`, "garbage", " x", "\n{", ",", "null", `"`, "\x00"} {
		serverProbe(h, "body", "PUT", "/r1/1", with(js), []byte(`{"x":1}`+tail), c)
		serverProbe(h, "body", "POST", "/r1", with(map[string]string{"Content-Type": "application/json", "X-RestLi-Method": "create"}), []byte(`{"x":1}`+tail), c)
		serverProbe(h, "body", "POST", "/r1/1", with(map[string]string{"Content-Type": "application/json", "X-RestLi-Method": "partial_update"}), []byte(`{"patch":{"$set":{"x":1}}}`+tail), c)
		serverProbe(h, "body", "POST", "/r1?action=a", with(map[string]string{"Content-Type": "application/json", "X-RestLi-Method": "action"}), []byte(`{"x":1}`+tail), c)
		serverProbe(h, "body", "PUT", "/r1?ids=List(1)", with(map[string]string{"Content-Type": "application/json", "X-RestLi-Method": "batch_update"}), []byte(`{"entities":{"1":{"x":1}}}`+tail), c)
	}
	// bodies whose keys are patch operators (or look like them) at every depth, against the annotated resource
	for _, bd := range []string{`{"m":{"$set":{"x":1}}}`, `{"m":{"$delete":["x"]}}`, `{"$set":{"m":{"k":{"x":1}}}}`, `{"$set":1}`, `{"$delete":{}}`, `{"m":{"$set":1}}`,
		`{"m":{"k":{"$set":{"x":1}}}}`, `{"patch":{"$set":{"m":{"$set":{"y":1}}}}}`, `{"patch":{"m":{"$set":{"k":{"y":{"z":1}}}}}}`, `{"patch":{"m":{"$delete":["k"]}}}`,
		`{"patch":{"$set":{}}}`, `{"patch":{"$delete":[]}}`, `{"patch":{"m":{"$set":{}}}}`, `{"m":{"$set":{"$set":{"$set":1}}}}`} {
		serverProbe(h, "exclusion-keys", "POST", "/r2", with(map[string]string{"Content-Type": "application/json", "X-RestLi-Method": "create"}), []byte(bd), c)
		serverProbe(h, "exclusion-keys", "PUT", "/r2/1", with(js), []byte(bd), c)
		serverProbe(h, "exclusion-keys", "POST", "/r2/1", with(map[string]string{"Content-Type": "application/json", "X-RestLi-Method": "partial_update"}), []byte(bd), c)
	}
	// tunnelled: well-formed multipart framing with parts missing, duplicated or of another type, under every override verb
	part := func(ct, body string) string { return "--b\r\nContent-Type: " + ct + "\r\n\r\n" + body + "\r\n" }
	qp, jp, xp := part("application/x-www-form-urlencoded", "p=1"), part("application/json", "{}"), part("text/plain", "x")
	for _, parts := range []string{"", qp, jp, xp, qp + qp, jp + jp, jp + qp, qp + xp, xp + qp + jp, qp + jp + jp, part("application/x-www-form-urlencoded", "")} {
		for _, ov := range []string{"GET", "DELETE", "PUT", "POST"} {
			for _, path := range []string{"/r1/1", "/r1", "/r1?action=a"} {
				serverProbe(h, "tunnelled-parts", "POST", path, with(map[string]string{"X-HTTP-Method-Override": ov, "Content-Type": "multipart/mixed; boundary=b"}), []byte(parts+"--b--\r\n"), c)
			}
		}
	}
	for _, ct := range []string{"", "text/plain", "multipart/mixed", "multipart/mixed; boundary=", "application/json", ";;;", "multipart/mixed; boundary=b; boundary=c"} {
		for _, ov := range []string{"GET", "PUT", "get", "BOGUS", " ", "DELETE"} {
			serverProbe(h, "override-headers", "POST", "/r1/1", with(map[string]string{"X-HTTP-Method-Override": ov, "Content-Type": ct}), []byte("p=1"), c)
			serverProbe(h, "override-headers", "POST", "/r1/1", with(map[string]string{"X-HTTP-Method-Override": ov, "Content-Type": ct}), nil, c)
		}
	}
	for _, m := range []string{"", "bogus", "GET", "get ", "action", "finder", "batch_get"} {
		for _, v := range []string{"GET", "POST", "PUT", "DELETE", "PATCH", "OPTIONS", "HEAD"} {
			serverProbe(h, "method-header", v, "/r1/1", with(map[string]string{"X-RestLi-Method": m}), nil, c)
			serverProbe(h, "method-header", v, "/r1", with(map[string]string{"X-RestLi-Method": m}), nil, c)
		}
	}
	// ---- client side
	cc := get("http-client")
	hdrs := []http.Header{
		{"X-Restli-Protocol-Version": {"2.0.0"}},
		{},
		{"X-Restli-Protocol-Version": {"1.0.0"}},
		{"X-Restli-Protocol-Version": {"2.0.0"}, "X-Restli-Error-Response": {"true"}},
		{"X-Restli-Protocol-Version": {"2.0.0"}, "X-Restli-Id": {"("}},
		{"X-Restli-Protocol-Version": {"2.0.0"}, "X-Restli-Id": {"x"}, "Location": {"::"}},
		{"X-Restli-Protocol-Version": {"2.0.0"}, "X-Restli-Id": {"7"}},
		{"X-Restli-Error-Response": {"TRUE"}},
	}
	bodies := []string{"", "{", "{}", "null", "[]", "1", `"x"`, `{"x":"y"}`, `{"x":1`, `{"elements":1}`, `{"elements":[1]}`, `{"elements":[null]}`, `{"results":[]}`,
		`{"results":{"(":{}}}`, `{"results":{"1":null},"errors":{"x":{}}}`, `{"results":{"3":{"x":1}}}`, `{"value":`, `{"value":null}`, `{"status":"x"}`, `{"status":500,"message":1}`,
		`{"elements":[{"id":"(","status":201}]}`, `{"elements":[{"id":null}]}`, `{"errors":{"1":{"status":"x"}}}`, strings.Repeat("[", 2000), strings.Repeat(`{"x":`, 500)}
	for _, st := range []int{200, 201, 204, 301, 400, 404, 500, 0, 99} {
		for _, hd := range hdrs {
			for _, bd := range bodies {
				clientProbe(st, hd, bd, cc)
			}
		}
	}
	// batch responses whose KEYS are hostile: every string of <= 3 tokens over the ROR2 alphabet as a key of results,
	// statuses and errors
	okHdr := http.Header{"X-Restli-Protocol-Version": {"2.0.0"}}
	enumerate([]string{"(", ")", ",", ":", "'", "a", "1", "List(", "%", "$params"}, 3, func(k string) {
		kb, _ := json.Marshal(k)
		clientProbe(200, okHdr, `{"results":{`+string(kb)+`:{"x":1}}}`, cc)
		clientProbe(200, okHdr, `{"statuses":{`+string(kb)+`:200},"results":{}}`, cc)
		clientProbe(200, okHdr, `{"results":{"1":{"x":1}},"errors":{`+string(kb)+`:{"status":404}}}`, cc)
	})
}
