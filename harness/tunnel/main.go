// Harness for C14 (query tunnelling is transparent): model -> code replay of the exchanges enumerated by TLC from
// Tunnel.tla through the real client request constructors, real wire bytes, real DecodeTunnelledQuery and the real
// server; plus a random driver whose exchanges are logged for Trace_Tunnel.tla.
package main

import (
	"bufio"
	"bytes"
	"context"
	"encoding/json"
	"flag"
	"fmt"
	"io"
	"math/rand"
	"mime"
	"mime/multipart"
	"net/http"
	"net/http/httptest"
	"net/textproto"
	"net/url"
	"os"
	"sort"
	"strings"
	"sync"

	"github.com/PapaCharlie/go-restli/v2/restli"
	"github.com/PapaCharlie/go-restli/v2/restlicodec"
)

type AReq struct {
	Verb  string   `json:"verb"`
	Query []string `json:"query"`
	Body  string   `json:"body"`
	Ctype string   `json:"ctype"`
}

type Row struct {
	Orig      AReq            `json:"orig"`
	Th        int             `json:"th"`
	Tunnelled bool            `json:"tunnelled"`
	Edit      string          `json:"edit"`
	Rejected  bool            `json:"rejected"`
	Seen      json.RawMessage `json:"seen"`
}

var bodies = map[string]string{
	"J1": `{"a":"b"}`,
	"J2": `{"x":"--boundary\r\n--","y":"\r\nContent-Type: application/x-www-form-urlencoded\r\n\r\nq=1"}`,
}

type rawJSON string

func (r rawJSON) MarshalRestLi(w restlicodec.Writer) error {
	var m map[string]string
	json.Unmarshal([]byte(r), &m)
	keys := make([]string, 0, len(m))
	for k := range m {
		keys = append(keys, k)
	}
	sort.Strings(keys)
	return w.WriteMap(func(kw func(string) restlicodec.Writer) error {
		for _, k := range keys { // fixed order: the root module's writer does not sort map keys
			kw(k).WriteString(m[k])
		}
		return nil
	})
}

// ---- recording server

type rpT struct{ keys []string }

func (r *rpT) NewInstance() *rpT { return new(rpT) }
func (r *rpT) UnmarshalResourcePath(segments []restlicodec.Reader) error {
	for _, s := range segments {
		k, err := s.ReadString()
		if err != nil {
			return err
		}
		r.keys = append(r.keys, k)
	}
	return nil
}

type qpT struct{}

func (q *qpT) NewInstance() *qpT                                     { return new(qpT) }
func (q *qpT) DecodeQueryParams(restlicodec.QueryParamsReader) error { return nil }

type capT struct{ raw []byte }

func (e *capT) NewInstance() *capT { return new(capT) }
func (e *capT) MarshalRestLi(w restlicodec.Writer) error {
	return w.WriteMap(func(func(string) restlicodec.Writer) error { return nil })
}
func (e *capT) UnmarshalRestLi(r restlicodec.Reader) (err error) {
	e.raw, err = r.ReadRawBytes()
	return err
}

type ctxKey int

type seenReq struct {
	invoked    bool
	method     string
	verb       string
	rawQuery   string
	requestURI string
	path       string
	ctype      string
	body       string
	restliHdrs string
}

func capture(ctx *restli.RequestContext, method string, body []byte) {
	s, _ := ctx.Request.Context().Value(ctxKey(0)).(*seenReq)
	if s == nil {
		return
	}
	r := ctx.Request
	s.invoked = true
	s.method = method
	s.verb = r.Method
	s.rawQuery = r.URL.RawQuery
	s.requestURI = r.RequestURI
	s.path = r.URL.EscapedPath()
	s.ctype = r.Header.Get("Content-Type")
	s.body = string(body)
	s.restliHdrs = r.Header.Get("X-RestLi-Method") + "|" + r.Header.Get("X-RestLi-Protocol-Version") + "|" + r.Header.Get("X-HTTP-Method-Override")
}

func newServer() http.Handler {
	s := restli.NewServer()
	segs := []restli.ResourcePathSegment{restli.NewResourcePathSegment("r1", true)}
	restli.RegisterGet(s, segs, func(ctx *restli.RequestContext, rp *rpT, qp *qpT) (*capT, error) {
		capture(ctx, "get", nil)
		return &capT{}, nil
	})
	restli.RegisterDelete(s, segs, func(ctx *restli.RequestContext, rp *rpT, qp *qpT) error {
		capture(ctx, "delete", nil)
		return nil
	})
	restli.RegisterUpdate(s, segs, nil, func(ctx *restli.RequestContext, rp *rpT, v *capT, qp *qpT) error {
		capture(ctx, "update", v.raw)
		return nil
	})
	restli.RegisterPartialUpdate(s, segs, nil, func(ctx *restli.RequestContext, rp *rpT, v *capT, qp *qpT) error {
		capture(ctx, "partial_update", v.raw)
		return nil
	})
	return s.Handler()
}

// ---- client side

type wireReq struct {
	method string
	url    *url.URL
	header http.Header
	body   []byte
}

func queryString(toks []string) string {
	var sb strings.Builder
	for _, t := range toks {
		if t == "LONG" { // Tunnel.tla: a run of 6000 query bytes
			sb.WriteString(strings.Repeat("xyz=1234&", 666) + "longer")
			continue
		}
		sb.WriteString(t)
	}
	return sb.String()
}

func methodFor(verb string) restli.Method {
	switch verb {
	case "GET":
		return restli.Method_get
	case "DELETE":
		return restli.Method_delete
	case "PUT":
		return restli.Method_update
	default:
		return restli.Method_partial_update
	}
}

var base, _ = url.Parse("http://host.example")

// build constructs the request through the public constructors; ok=false if the combination cannot be built that way
func build(orig AReq, q string, th int) (*wireReq, bool, error) {
	c := &restli.Client{Client: http.DefaultClient, HostnameResolver: &restli.SimpleHostnameResolver{Hostname: base}, QueryTunnellingThreshold: th}
	rp := restli.ResourcePathString("/r1/k")
	qp := restli.QueryParamsString(q)
	var req *http.Request
	var err error
	switch {
	case orig.Body == "none" && orig.Verb == "GET":
		req, err = restli.NewGetRequest(c, context.Background(), rp, qp, methodFor(orig.Verb))
	case orig.Body == "none" && orig.Verb == "DELETE":
		req, err = restli.NewDeleteRequest(c, context.Background(), rp, qp, methodFor(orig.Verb))
	case orig.Body == "none":
		return nil, false, nil
	default:
		req, err = restli.NewJsonRequest(c, context.Background(), rp, qp, orig.Verb, methodFor(orig.Verb), rawJSON(bodies[orig.Body]), nil)
	}
	if err != nil {
		return nil, true, err
	}
	var body []byte
	if req.Body != nil {
		body, _ = io.ReadAll(req.Body)
	}
	return &wireReq{method: req.Method, url: req.URL, header: req.Header.Clone(), body: body}, true, nil
}

func applyEdit(w *wireReq, edit string) bool {
	ct := w.header.Get("Content-Type")
	mt, params, _ := mime.ParseMediaType(ct)
	rebuild := func(f func(ctype string, data []byte) (string, []byte, bool)) {
		r := multipart.NewReader(bytes.NewReader(w.body), params["boundary"])
		buf := &bytes.Buffer{}
		mw := multipart.NewWriter(buf)
		mw.SetBoundary(params["boundary"])
		for {
			p, err := r.NextPart()
			if err != nil {
				break
			}
			data, _ := io.ReadAll(p)
			nct, ndata, keep := f(p.Header.Get("Content-Type"), data)
			if !keep {
				continue
			}
			pw, _ := mw.CreatePart(textproto.MIMEHeader{"Content-Type": {nct}})
			pw.Write(ndata)
		}
		mw.Close()
		w.body = buf.Bytes()
	}
	switch edit {
	case "none":
		return true
	case "drop_query_part":
		if mt != "multipart/mixed" {
			return false
		}
		rebuild(func(c string, d []byte) (string, []byte, bool) { return c, d, c != "application/x-www-form-urlencoded" })
	case "drop_body_part":
		if mt != "multipart/mixed" {
			return false
		}
		rebuild(func(c string, d []byte) (string, []byte, bool) { return c, d, c != "application/json" })
	case "unknown_part_type":
		if mt != "multipart/mixed" {
			return false
		}
		rebuild(func(c string, d []byte) (string, []byte, bool) {
			if c == "application/json" {
				return "text/plain", d, true
			}
			return c, d, true
		})
	case "empty_query_part":
		if mt != "multipart/mixed" {
			return false
		}
		rebuild(func(c string, d []byte) (string, []byte, bool) {
			if c == "application/x-www-form-urlencoded" {
				return c, nil, true
			}
			return c, d, true
		})
	case "reframe_as_multipart":
		if mt != "application/x-www-form-urlencoded" {
			return false
		}
		buf := &bytes.Buffer{}
		mw := multipart.NewWriter(buf)
		pw, _ := mw.CreatePart(textproto.MIMEHeader{"Content-Type": {"application/x-www-form-urlencoded"}})
		pw.Write(w.body)
		mw.Close()
		w.body = buf.Bytes()
		w.header.Set("Content-Type", "multipart/mixed; boundary="+mw.Boundary())
	case "extra_unknown_part":
		if mt != "multipart/mixed" {
			return false
		}
		rebuild(func(c string, d []byte) (string, []byte, bool) { return c, d, true })
		// append a third part of a type the protocol does not know, after the two expected ones
		closing := []byte("\r\n--" + params["boundary"] + "--\r\n")
		if i := bytes.LastIndex(w.body, closing); i >= 0 {
			extra := "\r\n--" + params["boundary"] + "\r\nContent-Type: text/plain\r\n\r\nnot part of the protocol"
			w.body = append(append(append([]byte{}, w.body[:i]...), extra...), closing...)
		} else {
			return false
		}
	case "stray_override":
		if w.method == "DELETE" {
			w.header.Set("X-HTTP-Method-Override", "GET")
		} else {
			w.header.Set("X-HTTP-Method-Override", "DELETE")
		}
	case "override_with_url_query":
		u := *w.url
		u.RawQuery = "a"
		w.url = &u
	case "unknown_top_type":
		w.header.Set("Content-Type", "application/octet-stream")
	default:
		return false
	}
	return true
}

func serverRequest(w *wireReq) *http.Request {
	// as a server sees it: origin-form request target, Host header
	req := httptest.NewRequest(w.method, w.url.RequestURI(), bytes.NewReader(w.body))
	req.Host = w.url.Host
	for k, v := range w.header {
		req.Header[k] = append([]string{}, v...)
	}
	return req
}

type fields struct {
	Verb, Path, RawQuery, RequestURI, Body, Ctype, Restli string
}

func fieldsOf(req *http.Request) fields {
	var body []byte
	if req.Body != nil {
		body, _ = io.ReadAll(req.Body)
	}
	return fields{req.Method, req.URL.EscapedPath(), req.URL.RawQuery, req.RequestURI, string(body), req.Header.Get("Content-Type"),
		req.Header.Get("X-RestLi-Method") + "|" + req.Header.Get("X-RestLi-Protocol-Version") + "|" + req.Header.Get("X-HTTP-Method-Override")}
}

var out *bufio.Writer
var outMu sync.Mutex
var vcount = map[string]int{}

func violation(key, what string, c any) {
	outMu.Lock()
	defer outMu.Unlock()
	vcount[key]++
	if vcount[key] > 3 {
		return
	}
	b, _ := json.Marshal(map[string]any{"kind": "violation", "key": key, "what": what, "case": c})
	out.Write(b)
	out.WriteByte('\n')
}

type obs struct {
	Built     bool   `json:"built"`
	Tunnelled bool   `json:"tunnelled"`
	Untouched bool   `json:"untouched"`
	DecodeErr bool   `json:"decode_err"`
	SameAsRef bool   `json:"same_as_ref"`
	Status    int    `json:"status"`
	Invoked   bool   `json:"invoked"`
	E2ESame   bool   `json:"e2e_same"`
	Panic     string `json:"panic,omitempty"`
}

// exchange runs one (orig, threshold, edit) through client constructors, wire edit, DecodeTunnelledQuery and server
type heldReq struct {
	req  *http.Request
	want fields
	orig AReq
}

var held *heldReq

func exchange(h http.Handler, orig AReq, q string, th int, edit string) (o obs) {
	w, ok, err := build(orig, q, th)
	if !ok {
		return o
	}
	if err != nil {
		o.Panic = "build: " + err.Error()
		return o
	}
	o.Built = true
	ref, _, _ := build(orig, q, 0)
	o.Tunnelled = w.method == "POST" && w.header.Get("X-HTTP-Method-Override") != ""
	o.Untouched = w.method == ref.method && w.url.String() == ref.url.String() && bytes.Equal(w.body, ref.body) &&
		w.header.Get("Content-Type") == ref.header.Get("Content-Type") && w.header.Get("X-HTTP-Method-Override") == ""
	if !o.Tunnelled && edit != "stray_override" {
		edit = "none" // the adversary of the model only damages tunnelled requests
	}
	if edit == "stray_override" && (o.Tunnelled || w.method == "POST") {
		edit = "none"
	}
	if !applyEdit(w, edit) {
		o.Built = false
		return o
	}
	// (a) function level: the *http.Request after DecodeTunnelledQuery against the untunnelled reference request
	func() {
		defer func() {
			if r := recover(); r != nil {
				o.Panic = fmt.Sprint("DecodeTunnelledQuery panicked: ", r)
			}
		}()
		sreq := serverRequest(w)
		err := restli.DecodeTunnelledQuery(sreq)
		o.DecodeErr = err != nil
		if err == nil {
			rreq := serverRequest(ref)
			restli.DecodeTunnelledQuery(rreq)
			o.SameAsRef = fieldsOf(sreq) == fieldsOf(rreq)
		}
	}()
	// (b) end to end through the server
	run := func(x *wireReq) (int, *seenReq, string) {
		s := &seenReq{}
		req := serverRequest(x)
		req = req.WithContext(context.WithValue(req.Context(), ctxKey(0), s))
		rec := httptest.NewRecorder()
		h.ServeHTTP(rec, req)
		return rec.Code, s, rec.Body.String()
	}
	st, s, body := run(w)
	rst, rs, _ := run(ref)
	o.Status, o.Invoked = st, s.invoked
	o.E2ESame = st == rst && *s == *rs
	if strings.Contains(body, "goroutine ") {
		o.Panic = "server answered with a recovered panic / stack trace"
	}
	return o
}

func main() {
	mode := flag.String("mode", "replay", "")
	in := flag.String("in", "", "")
	trace := flag.String("trace", "", "")
	seed := flag.Int64("seed", 1, "")
	n := flag.Int("n", 1000, "")
	flag.Parse()
	out = bufio.NewWriterSize(os.Stdout, 1<<20)
	defer out.Flush()
	h := newServer()
	switch *mode {
	case "replay":
		f, err := os.Open(*in)
		if err != nil {
			panic(err)
		}
		sc := bufio.NewScanner(f)
		sc.Buffer(make([]byte, 1<<20), 1<<26)
		rows, skipped := 0, 0
		for sc.Scan() {
			var row Row
			if err := json.Unmarshal(sc.Bytes(), &row); err != nil {
				panic(err)
			}
			q := queryString(row.Orig.Query)
			o := exchange(h, row.Orig, q, row.Th, row.Edit)
			if !o.Built {
				skipped++
				continue
			}
			rows++
			cs := map[string]any{"orig": row.Orig, "query": q, "threshold": row.Th, "edit": row.Edit, "observed": o, "model_rejected": row.Rejected}
			if o.Panic != "" {
				violation("C14/panic/"+row.Edit, o.Panic, cs)
				continue
			}
			// late read: a de-tunnelled request is a value of its own -- its query and body must still be the caller's
			// after the NEXT tunnelled request has been de-tunnelled (a handler may read the body whenever it likes)
			if o.Tunnelled && row.Edit == "none" {
				func() {
					defer func() { recover() }()
					w, ok, err := build(row.Orig, q, row.Th)
					if !ok || err != nil {
						return
					}
					sreq := serverRequest(w)
					if restli.DecodeTunnelledQuery(sreq) != nil {
						return
					}
					ref, _, _ := build(row.Orig, q, 0)
					rreq := serverRequest(ref)
					restli.DecodeTunnelledQuery(rreq)
					if held != nil {
						if got := fieldsOf(held.req); got != held.want {
							violation("C14/not-transparent/late-read", "a de-tunnelled request read after the next one was de-tunnelled is no longer the request that was sent", map[string]any{"orig": held.orig, "got": got, "want": held.want})
						}
					}
					held = &heldReq{req: sreq, want: fieldsOf(rreq), orig: row.Orig}
				}()
			}
			if o.Tunnelled != row.Tunnelled {
				violation("C14/threshold", fmt.Sprintf("query of %d bytes, threshold %d: tunnelled=%v, specification %v", len(q), row.Th, o.Tunnelled, row.Tunnelled), cs)
				continue
			}
			if !row.Tunnelled && !o.Untouched {
				violation("C14/below-threshold-not-untouched", "a request whose query does not exceed the threshold differs from the plain request", cs)
			}
			if row.Edit == "none" || row.Edit == "stray_override" { // a stray override header on a non-POST request changes nothing
				if o.DecodeErr || !o.SameAsRef {
					violation("C14/not-transparent/request-fields", "the de-tunnelled request differs from the request that would have been sent untunnelled", cs)
				}
				if !o.E2ESame {
					violation("C14/not-transparent/end-to-end", "routing / resource code behaves differently with tunnelling on", cs)
				}
			} else {
				if o.Status != 400 || o.Invoked {
					violation("C14/damaged-not-rejected/"+row.Edit, fmt.Sprintf("a damaged tunnelled request (%s) was answered %d (resource invoked: %v), expected 400 without reaching resource code", row.Edit, o.Status, o.Invoked), cs)
				}
			}
		}
		outMu.Lock()
		b, _ := json.Marshal(map[string]any{"kind": "stats", "rows": rows, "skipped_unconstructible": skipped, "violation_counts": vcount})
		out.Write(b)
		out.WriteByte('\n')
		outMu.Unlock()
	case "record":
		rng := rand.New(rand.NewSource(*seed))
		tf, _ := os.Create(*trace)
		tw := bufio.NewWriter(tf)
		enc := json.NewEncoder(tw)
		toks := []string{"a", "&", "=", "%25", "%0D", "%0A", "-", "b", "(", ")", ",", ":", "'", "%20", "+", "q", "List(", "1"}
		edits := []string{"none", "none", "none", "none", "drop_query_part", "drop_body_part", "unknown_part_type", "empty_query_part", "override_with_url_query", "unknown_top_type",
			"reframe_as_multipart", "stray_override", "extra_unknown_part"}
		verbs := []string{"GET", "DELETE", "PUT", "POST"}
		bs := []string{"none", "J1", "J2"}
		// exchanges run on 8 goroutines against the ONE handler: de-tunnelling must not let concurrent requests see each
		// other's query or body (every exchange is still judged on its own)
		type job struct {
			orig AReq
			qs   string
			th   int
			edit string
		}
		jobs := make(chan job, 64)
		var wg sync.WaitGroup
		var encMu sync.Mutex
		for w := 0; w < 8; w++ {
			wg.Add(1)
			go func() {
				defer wg.Done()
				for j := range jobs {
					o := exchange(h, j.orig, j.qs, j.th, j.edit)
					if !o.Built {
						continue
					}
					edit := j.edit
					if !o.Tunnelled && edit != "stray_override" {
						edit = "none"
					}
					if edit == "stray_override" && (o.Tunnelled || j.orig.Verb == "POST") {
						edit = "none"
					}
					encMu.Lock()
					enc.Encode(map[string]any{"ev": "exchange", "verb": j.orig.Verb, "qlen": len(j.qs), "body": j.orig.Body, "th": j.th, "edit": edit,
						"tunnelled": o.Tunnelled, "untouched": o.Untouched, "transparent": !o.DecodeErr && o.SameAsRef && o.E2ESame,
						"rejected": o.Status == 400 && !o.Invoked, "panic": o.Panic != ""})
					encMu.Unlock()
				}
			}()
		}
		for i := 0; i < *n; i++ {
			var q []string
			for j := rng.Intn(40); j > 0; j-- {
				q = append(q, toks[rng.Intn(len(toks))])
			}
			qs := queryString(q)
			orig := AReq{Verb: verbs[rng.Intn(4)], Query: q, Body: bs[rng.Intn(3)]}
			orig.Ctype = map[bool]string{true: "none", false: "json"}[orig.Body == "none"]
			ths := []int{0, 1, len(qs) - 1, len(qs), len(qs) + 1, rng.Intn(60)}
			th := ths[rng.Intn(len(ths))]
			if th < 0 {
				th = 0
			}
			jobs <- job{orig, qs, th, edits[rng.Intn(len(edits))]}
		}
		close(jobs)
		wg.Wait()
		tw.Flush()
		tf.Close()
	}
}
