#!/usr/bin/env python3
"""Rewrite the seeded-change table of DESIGN.md (between the SEEDED-TABLE markers) from seeded/*/*/meta.json,
seeded/RESULTS.json and seeded/NOTES.json (what was strengthened after a miss)."""
import json, os, re
V = os.path.dirname(os.path.dirname(os.path.abspath(__file__)))
res = json.load(open(os.path.join(V, "seeded", "RESULTS.json")))
notes = json.load(open(os.path.join(V, "seeded", "NOTES.json"))) if os.path.exists(os.path.join(V, "seeded", "NOTES.json")) else {}
rows = ["| mutant | change (by the sub-agent) | quick | thorough | first violation key | strengthened |", "|---|---|---|---|---|---|"]
for prop in sorted(os.listdir(os.path.join(V, "seeded"))):
    d = os.path.join(V, "seeded", prop)
    if not os.path.isdir(d):
        continue
    for mut in sorted(os.listdir(d)):
        mf = os.path.join(d, mut, "meta.json")
        if not os.path.exists(mf):
            continue
        meta = json.load(open(mf))
        mid = "%s/%s" % (prop, mut)
        r = res.get(mid, {})
        def cell(t):
            if t not in r:
                return "-"
            if r[t]["exit"] == 0 and ("not a violation of" in notes.get(mid, "") or "outside C" in notes.get(mid, "") or "not a C04 violation" in notes.get(mid, "")):
                return "out of scope"
            return {1: "caught", 0: "MISSED"}.get(r[t]["exit"], "exit %s" % r[t]["exit"])
        key = ""
        for t in ("quick", "thorough"):
            if t in r and r[t].get("keys"):
                key = r[t]["keys"][0].split(":")[0]
                break
        summ = re.sub(r"\s+", " ", meta.get("summary", ""))[:230].replace("|", "/")
        rows.append("| %s | %s | %s | %s | `%s` | %s |" % (mid, summ, cell("quick"), cell("thorough"), key[:90], notes.get(mid, "")))
p = os.path.join(V, "DESIGN.md")
s = open(p).read()
a = s.index("<!-- SEEDED-TABLE-BEGIN -->") + len("<!-- SEEDED-TABLE-BEGIN -->")
b = s.index("<!-- SEEDED-TABLE-END -->")
n = sum(1 for k, v in res.items() if v.get("caught_quick"))
oos = sum(1 for r_ in rows if "| out of scope |" in r_)
head = "\n%d kept seeded changes; %d caught by the quick tier of their property's check%s.\n\n" % (
    len(rows) - 2, n, "" if not oos else "; %d do not violate their property as stated (see their note) and are not caught" % oos)
open(p, "w").write(s[:a] + head + "\n".join(rows) + "\n" + s[b:])
print(head.strip())
