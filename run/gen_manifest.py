#!/usr/bin/env python3
"""Writes /verif/MANIFEST.json from the table below (one entry per claimed property)."""
import json, os, subprocess
V = os.path.dirname(os.path.dirname(os.path.abspath(__file__)))

CLAIMED = {
 "C18": dict(
   technique="TLA+ spec LazyMap.tla model-checked by TLC over all programs/interleavings of the bound; TLC behaviours forced on the real map through verif yield gates; real histories trace-validated by TLC against an atomic compute-if-absent map",
   text="TLC checks compute-at-most-once, no placeholder visible, linearizability, deadlock freedom and termination under fairness on an implementation-shaped specification for every program of 2 goroutines x <=2 ops and 3 x 1 over 2 keys; the binding to the code is two-way: simulated TLC behaviours are forced step by step on the real LazySyncMap (gate reached compared with the model pc, outcomes compared), and every real execution (forced, exhaustively enumerated for all 2x1 programs, budgeted DFS for 3x1, random, free-running) is validated by TLC against the declarative atomic-map trace specification. Model checking is the right level: the property quantifies over schedules of a tiny state machine.",
   note="sync.Map and sync.WaitGroup are trusted; the controller sequentialises executions at the yield points, so interleavings inside one atomic step are not explored; bounds as in the cfg files",
   design="5/C18"),
 "C19": dict(
   technique="TLA+ spec D2.tla (explicit snapshot heap, fold of the event history, declarative Eligible vs operational chooseHost) model-checked by TLC; all histories of the bound exported by TLC and replayed on the real client with every earlier snapshot re-inspected; random real histories trace-validated by TLC",
   text="TLC checks on every history of the bound that the current snapshot is the fold of the history, that earlier snapshot objects never change, and that the operational host choice equals the declarative eligible set for every prioritized-scheme list. Every such history (plus simulated longer ones) is replayed through the real client's event loops; after each event the current snapshot and all snapshots captured earlier are compared with the model's objects and resolution is exercised with scripted random draws. Random histories with richer data are logged from the real client and validated by TLC against D2.tla (invariants evaluated on every observed state). Proportionality is a 6-sigma frequency test against the model's exact distribution.",
   note="events are injected below the ZooKeeper connection (TreeCache not exercised); integer weights; the measure-zero draw r=0 excluded; proportionality is statistical",
   design="5/C19"),
 "C05": dict(
   technique="TLA+ spec Router.tla: declarative Rest.li decision table vs operational transcription of ServeHTTP/receive, compared by TLC on every request of the bound against every tree; the whole table exported by TLC and replayed in-process on real servers (bare, ServeMux, prefix; plain and tunnelled); observed exchanges trace-validated by TLC",
   text="TLC checks that the operational model of the router agrees with the declarative routing/inference table on every (tree, path, verb, method header, q, ids, action) of the bound and that nothing the statement does not route is routed. Every row is then sent to real restli servers built from the model's trees with the generic Register* functions: status class, which handler ran with which keys, filter order and the routing facts filters see are compared with the admissible outcomes; registrations made after Handler()/AddToMux must stay invisible. A sample of observed exchanges is validated by TLC against the declarative layer.",
   note="trees and request alphabet as in MC_Router.tla; key/parameter decoding failures of a routed method admit 400; ServeMux mountings skip paths with empty segments; failing and context-adding filters are not modelled yet",
   design="5/C05"),
 "C20": dict(
   technique="TLA+ spec CleanDir.tla: operational recursion of CleanTargetDir vs set-based Expected, compared by TLC on every directory tree of the bound; every tree materialised on a real file system and cleaned by the real code; random wider/deeper trees with real file names trace-validated by TLC",
   text="TLC checks Clean = Expected, idempotence and that exactly the owned files disappear, for every tree of depth <= 3 with <= 2 entries per directory (and depth 2 with 4 entries in the thorough tier), for a target given as a path, as '.' and missing. Every such tree is created on a real file system, cleaned twice by the real CleanTargetDir, and listing and file bytes are compared with the model. Random trees with a pool of real file names (names that merely contain the generated suffix, upper-case manifest names, ...) are cleaned and the observed result validated by TLC against the specification.",
   note="already-empty directories are removed (the repository's own tests expect it); symlinks and permission errors are not modelled; regeneration is exercised under C12",
   design="5/C20"),
 "C14": dict(
   technique="TLA+ spec Tunnel.tla (client send / adversarial edit / server receive) model-checked by TLC; every exchange of the bound replayed through the real request constructors, real multipart bytes, DecodeTunnelledQuery and the real server; random long exchanges trace-validated by TLC",
   text="TLC checks on the tunnelling state machine that a query not longer than the threshold is sent untouched, that tunnelling happens exactly above the threshold, that the de-tunnelled request equals the original field by field, and that each listed damage of a tunnelled request is rejected. Each (verb, query, body, threshold, damage) is replayed: the request is built by NewGetRequest/NewDeleteRequest/NewJsonRequest, damaged at byte level, decoded by DecodeTunnelledQuery and compared field by field with the untunnelled reference request, then sent through a real server whose resource records what it saw. Random exchanges with long queries are logged and validated by TLC.",
   note="multipart framing itself is the standard library's; Content-Length and Go-internal request fields are not compared; POST/PUT without a body cannot be built through the public constructors and are skipped",
   design="5/C14"),
 "C15": dict(
   technique="TLA+ spec Url.tla (declarative expected path vs operational construction, with the pre-repair algorithm kept as OperLegacy and refuted by TLC) model-checked by TLC; every case replayed through NewGetRequest/NewJsonRequest; random contexts and keys encoded by the real escapers trace-validated by TLC",
   text="TLC compares the operational URL construction with the declarative one (context minus a trailing root segment, then the resource path, no normalisation) for every context of 0-3 segments over {root, root-with-suffix, prefix-of-root, suffix-is-root, other} and every resource path with dot-segment, empty, escaped and root-named keys. Every case is replayed on the real client and URL.String(), EscapedPath() and RawQuery compared byte for byte. Random cases with keys of arbitrary bytes encoded by the real ROR2 path/query escapers are validated by TLC against ExpectedPath.",
   note="contexts holding the root name as a complete non-final segment are unspecified and skipped; only SimpleHostnameResolver bases; what net/http does to the URL afterwards is out of scope",
   design="5/C15"),
 "C08": dict(
   technique="TLA+ spec Server.tla (Invoke / Wrap / Respond / ClientDecode pipeline with the held error object as state) model-checked by TLC; every (adapter, outcome) replayed over real connections with the real generic client functions; recorded exchanges trace-validated by TLC against the same actions",
   text="TLC checks, for every adapter kind and every outcome of resource code (value, overridden status, nil entity, error response with each subset of fields, other error, panic), that status, error header and the client's result are the prescribed ones and that the error object held by the resource is never modified. Each case is run through a real httptest server (an escaped panic shows as a broken connection) and the real client; the held object is compared before/after; per-key batch errors are checked under their key. Each recorded exchange is replayed by TLC on the specification's own actions.",
   note="harness-defined entity/path types with the generic Register*/client functions (not generated bindings); the root module's ErrorResponse has fewer fields, rows using the others are skipped there",
   design="5/C08"),
 "C01": dict(
   technique="TLA+ specs Values.tla / Wire.tla (abstract values of the VT schema family, reference JSON tree, reference ROR2 encoder and parser, Canon) checked by TLC (reference round trip, canonicalisation idempotent, delimiters structural); every enumerated value exported by TLC and replayed on bindings generated by /repo's current v2 generator: built by reflection, encoded and decoded in 5 flavours, compared with the specification's canonical value and the type's Equals",
   text="TLC enumerates, for every VT schema, the base value and every single-position variation (each text of a 36-text pool covering every ROR2/JSON/URL metacharacter, control, non-ASCII and byte >= 0x80 in each string / bytes / fixed / map-key position; each numeric atom incl. extremes, signed zero, NaN, infinities, both sides of 1e21 and 1e-7; optional absent; containers empty/one/two; each union member; includes; defaults), checks the reference codec on itself and exports each value with its canonical form. The harness regenerates the bindings from the working tree, builds each value by reflection (never through the library's decoders), encodes with the real compact/pretty JSON, ROR2 header, path and query writers, decodes with the matching reader and compares field by field (bit-exact numbers) with Canon(v).",
   note="the VT family stands for 'all schemas'; digits of numbers are compared by strconv in the harness, not modelled; the null member of nullable unions is left out (its wire form is not fixed by the statement); generated bindings come from the v2 generator only (the root generator has an older manifest format); open known findings: bytes >= 0x80 in JSON, defaults inherited through includes",
   design="5/C01"),
 "C03": dict(
   technique="same TLA+ reference (Wire.tla) as independent oracle: emit direction compares the library's JSON (parsed by encoding/json) with the specification's tree and its ROR2 output (lexed, legality of literals from the specification's Reserved sets, parsed by a reference parser that mirrors ParseRor2) with the tree; accept direction feeds reference-encoded documents (key orders, whitespace, unknown fields, alternative escapes) to every real reader",
   text="For every value TLC enumerates, the library's output in each flavour must be well-formed and denote exactly the value under the reference grammar (keys, bytes as one code point per byte, enum symbols, the three reserved float strings, '' for the empty string, reserved characters percent-encoded per context as RFC 3986 requires). Conversely 6 JSON variants, 2 escape variants for each of the 3 ROR2 flavours and the untyped reader are fed documents produced independently of the library and must yield Canon(v). TLC checks that the reference encoder and parser are mutually inverse on every value.",
   note="the written protocol and RFC 3986 stand in for a Java peer; envelopes and headers are checked with C02; same value universe and exclusions as C01",
   design="5/C03"),
 "C09": dict(
   technique="TLA+ spec Writer.tla (entries supplied in any order, buffered, emitted sorted) model-checked by TLC over every subset and supply order of the key pool; every supply order replayed through the real WriteMap of each writer flavour, BuildQueryParams and the batch key set; every VT value re-encoded repeatedly and across fresh processes",
   text="TLC checks that the emitted key sequence is a function of the key set only and ascends bytewise (upper before lower case, prefixes first, non-ASCII last) for every supply order of 1..4 keys. Each supply order is replayed by calling the real writers' WriteMap / BuildQueryParams / AddKey in exactly that order; the emitted order must be the specification's and the bytes identical across supply orders. Every VT value (from Values.tla) is encoded three times from freshly built maps in five flavours, object keys must ascend at every level, and a digest over all outputs must be identical in several fresh processes (different map hash seeds).",
   note="v2 only (as stated); ids are compared in decoded form and, for keys with non-ASCII bytes, only for permutation invariance; signed zeros are not compared",
   design="5/C09"),
 "C10": dict(
   technique="TLA+ normal form Norm (Values.tla: fields and map entries as sets, -0 identified with 0) as the oracle of abstract equality, exported by TLC for every enumerated value; real Equals / ComputeHash / ComplexKeyEquals evaluated on all pairs of a pool of four representations per value and compared with Norm equality",
   text="TLC exports Norm(v) for every value of every VT schema and checks that it is stable under canonicalisation. The harness builds, per value, four representations (built, rebuilt independently, nil instead of empty collections, round-tripped) and evaluates the generated Equals on all pairs (sampled beyond 400000 pairs per schema): Equals must coincide with equality of the specification's normal forms (hence reflexive, symmetric, transitive, insensitive to map order and nil-vs-empty, sensitive to every single-position mutation), must be symmetric, equal values must hash equally, complex keys must compare and hash on their key part only.",
   note="pairs involving NaN only must not be equal when Norm differs; values carrying a raw record are skipped (RawRecord.Equals is never true by design); process independence of hashes is not re-checked here",
   design="5/C10"),
 "C13": dict(
   technique="TLA+ Canon / DefaultInstance / OmitSubsets (Values.tla) checked by TLC (a present value wins, an omitted one gets exactly the default; the default instance agrees with decoding); every (record, subset of defaulted fields omitted) document and every default instance exported and replayed on generated bindings through 5 readers and the generated constructors, with in-place mutation to detect sharing",
   text="TLC enumerates every record of the VT family that carries defaulted fields (every primitive, enum, fixed, typeref, record, union, empty and non-empty array and map literal; declared directly, in a nested required record, and inherited through one and two levels of include) and every subset of those fields omitted, and checks the declarative statement on Canon. Each document is decoded by the JSON, header, path, query and untyped readers and compared with Canon(doc); each New<X>WithDefaultValues is compared with DefaultInstance; one instance's default-populated arrays, maps and byte strings are overwritten in place and a second and a later instance re-compared.",
   note="open known finding: defaults inherited through an included record are neither decoded nor constructed (IncMid, IncTop)",
   design="5/C13"),
 "C11": dict(
   technique="TLA+ spec Patch.tla (partial updates as per-field operation sets, Legal, the patch/$set/$delete tree; union / enum / fixed validity) checked by TLC (a legal patch is recoverable from its wire shape); every case exported and replayed on generated bindings: encode must fail iff the specification says illegal, the equivalent document must be rejected iff illegal, legal ones round-trip in the prescribed shape",
   text="TLC enumerates every combination of {delete, set, nested patch} per field of Ent and Leaf partial updates (nested to depth 1) under 5 exclusion sets, every subset of members of every union, every enum ordinal from -1 to n+1 and every fixed length from 0 to size+1, with the legality the property prescribes. The harness builds each partial-update struct / union / enum by reflection, encodes it with the real writer configured with the exclusion spec and decodes the reference document with the real reader (leading scope 1): errors must occur exactly for the illegal cases, legal partial updates must produce the protocol tree (the $delete list compared as a set) and decode back to the same operations; unknown enum symbols must decode to the unknown value.",
   note="setting a whole record field one of whose sub-fields is excluded is unspecified and skipped; deleting a required field is only expressible as a document",
   design="5/C11"),
 "C06": dict(
   technique="TLA+ spec Reader.tla: declarative Missing(schema, document) vs an operational traversal with explicit scope stack, remaining-required sets and missing list (one step per enter/exit), compared by TLC on every document; every document exported and read by all real readers, error type / field set / partial value compared",
   text="TLC enumerates, for base values of Nest, IncTop, Prims, Leaf, DefContainers, CK and DefOuter, every document obtained by removing any subset of record fields at any depth (inside a two-element array, a two-entry map, a union member, optional and required nested records, behind one and two includes), and checks that the operational accounting reports exactly the declarative set with a balanced scope stack. Each document is rendered independently of the library in five JSON variants (key orders, whitespace, unknown primitive/object/array fields first and last), as plain Go data for the untyped reader and as ROR2 in three flavours; the real reader must return a MissingRequiredFieldsError listing exactly the specified paths (none when complete) and a value carrying every field that was present.",
   note="paths use the JSON reader's format; query-reader paths are compared without the parameter name; defaults are not demanded in partially filled values; the lenient client is exercised under C02",
   design="5/C06"),
 "C07": dict(
   technique="TLA+ spec PathSpec.tla: declarative exclusion (a directive matches a prefix of the scope, * for array items and map keys) vs the operational trie walk, compared by TLC on every (directive set, scope) of the bound; Strip / Carries / MissingUnderExclusion define what encoders emit and decoders reject; all cases exported and replayed on the real NewPathSpec, writers and readers",
   text="TLC checks that the trie walk decides exactly the declarative predicate for every set of <= 2 directives of depth <= 3 over {f, g, *} and every scope of depth <= 4 (the construction as it was is kept as OperMatchesRaw and refuted by TLC: prefix directives). Every pair is replayed on NewPathSpec(...).Matches. For documents of Ent and Nest (every subset of fields removed) under 19 exclusion specs, the real compact / pretty JSON and ROR2 writers configured with the spec must emit exactly Strip(value), and the JSON, ROR2 and untyped readers configured with it must raise ExcludedFieldError iff the document carries an excluded value, otherwise report exactly the non-excluded missing required fields; the same holds with the document wrapped 1 and 2 levels deep and the matching leading-scope offset.",
   note="no meaning is assigned to Matches on scopes containing $set / $delete; the wire-level clauses through generated client and server are exercised with C02's harness",
   design="5/C07"),
 "C04": dict(
   technique="TLA+ spec Ror2Lex.tla: implementation-shaped model of the cursor-based ROR2 reader with the invariant InBounds (no access with pos >= len), checked by TLC on every token string of the bound (the reader as it was, Guards = FALSE, is refuted by TLC with the inputs that crashed it); accept/reject verdicts exported and compared with the real reader; exhaustive bounded strings, single-edit mutations of valid encodings and hostile HTTP exchanges executed against every entry point under recover and a watchdog",
   text="TLC checks on all strings of <= 5 (quick) / <= 7 (thorough) tokens over { ( ) , : ' a List( } that the modelled parser never indexes outside its input and ends inside it. Every such string, all strings over the query and JSON alphabets, 31 untyped Go values and every truncation / single-character delete / replace / insert of the valid encodings of the VT values are fed to 17 reader entry points, ParseQueryParams, the generated unmarshalers, the raw-record decoder and the untyped reader of both module generations: each call must return. Hostile bytes are injected at every peer-controlled position of an HTTP exchange: the server must answer without 5xx, recovered panic or stack trace and run resource code only for 2xx, the client call must return.",
   note="a verdict is only ever a panic, a hang or a 5xx observed on the real code; acceptance of ill-formed strings is recorded (model conformance) but not judged; no coverage-guided fuzzing",
   design="5/C04"),
 "C02": dict(
   technique="TLA+ spec Call.tla composing the generated client's request construction with Router.tla's declarative routing table on the VT resource tree (TLC: every method's wire request is routed back to exactly that method with the caller's keys; no unspecified cell is relied on); every (method, argument content, client configuration, mounting) exported and replayed through the generated client, a recording transport, a real restli.Server and generated MockResources built by reflection",
   text="TLC checks for all 41 methods of the 8 VT resources that ClientWire(method) is routed by the protocol table to that method and exports each with 6 argument contents x 3 tunnelling thresholds x strict/lenient x with/without context path x 3 mountings (8856 calls). The harness regenerates the bindings, invokes the generated client by reflection with arguments generated by type, routes the request in-process into a real server on which the generated RegisterResource registered a generated MockResource whose function fields record what they receive and return scripted results; it compares the method that ran, every argument (keys, params, paging, body) and every result (entity, elements with paging and metadata, action result, created id and status, per-key batch results and errors) field by field, and the wire (verb, method header, path shape, default status, error header, tunnelling) with the specification's row.",
   note="arguments are generated by type, not enumerated by the model; read-only / create-only fields are left unset here (C07 covers them); ServeMux mountings skip keys that are empty or contain '/'; in-memory transport; v2 generator",
   design="5/C02"),
 "C16": dict(
   technique="TLA+ spec Batch.tla (AddKey with hash buckets and key-part equality, Send, adversarial Reply, Decode through the key locator) model-checked by TLC; every terminal behaviour exported and replayed on the real key set (with a key type colliding as the model's HashOf), the generated complex-key client and the generated string-key client with a transport that returns the model's reply",
   text="TLC checks that duplicates under key equality (params ignored) are rejected before anything is sent, that each id is sent once, that every reply entry is filed under the caller's own key of the same key part with none lost or duplicated, and that a reply naming an unrequested key fails, for every list of <= 2 keys over 3 key parts (two colliding) x params and every adversarial reply of the bound. Each behaviour is replayed: AddKey / LocateOriginalKey on a colliding key type (pointer identity), BatchGet on the generated collCK client and BatchDelete on the generated collStr client with the reply re-encoded with other params and alternative escapes; result maps must be keyed by the caller's own key values (pointer identity for complex keys).",
   note="replies holding one key twice in a map are not conforming and not generated; quick tier samples 30000 of the 115000 behaviours by seed",
   design="5/C16"),
 "C17": dict(
   technique="the sequential TLA+ specifications (Router.tla, D2.tla's Eligible, Server.tla's error propagation, LazyMap's atomic-map trace spec) are the reference for every request of a concurrent run: N goroutines drive one handler / client / resolver / registry / map, each observed outcome is compared with the outcome the specification assigns to that request alone (sampled exchanges are trace-validated by TLC), and the same executions run under the Go race detector",
   text="Model requests exported by TLC from Router.tla are sent by 16 goroutines to one shared handler per mounting and every outcome compared with the admissible set; a sample is validated by TLC against the declarative layer. 8-16 goroutines resolve through one D2 resolver while announcements change (results must be eligible in some state of the history), hit one handler that returns one shared error object and per-request headers / statuses (each request must see its own keys, parameters, headers, status; the shared object must stay unmodified), use one client (each call must get its own response) and the custom-typeref registry. All harness binaries are -race builds; any race report on code under /repo is a violation.",
   note="data-race freedom itself is decided by the race detector, not by the specification (the isolation clause is); schedules are those the Go scheduler produces for the GOMAXPROCS values tried",
   design="5/C17"),
}

NOT_YET = {}

def main():
    props = [json.loads(l) for l in open(os.path.join(V, "properties.jsonl"))]
    hooks = subprocess.run(["git", "-C", "/repo", "log", "--format=%H %s", "428ccd8..HEAD"], capture_output=True, text=True).stdout.splitlines()
    hook_commits = [h.split()[0] for h in hooks if "verif hook" in h]
    checks, na = [], []
    for p in props:
        pid = p["id"]
        if pid in CLAIMED:
            c = CLAIMED[pid]
            checks.append(dict(
                property_id=pid,
                quick_cmd="python3 run/check.py %s --tier quick" % pid,
                thorough_cmd="python3 run/check.py %s --tier thorough" % pid,
                evidence_file="evidence/%s.json" % pid,
                replay_cmd_template="python3 run/check.py %s --replay {path}" % pid,
                engine="tlc+go-harness",
                level_claimed=dict(category=c.get("category", "model_checking"), text=c["text"], design_ref="DESIGN.md section " + c["design"]),
                level_note=c["note"],
                technique=c["technique"]))
        else:
            na.append(dict(property_id=pid, reason=NOT_YET.get(pid, "no check built yet for this property (specification and binding still to be written); not claimed")))
    m = dict(
        version=1,
        setup_cmd="python3 run/setup.py",
        hooks=dict(guard="verif", enable="go build -tags verif (the harness builds /repo's packages with the tag from the working tree)",
                   baseline_off_cmd="for m in . v2; do (cd /repo/$m && go test -mod=mod -json -vet=off -count=1 -timeout 25m ./...); done",
                   source_commits=hook_commits, add_only=True),
        engines=[dict(name="tlc+go-harness", path="run/check.py", serves_properties=sorted(CLAIMED),
                      kind_free_text="explicit TLA+ specifications (spec/) checked by TLC; Go harnesses (harness/) rebuilt from /repo's working tree replay TLC-generated tables/behaviours into the real code and record traces that TLC validates against trace specifications (spec/trace)")],
        checks=checks,
        not_applicable=na,
        notes="see DESIGN.md; known findings in known_findings.json")
    json.dump(m, open(os.path.join(V, "MANIFEST.json"), "w"), indent=1)

if __name__ == "__main__":
    main()
