#!/usr/bin/env python3
"""Writes /verif/MANIFEST.json from the table below (one entry per claimed property)."""
import json, os, subprocess
V = os.path.dirname(os.path.dirname(os.path.abspath(__file__)))

CLAIMED = {
 "C18": dict(
   technique="TLA+ spec LazyMap.tla model-checked by TLC over all programs/interleavings of the bound; TLC behaviours forced on the real map through verif yield gates; real histories trace-validated by TLC against an atomic compute-if-absent map",
   text="TLC checks compute-at-most-once, no placeholder visible, linearizability, deadlock freedom and termination under fairness on an implementation-shaped specification for every program of 2 goroutines x <=2 ops and 3 x 1 over 2 keys; the binding to the code is two-way: simulated TLC behaviours are forced step by step on the real LazySyncMap (gate reached compared with the model pc, outcomes compared), and every real execution (forced, exhaustively enumerated for all 2x1 programs, budgeted DFS for 3x1, random, free-running) is validated by TLC against the declarative atomic-map trace specification. Model checking is the right level: the property quantifies over schedules of a tiny state machine.",
   note="sync.Map and sync.WaitGroup are trusted; the controller sequentialises executions at the yield points, so interleavings inside one atomic step are not explored; bounds as in the cfg files",
   design="5/C18"),
 "C19": dict(
   technique="TLA+ spec D2.tla (explicit snapshot heap, fold of the event history, declarative Eligible vs operational chooseHost) model-checked by TLC; all histories of the bound exported by TLC and replayed on the real client with every earlier snapshot re-inspected; random real histories trace-validated by TLC",
   text="TLC checks on every history of the bound that the current snapshot is the fold of the history, that earlier snapshot objects never change, and that the operational host choice equals the declarative eligible set for every prioritized-scheme list. Every such history (plus simulated longer ones) is replayed through the real client's event loops; after each event the current snapshot and all snapshots captured earlier are compared with the model's objects and resolution is exercised with scripted random draws. Random histories with richer data are logged from the real client and validated by TLC against D2.tla (invariants evaluated on every observed state). Proportionality is a 6-sigma frequency test against the model's exact distribution.",
   note="events are injected below the ZooKeeper connection (TreeCache not exercised); integer weights; the measure-zero draw r=0 excluded; proportionality is statistical",
   design="5/C19"),
 "C05": dict(
   technique="TLA+ spec Router.tla: declarative Rest.li decision table vs operational transcription of ServeHTTP/receive, compared by TLC on every request of the bound against every tree; the whole table exported by TLC and replayed in-process on real servers (bare, ServeMux, prefix; plain and tunnelled); observed exchanges trace-validated by TLC",
   text="TLC checks that the operational model of the router agrees with the declarative routing/inference table on every (tree, path, verb, method header, q, ids, action) of the bound and that nothing the statement does not route is routed. Every row is then sent to real restli servers built from the model's trees with the generic Register* functions: status class, which handler ran with which keys, filter order and the routing facts filters see are compared with the admissible outcomes; registrations made after Handler()/AddToMux must stay invisible. A sample of observed exchanges is validated by TLC against the declarative layer.",
   note="trees and request alphabet as in MC_Router.tla; key/parameter decoding failures of a routed method admit 400; ServeMux mountings skip paths with empty segments; failing and context-adding filters are not modelled yet",
   design="5/C05"),
 "C20": dict(
   technique="TLA+ spec CleanDir.tla: operational recursion of CleanTargetDir vs set-based Expected, compared by TLC on every directory tree of the bound; every tree materialised on a real file system and cleaned by the real code; random wider/deeper trees with real file names trace-validated by TLC",
   text="TLC checks Clean = Expected, idempotence and that exactly the owned files disappear, for every tree of depth <= 3 with <= 2 entries per directory (and depth 2 with 4 entries in the thorough tier), for a target given as a path, as '.' and missing. Every such tree is created on a real file system, cleaned twice by the real CleanTargetDir, and listing and file bytes are compared with the model. Random trees with a pool of real file names (names that merely contain the generated suffix, upper-case manifest names, ...) are cleaned and the observed result validated by TLC against the specification.",
   note="already-empty directories are removed (the repository's own tests expect it); symlinks and permission errors are not modelled; regeneration is exercised under C12",
   design="5/C20"),
}

NOT_YET = {}

def main():
    props = [json.loads(l) for l in open(os.path.join(V, "properties.jsonl"))]
    hooks = subprocess.run(["git", "-C", "/repo", "log", "--format=%H %s", "428ccd8..HEAD"], capture_output=True, text=True).stdout.splitlines()
    hook_commits = [h.split()[0] for h in hooks if "verif hook" in h]
    checks, na = [], []
    for p in props:
        pid = p["id"]
        if pid in CLAIMED:
            c = CLAIMED[pid]
            checks.append(dict(
                property_id=pid,
                quick_cmd="python3 run/check.py %s --tier quick" % pid,
                thorough_cmd="python3 run/check.py %s --tier thorough" % pid,
                evidence_file="evidence/%s.json" % pid,
                replay_cmd_template="python3 run/check.py %s --replay {path}" % pid,
                engine="tlc+go-harness",
                level_claimed=dict(category=c.get("category", "model_checking"), text=c["text"], design_ref="DESIGN.md section " + c["design"]),
                level_note=c["note"],
                technique=c["technique"]))
        else:
            na.append(dict(property_id=pid, reason=NOT_YET.get(pid, "no check built yet for this property (specification and binding still to be written); not claimed")))
    m = dict(
        version=1,
        setup_cmd="python3 run/setup.py",
        hooks=dict(guard="verif", enable="go build -tags verif (the harness builds /repo's packages with the tag from the working tree)",
                   baseline_off_cmd="for m in . v2; do (cd /repo/$m && go test -mod=mod -json -vet=off -count=1 -timeout 25m ./...); done",
                   source_commits=hook_commits, add_only=True),
        engines=[dict(name="tlc+go-harness", path="run/check.py", serves_properties=sorted(CLAIMED),
                      kind_free_text="explicit TLA+ specifications (spec/) checked by TLC; Go harnesses (harness/) rebuilt from /repo's working tree replay TLC-generated tables/behaviours into the real code and record traces that TLC validates against trace specifications (spec/trace)")],
        checks=checks,
        not_applicable=na,
        notes="see DESIGN.md; known findings in known_findings.json")
    json.dump(m, open(os.path.join(V, "MANIFEST.json"), "w"), indent=1)

if __name__ == "__main__":
    main()
