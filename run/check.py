#!/usr/bin/env python3
"""Entry point of every check registered in MANIFEST.json:  check.py Cxx --tier quick|thorough [--replay file]"""
import argparse, importlib, os, sys, time, traceback
sys.path.insert(0, os.path.dirname(os.path.abspath(__file__)))
import lib


def main():
    ap = argparse.ArgumentParser()
    ap.add_argument("prop")
    ap.add_argument("--tier", default=os.environ.get("VERIF_TIER", "quick"), choices=["quick", "thorough"])
    ap.add_argument("--replay", default=None)
    a = ap.parse_args()
    seed = int(os.environ.get("VERIF_SEED", "1") or 1)
    mod = importlib.import_module("props." + a.prop.lower())
    if a.replay:
        # A replay file names the violation (key) and the tier / seed of the run that found it.  C18 re-executes the
        # recorded program and schedule itself; for the other properties the case is one row of a deterministic
        # enumeration, so the replay re-runs that enumeration and reports only this key.
        import json
        rf = json.load(open(a.replay))
        a.tier = rf.get("tier", a.tier)
        seed = int(rf.get("seed", seed))
        if a.prop != "C18":
            lib.REPLAY_KEY = rf["key"]
    lib.RUN_INFO.update(tier=a.tier, seed=seed)
    t0 = time.time()
    try:
        code = mod.run(a.tier, seed, a.replay)
    except lib.GeneratedCodeBroken as e:
        # the generator of the working tree emitted bindings that do not compile: nothing this property promises about
        # generated code can hold
        v = lib.Verdict(a.prop)
        for f in e.files[:5]:
            v.add("%s/generated-bindings-do-not-compile/%s" % (a.prop, f), str(e)[:1500], dict(file=f))
        code, _ = v.finish()
        sys.exit(code)
    except lib.Broken as e:
        print("CHECK-BROKEN property=%s: %s" % (a.prop, e), file=sys.stderr)
        sys.exit(2)
    except Exception:
        traceback.print_exc()
        print("CHECK-BROKEN property=%s: internal error" % a.prop, file=sys.stderr)
        sys.exit(2)
    lib.log("%s %s: exit %d in %.1fs" % (a.prop, a.tier, code, time.time() - t0))
    sys.exit(code)


if __name__ == "__main__":
    main()
