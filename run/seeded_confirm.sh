#!/bin/bash
# confirm.sh Cxx
P=$1; WT=/tmp/wt-$P; O=/tmp/out-$P/m1
export GOFLAGS=-mod=mod GOPROXY=off GOSUMDB=off GOTOOLCHAIN=local
cd $WT && git checkout -q -- . && git apply $O/patch.diff || { echo "$P APPLY-FAILED"; exit; }
mods=""
grep -q '^+++ b/v2/' $O/patch.diff && mods="$mods v2"
grep '^+++ b/' $O/patch.diff | grep -qv '^+++ b/v2/' && mods="$mods ."
t=ok
for m in $mods; do
  (cd $WT/$m && go build ./... && go test -vet=off -count=1 $(go list ./... | grep -v internal/tests) 2>&1 | grep -v '^ok\|no test files' ) > /tmp/out-$P/tests-$(echo $m|tr . r).log 2>&1
  [ -s /tmp/out-$P/tests-$(echo $m|tr . r).log ] && t=FAIL
done
sh $O/demo/run.sh $WT > /tmp/out-$P/demo-mut.log 2>&1; dm=$?
git -C $WT checkout -q -- .
sh $O/demo/run.sh $WT > /tmp/out-$P/demo-clean.log 2>&1; dc=$?
git -C $WT status --short | grep -v '^??' ; git -C $WT clean -fdq
echo "$P mods=[$mods] tests=$t demo_mut_exit=$dm demo_clean_exit=$dc"
