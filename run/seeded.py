#!/usr/bin/env python3
"""Apply each kept seeded change (seeded/<prop>/<mutant>/patch.diff) to /repo's working tree, run the property's check,
undo the change, and record which checks caught it.

  python3 run/seeded.py [--tier quick|thorough] [--only C07[/m1]] [--all-props]

The working tree of /repo must be clean before and is restored after each mutant (git checkout -- .).  Nothing is ever
committed to /repo.  Results: seeded/RESULTS.json (+ table on stdout).  --all-props additionally runs every OTHER
property's quick check on the mutated tree (slow) to see collateral detections.
"""
import argparse, json, os, subprocess, sys, time

V = os.path.dirname(os.path.dirname(os.path.abspath(__file__)))
REPO = "/repo"


def sh(cmd, **kw):
    return subprocess.run(cmd, stdout=subprocess.PIPE, stderr=subprocess.STDOUT, text=True, **kw)


def clean():
    return sh(["git", "-C", REPO, "status", "--porcelain"]).stdout.strip() == ""


def run_check(prop, tier, repo=REPO):
    t0 = time.time()
    p = sh([sys.executable, os.path.join(V, "run", "check.py"), prop, "--tier", tier], cwd=V, env=dict(os.environ, VERIF_REPO=repo, VERIF_NO_EVIDENCE="1"))
    keys = [l.strip()[4:] for l in p.stdout.splitlines() if l.strip().startswith("key=")]
    viol = sum(1 for l in p.stdout.splitlines() if l.startswith("VIOLATION"))
    return dict(exit=p.returncode, violations=viol, keys=[k[:200] for k in keys[:6]], wall_s=round(time.time() - t0, 1),
                tail=p.stdout[-600:] if p.returncode not in (0, 1) else "")


def main():
    ap = argparse.ArgumentParser()
    ap.add_argument("--tier", default="quick")
    ap.add_argument("--only", default="")
    ap.add_argument("--all-props", action="store_true")
    ap.add_argument("--in-place", action="store_true", help="apply to /repo itself (git apply / git checkout -- .) instead of a scratch copy")
    ap.add_argument("--redo", action="store_true", help="re-run mutants that already have a result for this tier")
    a = ap.parse_args()
    if a.in_place and not clean():
        print("refusing: /repo working tree is not clean")
        return 2
    sd = os.path.join(V, "seeded")
    resf = os.path.join(sd, "RESULTS.json")
    results = json.load(open(resf)) if os.path.exists(resf) else {}
    props = sorted(d for d in os.listdir(sd) if os.path.isdir(os.path.join(sd, d)))
    manifest = json.load(open(os.path.join(V, "MANIFEST.json")))
    claimed = [c["property_id"] for c in manifest["checks"]]
    for prop in props:
        for mut in sorted(os.listdir(os.path.join(sd, prop))):
            mid = "%s/%s" % (prop, mut)
            patch = os.path.join(sd, prop, mut, "patch.diff")
            if not os.path.exists(patch) or (a.only and not (mid == a.only or mid.startswith(a.only.rstrip("/") + "/"))):
                continue
            if not a.redo and a.tier in results.get(mid, {}):
                continue
            if a.in_place:
                repo = REPO
            else:
                import shutil, tempfile
                repo = tempfile.mkdtemp(prefix="seedrepo-", dir="/dev/shm")
                shutil.rmtree(repo)
                sh(["cp", "-a", REPO, repo])
                sh(["git", "-C", repo, "checkout", "--", "."])
            ap_ = sh(["git", "-C", repo, "apply", patch])
            if ap_.returncode != 0:
                if not a.in_place:
                    sh(["rm", "-rf", repo])
                results[mid] = dict(error="patch does not apply: " + ap_.stdout[-300:])
                print(mid, "PATCH DOES NOT APPLY")
                continue
            try:
                r = results.setdefault(mid, {})
                r[a.tier] = run_check(prop, a.tier, repo)
                r["caught_" + a.tier] = r[a.tier]["exit"] == 1
                if a.all_props:
                    other = {}
                    for q in claimed:
                        if q != prop:
                            o = run_check(q, "quick", repo)
                            if o["exit"] != 0:
                                other[q] = o
                    r["other_props_quick"] = other
            finally:
                if a.in_place:
                    sh(["git", "-C", REPO, "checkout", "--", "."])
                else:
                    sh(["chmod", "-R", "u+w", repo])
                    sh(["rm", "-rf", repo])
            print("%-10s %-8s exit=%d violations=%d %5.0fs %s" % (mid, a.tier, r[a.tier]["exit"], r[a.tier]["violations"], r[a.tier]["wall_s"],
                                                               (r[a.tier]["keys"] or [r[a.tier]["tail"][-200:]])[0][:150]))
            sys.stdout.flush()
            # several seeded.py processes may run side by side (--only): merge under a lock
            import fcntl
            with open(resf + ".lock", "w") as lk:
                fcntl.flock(lk, fcntl.LOCK_EX)
                cur = json.load(open(resf)) if os.path.exists(resf) else {}
                cur[mid] = results[mid]
                json.dump(cur, open(resf, "w"), indent=1, sort_keys=True)
    return 0


if __name__ == "__main__":
    sys.exit(main())
