#!/usr/bin/env python3
"""Apply each kept seeded change (seeded/<prop>/<mutant>/patch.diff) to /repo's working tree, run the property's check,
undo the change, and record which checks caught it.

  python3 run/seeded.py [--tier quick|thorough] [--only C07[/m1]] [--all-props]

The working tree of /repo must be clean before and is restored after each mutant (git checkout -- .).  Nothing is ever
committed to /repo.  Results: seeded/RESULTS.json (+ table on stdout).  --all-props additionally runs every OTHER
property's quick check on the mutated tree (slow) to see collateral detections.
"""
import argparse, json, os, subprocess, sys, time

V = os.path.dirname(os.path.dirname(os.path.abspath(__file__)))
REPO = "/repo"


def sh(cmd, **kw):
    return subprocess.run(cmd, stdout=subprocess.PIPE, stderr=subprocess.STDOUT, text=True, **kw)


def clean():
    return sh(["git", "-C", REPO, "status", "--porcelain"]).stdout.strip() == ""


def run_check(prop, tier):
    t0 = time.time()
    p = sh([sys.executable, os.path.join(V, "run", "check.py"), prop, "--tier", tier], cwd=V)
    keys = [l.strip()[4:] for l in p.stdout.splitlines() if l.strip().startswith("key=")]
    viol = sum(1 for l in p.stdout.splitlines() if l.startswith("VIOLATION"))
    return dict(exit=p.returncode, violations=viol, keys=[k[:200] for k in keys[:6]], wall_s=round(time.time() - t0, 1),
                tail=p.stdout[-600:] if p.returncode not in (0, 1) else "")


def main():
    ap = argparse.ArgumentParser()
    ap.add_argument("--tier", default="quick")
    ap.add_argument("--only", default="")
    ap.add_argument("--all-props", action="store_true")
    a = ap.parse_args()
    if not clean():
        print("refusing: /repo working tree is not clean")
        return 2
    sd = os.path.join(V, "seeded")
    resf = os.path.join(sd, "RESULTS.json")
    results = json.load(open(resf)) if os.path.exists(resf) else {}
    props = sorted(d for d in os.listdir(sd) if os.path.isdir(os.path.join(sd, d)))
    manifest = json.load(open(os.path.join(V, "MANIFEST.json")))
    claimed = [c["property_id"] for c in manifest["checks"]]
    for prop in props:
        for mut in sorted(os.listdir(os.path.join(sd, prop))):
            mid = "%s/%s" % (prop, mut)
            patch = os.path.join(sd, prop, mut, "patch.diff")
            if not os.path.exists(patch) or (a.only and not mid.startswith(a.only)):
                continue
            ap_ = sh(["git", "-C", REPO, "apply", patch])
            if ap_.returncode != 0:
                results[mid] = dict(error="patch does not apply: " + ap_.stdout[-300:])
                print(mid, "PATCH DOES NOT APPLY")
                continue
            try:
                r = results.setdefault(mid, {})
                r[a.tier] = run_check(prop, a.tier)
                r["caught_" + a.tier] = r[a.tier]["exit"] == 1
                if a.all_props:
                    other = {}
                    for q in claimed:
                        if q != prop:
                            o = run_check(q, "quick")
                            if o["exit"] != 0:
                                other[q] = o
                    r["other_props_quick"] = other
            finally:
                sh(["git", "-C", REPO, "checkout", "--", "."])
                sh(["git", "-C", REPO, "clean", "-fdq"])
            print("%-10s %-8s exit=%d violations=%d %5.0fs %s" % (mid, a.tier, r[a.tier]["exit"], r[a.tier]["violations"], r[a.tier]["wall_s"],
                                                               (r[a.tier]["keys"] or [r[a.tier]["tail"][-200:]])[0][:150]))
            sys.stdout.flush()
            json.dump(results, open(resf, "w"), indent=1, sort_keys=True)
    assert clean()
    return 0


if __name__ == "__main__":
    sys.exit(main())
