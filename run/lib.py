"""Shared engine for the /verif checks: scratch dirs, TLC runs, Go harness builds, evidence, known findings.

Verdict policy (DESIGN.md section 4): exit 0 = property held on everything explored (KNOWN-FINDING lines allowed),
exit 1 = a violation of the real code not listed in known_findings.json, exit 2 = the machinery itself failed
(TLC error, build failure of the harness, timeout, ...) and nothing is claimed.
"""
import json, os, re, shutil, subprocess, sys, tempfile, time, hashlib, atexit

VERIF = os.path.dirname(os.path.dirname(os.path.abspath(__file__)))
REPO = os.environ.get("VERIF_REPO", "/repo")
SPEC = os.path.join(VERIF, "spec")
HARNESS = os.path.join(VERIF, "harness")
NCPU = os.cpu_count() or 4

GOENV = dict(os.environ, GOFLAGS="-mod=mod", GOPROXY="off", GOSUMDB="off", GOTOOLCHAIN="local")


class Broken(Exception):
    """The machinery failed; exit 2."""


class GeneratedCodeBroken(Broken):
    """The bindings the working tree's generator just produced from the VT family do not compile (every error is inside a
    generated file): behaviour of the code under test, reported as a violation by check.py."""
    def __init__(self, msg, files):
        super().__init__(msg)
        self.files = files


def log(*a):
    print(*a, file=sys.stderr, flush=True)


def ensure_disk(min_free_gb=30):
    try:
        cache = subprocess.run(["go", "env", "GOCACHE"], env=GOENV, stdout=subprocess.PIPE, text=True).stdout.strip() or os.path.expanduser("~/.cache/go-build")
        if not os.path.isdir(cache):
            return
        st = os.statvfs(cache)
        free = st.f_bavail * st.f_frsize / 1e9
        if free < min_free_gb:
            # other checks may be compiling right now: only entries nobody used for hours go (the go tool refreshes the mtime
            # of an entry at most an hour after it was last used); emptying the whole cache is the last resort
            log("disk: %.1f GB free -- trimming the go build cache" % free)
            cutoff = time.time() - 3 * 3600
            for root, ds, fs in os.walk(cache):
                for f in fs:
                    fp = os.path.join(root, f)
                    try:
                        if os.path.getmtime(fp) < cutoff:
                            os.remove(fp)
                    except OSError:
                        pass
            st = os.statvfs(cache)
            if st.f_bavail * st.f_frsize / 1e9 < 8:
                log("disk: still nearly full -- emptying the go build cache")
                subprocess.run(["go", "clean", "-cache"], env=GOENV, stdout=subprocess.DEVNULL, stderr=subprocess.DEVNULL)
    except Exception as e:      # never let housekeeping decide a verdict
        log("disk check failed:", e)


def go_run(cmd, cwd, timeout=None):
    """Runs a go tool command; when it fails because entries of the shared build cache vanished under it (another process
    trimmed or emptied the cache), the command is simply run again -- the tool rebuilds what is missing."""
    p = None
    for attempt in range(4):
        p = subprocess.run(cmd, cwd=cwd, env=GOENV, stdout=subprocess.PIPE, stderr=subprocess.STDOUT, text=True, errors="replace", timeout=timeout)
        if p.returncode == 0 or not ("go-build" in p.stdout and "no such file or directory" in p.stdout):
            break
        log("go build cache entries vanished during the build: retrying (%d)" % (attempt + 1))
        time.sleep(2)
    return p


def no_space(text):
    """A compiler / tool output that failed because the disk is full says nothing about the code."""
    if "no space left on device" in (text or ""):
        raise Broken("the disk is full (no space left on device): " + text[-400:])


class Scratch:
    """mkdtemp'ed scratch directory, removed at exit (nothing is kept under /tmp)."""

    def __init__(self, tag):
        base = "/dev/shm" if os.path.isdir("/dev/shm") and os.environ.get("VERIF_SCRATCH_SHM", "1") == "1" else None
        self.path = tempfile.mkdtemp(prefix="verif-%s-" % tag, dir=os.environ.get("VERIF_SCRATCH", base))
        atexit.register(self.cleanup)
        # the go tool's temporary build directories go into the scratch directory (removed with it) ...
        GOENV["GOTMPDIR"] = self.sub("gotmp")
        # ... and its build cache, which every run grows by a few hundred MB (each scratch module has a path of its own),
        # is emptied when the disk runs low: a full disk makes compilations fail for a reason that is not the code's
        ensure_disk()

    def cleanup(self):
        if os.environ.get("VERIF_KEEP"):
            log("scratch kept:", self.path)
            return
        subprocess.run(["chmod", "-R", "u+w", self.path], stderr=subprocess.DEVNULL)
        shutil.rmtree(self.path, ignore_errors=True)

    def sub(self, name):
        p = os.path.join(self.path, name)
        os.makedirs(p, exist_ok=True)
        return p


# ----------------------------------------------------------------------------- TLC

class TlcResult:
    def __init__(self):
        self.ok = False
        self.generated = 0
        self.distinct = 0
        self.depth = 0
        self.out = ""
        self.violated = None     # name of violated invariant / property
        self.error = None
        self.coverage = {}       # action name -> count (when -coverage was used)
        self.wall = 0.0
        self.printed = []        # PrintT output lines that look like JSON

    def summary(self):
        return dict(states_generated=self.generated, distinct_states=self.distinct, depth=self.depth,
                    wall_s=round(self.wall, 2))


def spec_dir(scr, extra_files=()):
    """Copy all specification modules flat into one scratch directory (TLC resolves EXTENDS by file name)."""
    d = scr.sub("spec")
    for root in (SPEC, os.path.join(SPEC, "mc"), os.path.join(SPEC, "trace")):
        for f in os.listdir(root):
            if f.endswith((".tla", ".cfg")):
                shutil.copy(os.path.join(root, f), d)
    for f in extra_files:
        shutil.copy(f, d)
    return d


import itertools
_tlc_seq = itertools.count(1)   # next() is atomic: drivers may start TLC runs from several threads


def run_tlc(sdir, module, cfg, workers=None, timeout=1800, extra=(), coverage=False, heap=None, deque=False,
            expect_violation=False):
    """Run TLC. Returns TlcResult. Raises Broken on parse/semantic errors, timeouts, JVM failures."""
    md = os.path.join(sdir, "md%d" % next(_tlc_seq))
    cmd = ["java", "-XX:+UseParallelGC", "-Djava.io.tmpdir=" + sdir]   # TLC litters its temp dir: keep that inside the scratch
    if heap:
        cmd.append("-Xmx%s" % heap)
    cmd += ["-Xss64m"]
    if deque:
        cmd.append("-Dtlc2.tool.queue.IStateQueue=StateDeque")
    cmd += ["-cp", "/opt/veriftools/tla/tla2tools.jar:/opt/veriftools/tla/CommunityModules-deps.jar", "tlc2.TLC",
            "-workers", str(workers or NCPU), "-metadir", md, "-config", cfg]
    if coverage:
        cmd += ["-coverage", "1"]
    cmd += list(extra) + [module]
    t0 = time.time()
    try:
        p = subprocess.run(cmd, cwd=sdir, stdout=subprocess.PIPE, stderr=subprocess.STDOUT, timeout=timeout, text=True,
                           errors="replace")
    except subprocess.TimeoutExpired:
        subprocess.run(["pkill", "-f", md])
        raise Broken("TLC timeout after %ds: %s %s" % (timeout, module, cfg))
    r = TlcResult()
    r.wall = time.time() - t0
    r.out = p.stdout
    shutil.rmtree(md, ignore_errors=True)
    mm = re.findall(r"(\d[\d,]*) states generated, (\d[\d,]*) distinct states found", r.out)
    if mm:
        r.generated = int(mm[-1][0].replace(",", ""))
        r.distinct = int(mm[-1][1].replace(",", ""))
    mm = re.search(r"depth of the complete state graph search is (\d+)", r.out)
    if mm:
        r.depth = int(mm.group(1))
    mm = re.search(r"Invariant (\S+) is violated", r.out)
    if mm:
        r.violated = mm.group(1)
    if "Temporal properties were violated" in r.out:
        r.violated = r.violated or "temporal"
    if "Deadlock reached" in r.out:
        r.violated = r.violated or "deadlock"
    mm = re.search(r"Error: (Action property|Postcondition|The postcondition|Assumption) ?(\S*)", r.out)
    if mm and not r.violated:
        r.violated = (mm.group(1) + " " + mm.group(2)).strip()
    for line in r.out.splitlines():
        s = line.strip()
        if s.startswith('"{') or s.startswith("{\""):
            r.printed.append(s)
    if coverage:
        for mm in re.finditer(r"^<(\w+) line (\d+), col \d+ to line \d+, col \d+ of module (\w+)>(?:: (\d+):(\d+))?", r.out, re.M):
            if mm.group(4) is not None:
                r.coverage[mm.group(1)] = r.coverage.get(mm.group(1), 0) + int(mm.group(5))
    finished = "Model checking completed. No error has been found" in r.out or \
        ("Finished in" in r.out and r.violated is None and "Error:" not in r.out)
    r.ok = finished and r.violated is None
    if not r.ok and r.violated is None:
        r.error = "\n".join(r.out.splitlines()[-40:])
        raise Broken("TLC failed on %s/%s:\n%s" % (module, cfg, r.error))
    if r.violated and not expect_violation:
        log("TLC: %s violated in %s/%s" % (r.violated, module, cfg))
    return r


def tlc_simulate(sdir, module, cfg, num, depth, seed, timeout=600, extra=()):
    """Simulation mode (one worker so `num` is exact and output order deterministic for a seed)."""
    return run_tlc(sdir, module, cfg, workers=1, timeout=timeout,
                   extra=["-simulate", "num=%d" % num, "-depth", str(depth), "-seed", str(seed)] + list(extra))


# ----------------------------------------------------------------------------- Go harness

def go_module(scr, name, gen, race=False, tags="verif", pkg_subdir=None, extra_src=None):
    """Copy /verif/harness/<name> into scratch as a module bound to the working tree of /repo (gen = 'v2'|'root')
    and build it. Returns path of the binary."""
    src = os.path.join(HARNESS, name)
    d = scr.sub("go-%s-%s%s" % (name, gen, "-race" if race else ""))
    for f in os.listdir(src):
        if f.endswith(".go") or f.endswith(".json") or f.startswith("USE_"):
            shutil.copy(os.path.join(src, f), d)
    common = os.path.join(HARNESS, "common")
    if os.path.isdir(common):
        cd = os.path.join(d, "common")
        os.makedirs(cd, exist_ok=True)
        for f in os.listdir(common):
            if f.endswith(".go"):
                shutil.copy(os.path.join(common, f), cd)
    if extra_src:
        extra_src(d)
    modpath = "github.com/PapaCharlie/go-restli/v2" if gen == "v2" else "github.com/PapaCharlie/go-restli"
    repodir = os.path.join(REPO, "v2") if gen == "v2" else REPO
    if gen == "root":
        # same sources, import paths rewritten to the root module
        for root, _, files in os.walk(d):
            for f in files:
                if f.endswith(".go"):
                    p = os.path.join(root, f)
                    s = open(p).read()
                    s2 = s.replace('"github.com/PapaCharlie/go-restli/v2/restlidata/generated/com/linkedin/restli/common"',
                                   'common "github.com/PapaCharlie/go-restli/restlidata"')
                    s2 = s2.replace('"github.com/PapaCharlie/go-restli/v2/', '"github.com/PapaCharlie/go-restli/')
                    if s2 != s:
                        open(p, "w").write(s2)
    with open(os.path.join(d, "go.mod"), "w") as f:
        ver = "v2.0.0-00010101000000-000000000000" if gen == "v2" else "v0.0.0-00010101000000-000000000000"
        f.write("module verifharness\n\ngo 1.21\n\nrequire %s %s\n\nreplace %s => %s\n" % (modpath, ver, modpath, repodir))
        f.write("require pgregory.net/rapid v1.3.0\n" if os.path.exists(os.path.join(d, "USE_RAPID")) else "")
    shutil.copy(os.path.join(repodir, "go.sum"), os.path.join(d, "go.sum"))
    out = os.path.join(d, "harness.bin")
    cmd = ["go", "build", "-tags", tags + (" root" if gen == "root" else " v2"), "-o", out]
    if race:
        cmd.append("-race")
    cmd.append(".")
    p = go_run(cmd, d)
    if p.returncode != 0:
        no_space(p.stdout)
        import re as _re
        errs = _re.findall(r"^(?:\./)?(\S+?\.go):\d+:\d+: (.*)$", p.stdout, _re.M)
        if errs and all(f.startswith("gen/") and f.endswith(".gr.go") for f, _ in errs) and "build cache" not in p.stdout and "go-build" not in p.stdout:
            raise GeneratedCodeBroken("the bindings generated from the VT family (%s generator) do not compile:\n%s" % (gen, p.stdout[-2000:]),
                                      sorted(set(f for f, _ in errs)))
        raise Broken("go build of harness %s (%s) failed:\n%s" % (name, gen, p.stdout[-4000:]))
    return out


def vt_bindings(scr, moddir):
    """Generate the VT bindings with /repo's CURRENT v2 generator into <moddir>/gen (package root verifharness/gen)
    and the registry / enum table the codec harnesses need.  Called through go_module(extra_src=...)."""
    gen = go_module(scr, "gen", "v2")
    mf = os.path.join(scr.path, "vt-manifest.json")
    with open(mf, "w") as f:
        subprocess.run([sys.executable, os.path.join(VERIF, "schemas", "vt.py"), "manifest", "verifharness/gen"], stdout=f, check=True)
    p = subprocess.run([gen, mf, os.path.join(moddir, "gen")], stdout=subprocess.PIPE, stderr=subprocess.STDOUT, text=True)
    if p.returncode != 0:
        raise Broken("the v2 generator failed on the VT manifest:\n" + p.stdout[-3000:])
    with open(os.path.join(moddir, "registry.go"), "w") as f:
        subprocess.run([sys.executable, os.path.join(VERIF, "schemas", "vt.py"), "registry", "verifharness/gen", os.path.join(moddir, "gen", "vt")], stdout=f, check=True)
    if os.path.exists(os.path.join(moddir, "USE_RESOURCES")):
        with open(os.path.join(moddir, "resources.go"), "w") as f:
            subprocess.run([sys.executable, os.path.join(VERIF, "schemas", "vt.py"), "resources", "verifharness/gen"], stdout=f, check=True)
    with open(os.path.join(moddir, "enums.json"), "w") as f:
        subprocess.run([sys.executable, os.path.join(VERIF, "schemas", "vt.py"), "enums"], stdout=f, check=True)
    # the generated all_imports_test.gr.go is a `package main` file in the output root; it is not part of the bindings
    os.chmod(os.path.join(moddir, "gen", "all_imports_test.gr.go"), 0o644)
    os.remove(os.path.join(moddir, "gen", "all_imports_test.gr.go"))


ROOT_SKIP_RESOURCES = "collRet,collRR"   # partial_update with return entity: the root bindings do not compile (open C12 finding)


def vt_bindings_root(scr, moddir, with_resources=False):
    """The VT family generated with /repo's CURRENT root-module generator (includes flattened the way its schema parser
    hands them over).  with_resources: also the resource bindings, minus ROOT_SKIP_RESOURCES, and resources.go."""
    sys.path.insert(0, os.path.join(VERIF, "schemas"))
    import grammar
    gen = go_module(scr, "genroot", "root")
    env = dict(os.environ, VT_SKIP_RESOURCES=ROOT_SKIP_RESOURCES)
    p = subprocess.run([sys.executable, os.path.join(VERIF, "schemas", "vt.py"), "manifest", "verifharness/gen"], stdout=subprocess.PIPE, check=True, env=env)
    m = json.loads(p.stdout)
    mf = os.path.join(scr.path, "vt-root-spec%s.json" % ("-res" if with_resources else ""))
    json.dump({"dataTypes": grammar.flatten_includes(m["inputDataTypes"]), "Resources": m["resources"] if with_resources else []}, open(mf, "w"))
    out = os.path.join(moddir, "gen")
    os.makedirs(out, exist_ok=True)
    p = subprocess.run([gen, mf, out, "verifharness/gen"], stdout=subprocess.PIPE, stderr=subprocess.STDOUT, text=True)
    if p.returncode != 0:
        raise Broken("the root generator failed on the VT data types:\n" + p.stdout[-3000:])
    with open(os.path.join(moddir, "registry.go"), "w") as f:
        subprocess.run([sys.executable, os.path.join(VERIF, "schemas", "vt.py"), "registry", "verifharness/gen", os.path.join(out, "vt")], stdout=f, check=True)
    if with_resources:
        with open(os.path.join(moddir, "resources.go"), "w") as f:
            subprocess.run([sys.executable, os.path.join(VERIF, "schemas", "vt.py"), "resources", "verifharness/gen"], stdout=f, check=True, env=env)
    elif os.path.exists(os.path.join(moddir, "USE_RESOURCES")):
        os.remove(os.path.join(moddir, "USE_RESOURCES"))
    with open(os.path.join(moddir, "enums.json"), "w") as f:
        subprocess.run([sys.executable, os.path.join(VERIF, "schemas", "vt.py"), "enums"], stdout=f, check=True)
    for r, ds, fs in os.walk(out):
        for f in fs:
            if f.startswith("all_imports"):
                os.chmod(os.path.join(r, f), 0o644)
                os.remove(os.path.join(r, f))


def run_bin(binary, args, timeout=1800, stdin=None, env=None, cwd=None):
    e = dict(GOENV)
    if env:
        e.update(env)
    t0 = time.time()
    try:
        p = subprocess.run([binary] + list(args), stdout=subprocess.PIPE, stderr=subprocess.PIPE, text=True,
                           timeout=timeout, input=stdin, env=e, cwd=cwd, errors="replace")
    except subprocess.TimeoutExpired:
        raise Broken("harness timeout: %s %s" % (binary, " ".join(args)))
    return p.returncode, p.stdout, p.stderr, time.time() - t0


# ----------------------------------------------------------------------------- findings / evidence / verdict

def load_known():
    p = os.path.join(VERIF, "known_findings.json")
    if not os.path.exists(p):
        return []
    return json.load(open(p)).get("findings", [])


RUN_INFO = dict(tier="quick", seed=1)   # set by check.py; recorded in replay files
REPLAY_KEY = None                       # set by check.py --replay: only this violation key counts


class Verdict:
    """Collects violations (of the real code), applies known_findings.json, prints the lines, decides the exit."""

    def __init__(self, prop):
        self.prop = prop
        self.violations = []   # dict(key, what, replay(dict))
        self.known = [k for k in load_known() if k["property"] == prop]

    def add(self, key, what, replay=None):
        for v in self.violations:
            if v["key"] == key:
                v["count"] += 1
                return
        self.violations.append(dict(key=key, what=what, replay=replay, count=1))

    def finish(self):
        """Returns (exit_code, n_unlisted, known_lines)."""
        import fnmatch
        open_entries = [k for k in self.known if k.get("status") == "open"]
        unlisted = []
        reported = set()
        for v in self.violations:
            if REPLAY_KEY is not None and v["key"] != REPLAY_KEY:
                continue
            hit = None
            for k in open_entries:
                # a finding listed for the v2 generation never covers a violation of the root generation (keys Cxx/root/...)
                # and vice versa: `*` in a glob must not reach across that boundary
                same_gen = ("/root/" in v["key"]) == ("/root/" in k["key"])
                if v["key"] == k["key"] or (same_gen and fnmatch.fnmatchcase(v["key"], k["key"])):
                    hit = k
                    break
            if hit is not None:
                if hit["key"] not in reported:   # one line per listed finding
                    reported.add(hit["key"])
                    print("KNOWN-FINDING: property=%s %s [%s]" % (self.prop, hit["what"], hit["key"]))
            else:
                unlisted.append(v)
        os.makedirs(os.path.join(VERIF, "replays"), exist_ok=True)
        MAXREP = 200      # a badly broken tree produces thousands of distinct keys: the first MAXREP get a replay file and a line
        for v in unlisted[:MAXREP]:
            h = hashlib.sha1(v["key"].encode()).hexdigest()[:10]
            path = os.path.join(VERIF, "replays", "%s-%s.json" % (self.prop, h))
            with open(path, "w") as f:
                json.dump(dict(property=self.prop, key=v["key"], what=v["what"], tier=RUN_INFO["tier"], seed=RUN_INFO["seed"], case=v["replay"]),
                          f, indent=1, default=str)
            print("VIOLATION property=%s replay=%s" % (self.prop, path))
            print("  key=%s: %s" % (v["key"], v["what"]))
        if len(unlisted) > MAXREP:
            print("  (... and %d more violation keys of property %s not listed)" % (len(unlisted) - MAXREP, self.prop))
        sys.stdout.flush()
        return (1 if unlisted else 0), len(unlisted)


def write_evidence(prop, tier, seed, coverage, assumptions, wall, violations, level="model_checking"):
    if os.environ.get("VERIF_NO_EVIDENCE"):   # seeded-change evaluation (run/seeded.py): the tree is not the real one
        return None
    os.makedirs(os.path.join(VERIF, "evidence"), exist_ok=True)
    ev = dict(property_id=prop, tier=tier, seed=int(seed), level=level, coverage=coverage,
              assumptions=assumptions, wall_s=round(wall, 2), violations=int(violations))
    tmp = os.path.join(VERIF, "evidence", "%s.json.tmp" % prop)
    with open(tmp, "w") as f:
        json.dump(ev, f, indent=1, default=str)
    os.replace(tmp, os.path.join(VERIF, "evidence", "%s.json" % prop))
    return ev


def read_ndjson(path):
    out = []
    with open(path) as f:
        for line in f:
            line = line.strip()
            if line:
                out.append(json.loads(line))
    return out


def write_ndjson(path, rows):
    with open(path, "w") as f:
        for r in rows:
            f.write(json.dumps(r, separators=(",", ":")) + "\n")


# ----------------------------------------------------------------------------- trace validation

def validate_traces(sdir, module, cfg, events, is_reset=lambda e: e.get("ev") == "reset", max_rounds=6,
                    timeout=1800, tracefile="trace.ndjson", deque=False):
    """Code -> model. `events` is a list of dicts, executions separated by reset events. TLC (one worker) must find a
    behaviour of the trace specification that consumes every line; the specification reports the high-water mark.
    Returns (n_traces_accepted, rejected) where rejected is a list of dict(index, line, event, events) describing
    each rejected execution (the execution is cut out and the rest re-validated, up to max_rounds)."""
    rejected = []
    total_states = 0
    cur = list(events)
    for _ in range(max_rounds):
        if not cur:
            break
        write_ndjson(os.path.join(sdir, tracefile), cur)
        r = run_tlc(sdir, module, cfg, workers=1, timeout=timeout, deque=deque, expect_violation=True)
        total_states += r.generated
        mm = re.search(r'<<"HIGHWATER", (\d+), (\d+)>>', r.out)
        if not mm:
            raise Broken("trace validation: no HIGHWATER line from %s\n%s" % (module, r.out[-3000:]))
        hw, n = int(mm.group(1)), int(mm.group(2))
        if n != len(cur):
            raise Broken("trace validation: TLC read %d lines, wrote %d" % (n, len(cur)))
        if hw == n + 1:
            break
        # line hw (1-based) could not be consumed: cut out the execution that contains it
        bad = hw - 1
        start = bad
        while start > 0 and not is_reset(cur[start]):
            start -= 1
        end = bad + 1
        while end < len(cur) and not is_reset(cur[end]):
            end += 1
        rejected.append(dict(line=bad - start, event=cur[bad], events=cur[start:end]))
        cur = cur[:start] + cur[end:]
    else:
        # max_rounds executions rejected; the rest of the file was not validated in full
        return 0, rejected, total_states
    n_traces = sum(1 for e in cur if is_reset(e))
    return n_traces, rejected, total_states
