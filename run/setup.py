#!/usr/bin/env python3
"""MANIFEST.setup_cmd: syntax-check every specification module (tla-sany) and vet that tools are present.
Nothing built here is trusted by a check: every check rebuilds from /repo's working tree."""
import os, subprocess, sys, shutil, tempfile
V = os.path.dirname(os.path.dirname(os.path.abspath(__file__)))
def main():
    for tool in ("java", "go", "python3"):
        if shutil.which(tool) is None:
            print("missing tool", tool); sys.exit(1)
    d = tempfile.mkdtemp(prefix="verif-setup-")
    try:
        mods = []
        for root in ("spec", "spec/mc", "spec/trace"):
            for f in sorted(os.listdir(os.path.join(V, root))):
                if f.endswith(".tla"):
                    shutil.copy(os.path.join(V, root, f), d); mods.append(f)
        bad = 0
        for f in mods:
            p = subprocess.run(["java", "-Djava.io.tmpdir=" + d, "-cp", "/opt/veriftools/tla/tla2tools.jar:/opt/veriftools/tla/CommunityModules-deps.jar", "tla2sany.SANY", f],
                               cwd=d, capture_output=True, text=True)
            if p.returncode != 0 or "*** Errors" in p.stdout or "Fatal errors" in p.stdout:
                print("SANY failed on", f); print(p.stdout[-2000:]); bad += 1
        print("setup: %d modules parsed, %d failed" % (len(mods), bad))
        sys.exit(1 if bad else 0)
    finally:
        shutil.rmtree(d, ignore_errors=True)
if __name__ == "__main__":
    main()
