"""The exchanges of the generated client with the generated server (Call.tla x VT resources), shared by the properties
that read something off them: C02 (fidelity), C03 (envelopes), C15 (request path of generated clients)."""
import json, os
import lib


def exchanges(scr, sdir, prefix):
    """Runs MC_Call + the e2e harness; returns (violations with that key prefix, harness stats, TLC result)."""
    r = lib.run_tlc(sdir, "MC_Call.tla", "MC_Call.cfg", workers=8, timeout=1800)
    if not r.ok:
        raise lib.Broken("Call.tla: %s violated" % r.violated)
    rows = sorted(set(json.loads(x) for x in r.printed))
    rf = os.path.join(scr.path, "calls.ndjson")
    with open(rf, "w") as f:
        for x in rows:
            f.write(x + "\n")

    def extra(d):
        lib.vt_bindings(scr, d)
        os.remove(os.path.join(d, "registry.go"))
    binp = lib.go_module(scr, "e2e", "v2", extra_src=extra)
    code, out, err, wall = lib.run_bin(binp, ["-in", rf], timeout=3000, cwd=os.path.dirname(binp))
    if code != 0:
        raise lib.Broken("e2e harness failed: %s" % err[-3000:])
    viol, stats = [], {}
    for line in out.splitlines():
        o = json.loads(line)
        if o["kind"] == "violation" and o["key"].startswith(prefix):
            viol.append(o)
        elif o["kind"] == "stats":
            stats = o["stats"]
    return viol, stats, r
