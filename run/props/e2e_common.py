"""The exchanges of the generated client with the generated server (Call.tla x VT resources), shared by the properties
that read something off them: C02 (fidelity), C03 (envelopes), C07 (wire clauses), C15 (request path of generated
clients), C16 (batch correlation).  They run on bindings from BOTH generators: the v2 generator's and the root
generator's (minus the resources the root generation cannot compile: lib.ROOT_SKIP_RESOURCES)."""
import json, os
import lib

GENS = ("v2", "root")


def e2e_runs(scr, call_rows, extra_args=(), gens=GENS, tag="calls"):
    """Builds the e2e harness per generation and runs it on the Call.tla rows.  Yields (gen, objects, rekey)."""
    skip = lib.ROOT_SKIP_RESOURCES.split(",")
    for gen in gens:
        rows = call_rows if gen == "v2" else [x for x in call_rows if not any('"%s"' % r in x for r in skip)]
        rf = os.path.join(scr.path, "%s-%s.ndjson" % (tag, gen))
        with open(rf, "w") as f:
            for x in rows:
                f.write(x + "\n")

        def extra(d, gen=gen):
            if gen == "v2":
                lib.vt_bindings(scr, d)
            else:
                lib.vt_bindings_root(scr, d, with_resources=True)
            os.remove(os.path.join(d, "registry.go"))
        binp = lib.go_module(scr, "e2e", gen, extra_src=extra)
        code, out, err, wall = lib.run_bin(binp, ["-in", rf] + list(extra_args), timeout=3000, cwd=os.path.dirname(binp))
        if code != 0:
            raise lib.Broken("e2e harness (%s) failed: %s" % (gen, err[-3000:]))
        objs = []
        for line in out.splitlines():
            o = json.loads(line)
            if gen == "root" and o["kind"] == "violation":
                if "/no-such-resource/" in o["key"] and any(o["key"].endswith("/" + r) for r in skip):
                    continue        # left out on purpose
                prop = o["key"].split("/", 1)[0]
                o["key"] = o["key"].replace(prop + "/", prop + "/root/", 1)
                o["what"] = "[root generation] " + o["what"]
                o["case"] = dict(o.get("case") or {}, gen="root")
            objs.append(o)
        yield gen, objs


def call_rows(sdir):
    r = lib.run_tlc(sdir, "MC_Call.tla", "MC_Call.cfg", workers=8, timeout=1800)
    if not r.ok:
        raise lib.Broken("Call.tla: %s violated -- the client's request is not routed back to the called method by the protocol table" % r.violated)
    return r, sorted(set(json.loads(x) for x in r.printed))


def exchanges(scr, sdir, prefix):
    """Runs MC_Call + the e2e harness; returns (violations with that key prefix, harness stats summed, TLC result)."""
    r, rows = call_rows(sdir)
    viol, stats = [], {}
    for gen, objs in e2e_runs(scr, rows):
        for o in objs:
            if o["kind"] == "violation" and o["key"].startswith(prefix):
                viol.append(o)
            elif o["kind"] == "stats":
                for k, v in o["stats"].items():
                    stats[k] = stats.get(k, 0) + v
    return viol, stats, r
