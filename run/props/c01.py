"""C01 - codec round-trip: decode(encode(v)) = v for every schema type and wire format."""
from props import codec_common


def run(tier, seed, replay):
    return codec_common.run_codec("C01", ["C01/"], tier, seed,
        "one case = one value of one VT schema (base value and every single-position variation: each text of the pool in each string / bytes / map-key / fixed position, each numeric atom, each optional absent, containers empty/one/two, each union member) x 5 wire flavours",
        ["the VT schema family (schemas/vt.py) stands for 'all schemas'; C12's grammar enumeration widens it",
         "digits of numbers are not modelled: numeric atoms are compared bit-exactly in the harness via strconv",
         "root module: the runtime codec is exercised by the raw reader/writer checks (C04/C06/C07); generated bindings come from the v2 generator"])
