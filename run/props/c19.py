"""C19 - D2 announcement tracking and host selection follow the event history."""
import json, os, time
import lib

PROP = "C19"


def run(tier, seed, replay):
    t0 = time.time()
    scr = lib.Scratch("c19")
    sdir = lib.spec_dir(scr)
    verdict = lib.Verdict(PROP)
    cov = dict(samples=[])

    # (A) TLC: fold invariant, immutability of old snapshots, eligibility (declarative = operational), all histories of the bound
    tlc = {}
    r = lib.run_tlc(sdir, "MC_D2.tla", "MC_D2_quick.cfg" if tier == "quick" else "MC_D2_thorough.cfg", timeout=6000)
    if not r.ok:
        raise lib.Broken("D2.tla: %s violated -- the specification itself is wrong" % r.violated)
    tlc["check"] = r.summary()

    # (B) model -> code: every history of the bound plus simulated long ones, exported with expected snapshots
    rows = []
    r = lib.run_tlc(sdir, "MC_D2.tla", "MC_D2_export.cfg", workers=1, timeout=3000)
    if not r.ok:
        raise lib.Broken("D2 export failed: %s" % r.violated)
    tlc["export"] = r.summary()
    rows += [json.loads(x) for x in r.printed]
    nsim = 300 if tier == "quick" else 5000
    r = lib.tlc_simulate(sdir, "MC_D2.tla", "MC_D2_sim.cfg", nsim, 11, seed)
    rows += [json.loads(x) for x in r.printed]
    rowfile = os.path.join(scr.path, "rows.ndjson")
    with open(rowfile, "w") as f:
        for x in rows:
            f.write(x + "\n")
    cov["model_histories_replayed"] = len(rows)
    cov["tlc"] = tlc
    cov["states"] = tlc["check"]["distinct_states"]
    cov["transitions"] = tlc["check"]["states_generated"]

    totals = dict(events=0, snapshot_compares=0, stale_compares=0, resolutions=0, traces_validated=0, trace_events=0)
    for gen in ("v2", "root"):
        binp = lib.go_module(scr, "d2", gen)
        code, out, err, wall = lib.run_bin(binp, ["-mode", "replay", "-in", rowfile, "-seed", str(seed)], timeout=3000)
        if code != 0:
            raise lib.Broken("d2 harness replay failed (%s): %s" % (gen, err[-2000:]))
        for line in out.splitlines():
            o = json.loads(line)
            if o["kind"] == "violation":
                verdict.add(o["key"] + "/" + gen if False else o["key"], o["what"], dict(gen=gen, **o["case"]))
            elif o["kind"] == "stats":
                s = o["stats"]
                totals["events"] += s["Events"]; totals["snapshot_compares"] += s["SnapshotCompares"]
                totals["stale_compares"] += s["StaleCompares"]; totals["resolutions"] += s["Resolutions"]
        # frequency test (proportionality)
        code, out, err, wall = lib.run_bin(binp, ["-mode", "freq", "-seed", str(seed), "-n", "200000" if tier == "quick" else "2000000"], timeout=3000)
        if code != 0:
            raise lib.Broken("d2 harness freq failed (%s): %s" % (gen, err[-2000:]))
        for line in out.splitlines():
            o = json.loads(line)
            if o["kind"] == "violation":
                verdict.add(o["key"], o["what"], dict(gen=gen, **o["case"]))
            elif o["kind"] == "sample" and gen == "v2" and len(cov["samples"]) < 3:
                cov["samples"].append(o)
        # (C) code -> model: random rich histories validated by TLC
        tf = os.path.join(scr.path, "d2trace-%s.ndjson" % gen)
        ntr = 150 if tier == "quick" else 1500
        code, out, err, wall = lib.run_bin(binp, ["-mode", "record", "-out", tf, "-seed", str(seed + 7), "-n", str(ntr), "-len", "40"], timeout=3000)
        if code != 0:
            raise lib.Broken("d2 harness record failed (%s): %s" % (gen, err[-2000:]))
        evs = lib.read_ndjson(tf)
        n_ok, rejected, nst = lib.validate_traces(sdir, "Trace_D2.tla", "Trace_D2.cfg", evs)
        totals["traces_validated"] += n_ok
        totals["trace_events"] += len(evs)
        for rj in rejected:
            e = rj["event"]
            verdict.add("C19/trace-rejected/%s/%s" % (e.get("ev"), e.get("kind", "")),
                        "an observed D2 execution is not a behaviour of D2.tla at event %d: %s" % (rj["line"], json.dumps(e)[:300]),
                        dict(gen=gen, history=rj["events"][:rj["line"] + 1]))
        if gen == "v2":
            cov["samples"].append(dict(trace=evs[:6]))
    cov["samples"].append(dict(model_history=json.loads(rows[len(rows) // 2])["history"]))
    cov.update(totals)
    cov["traces_validated_against_impl"] = totals["traces_validated"]
    cov["evaluations"] = len(rows) * 2
    cov["distinct_nontrivial"] = len(set(rows))
    cov["rule"] = "one case = one event history exported by TLC (all histories of length 3 over 22 uri events, plus simulated length-10 ones), replayed on both module generations; distinct = distinct histories"
    cov["exhaustive"] = True
    code, n = verdict.finish()
    if replay:
        return code
    lib.write_evidence(PROP, tier, seed, cov, [
        "events are delivered below the ZooKeeper connection (through waitForUriUpdates / waitForServiceUpdates); TreeCache itself is not exercised",
        "weights are integers in models and traces; proportionality is a 6-sigma frequency test",
        "the random draw r = 0 (measure zero) is excluded from the operational model",
    ], time.time() - t0, n)
    return code
