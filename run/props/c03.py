"""C03 - wire-format conformance against an independent Rest.li 2.0 oracle."""
import json, os
import lib
from props import codec_common


def envelopes(scr, sdir, verdict, cov):
    """Last clause of C03: request / response envelopes and protocol headers.  Call.tla's envelope table, checked on every
    exchange between the generated client and the generated server (the same exchanges C02 replays)."""
    from props import e2e_common
    r, rows = e2e_common.call_rows(sdir)
    for gen, objs in e2e_common.e2e_runs(scr, rows):
        for o in objs:
            if o["kind"] == "violation" and o["key"].startswith("C03/"):
                verdict.add(o["key"], o["what"], o["case"])
            elif o["kind"] == "stats":
                cov["envelopes_checked"] = cov.get("envelopes_checked", 0) + o["stats"].get("envelopes_checked", 0)
    cov["tlc_call"] = r.summary()
    cov["states"] += r.distinct
    cov["transitions"] += r.generated
    cov["evaluations"] += cov.get("envelopes_checked", 0)


def run(tier, seed, replay):
    return codec_common.run_codec("C03", ["C03/"], tier, seed,
        "one case = one value of one VT schema; emit direction: 5 flavours compared with the specification's JSON tree (parsed by encoding/json) or ROR2 token stream; accept direction: 6 JSON variants (key order, whitespace, unknown fields first/last, unicode escapes), 2 escape variants x 3 ROR2 flavours, and the untyped reader; plus one case per exchange of the generated client and server (every VT method x argument class x configuration): body envelopes and protocol headers against Call.tla's envelope table",
        ["the reference is the written protocol (Wire.tla, Call.tla's envelope table) and RFC 3986; no Java peer exists in the sandbox",
         "envelope members are checked for presence and admissibility; their contents are values, covered by the value part",
         "alternative escapes: JSON \\uXXXX for every character, ROR2 percent-encoding of every non-alphanumeric byte"],
        extra=envelopes)
