"""C03 - wire-format conformance against an independent Rest.li 2.0 oracle."""
from props import codec_common


def run(tier, seed, replay):
    return codec_common.run_codec("C03", ["C03/"], tier, seed,
        "one case = one value of one VT schema; emit direction: 5 flavours compared with the specification's JSON tree (parsed by encoding/json) or ROR2 token stream; accept direction: 6 JSON variants (key order, whitespace, unknown fields first/last, unicode escapes), 2 escape variants x 3 ROR2 flavours, and the untyped reader",
        ["the reference is the written protocol (Wire.tla) and RFC 3986; no Java peer exists in the sandbox",
         "envelopes and headers are checked under C02",
         "alternative escapes: JSON \\uXXXX for every character, ROR2 percent-encoding of every non-alphanumeric byte"])
