"""C03 - wire-format conformance against an independent Rest.li 2.0 oracle."""
import json, os
import lib
from props import codec_common


def envelopes(scr, sdir, verdict, cov):
    """Last clause of C03: request / response envelopes and protocol headers.  Call.tla's envelope table, checked on every
    exchange between the generated client and the generated server (the same exchanges C02 replays)."""
    r = lib.run_tlc(sdir, "MC_Call.tla", "MC_Call.cfg", workers=8, timeout=1800)
    if not r.ok:
        raise lib.Broken("Call.tla: %s violated" % r.violated)
    rows = sorted(set(json.loads(x) for x in r.printed))
    rf = os.path.join(scr.path, "calls.ndjson")
    with open(rf, "w") as f:
        for x in rows:
            f.write(x + "\n")

    def extra(d):
        lib.vt_bindings(scr, d)
        os.remove(os.path.join(d, "registry.go"))
    binp = lib.go_module(scr, "e2e", "v2", extra_src=extra)
    code, out, err, wall = lib.run_bin(binp, ["-in", rf], timeout=3000, cwd=os.path.dirname(binp))
    if code != 0:
        raise lib.Broken("e2e harness failed: %s" % err[-3000:])
    for line in out.splitlines():
        o = json.loads(line)
        if o["kind"] == "violation" and o["key"].startswith("C03/"):
            verdict.add(o["key"], o["what"], o["case"])
        elif o["kind"] == "stats":
            cov["envelopes_checked"] = o["stats"].get("envelopes_checked", 0)
    cov["tlc_call"] = r.summary()
    cov["states"] += r.distinct
    cov["transitions"] += r.generated
    cov["evaluations"] += cov.get("envelopes_checked", 0)


def run(tier, seed, replay):
    return codec_common.run_codec("C03", ["C03/"], tier, seed,
        "one case = one value of one VT schema; emit direction: 5 flavours compared with the specification's JSON tree (parsed by encoding/json) or ROR2 token stream; accept direction: 6 JSON variants (key order, whitespace, unknown fields first/last, unicode escapes), 2 escape variants x 3 ROR2 flavours, and the untyped reader; plus one case per exchange of the generated client and server (every VT method x argument class x configuration): body envelopes and protocol headers against Call.tla's envelope table",
        ["the reference is the written protocol (Wire.tla, Call.tla's envelope table) and RFC 3986; no Java peer exists in the sandbox",
         "envelope members are checked for presence and admissibility; their contents are values, covered by the value part",
         "alternative escapes: JSON \\uXXXX for every character, ROR2 percent-encoding of every non-alphanumeric byte"],
        extra=envelopes)
