"""C15 - request URL construction preserves resolver base, resource path and query."""
import json, os, time
import lib

PROP = "C15"


def run(tier, seed, replay):
    t0 = time.time()
    scr = lib.Scratch("c15")
    sdir = lib.spec_dir(scr)
    verdict = lib.Verdict(PROP)
    cov = dict(samples=[])
    r = lib.run_tlc(sdir, "MC_Url.tla", "MC_Url.cfg", workers=8, timeout=3000)
    if not r.ok:
        raise lib.Broken("Url.tla: %s violated -- operational and declarative layers disagree" % r.violated)
    rows = sorted(set(json.loads(x) for x in r.printed))
    rf = os.path.join(scr.path, "rows.ndjson")
    with open(rf, "w") as f:
        for x in rows:
            f.write(x + "\n")
    cov["tlc"] = r.summary()
    cov["states"] = r.distinct
    cov["transitions"] = r.generated
    cov["rows_exported"] = len(rows)
    cov["samples"].append(json.loads(rows[len(rows) // 2]))
    totals = dict(compared=0, traces=0)
    for gen in ("v2", "root"):
        binp = lib.go_module(scr, "url", gen)
        code, out, err, wall = lib.run_bin(binp, ["-mode", "replay", "-in", rf], timeout=3000)
        if code != 0:
            raise lib.Broken("url harness failed (%s): %s" % (gen, err[-3000:]))
        for line in out.splitlines():
            o = json.loads(line)
            if o["kind"] == "violation":
                verdict.add(o["key"], o["what"], dict(gen=gen, **o["case"]))
            elif o["kind"] == "stats":
                totals["compared"] += o["compared"]
        trf = os.path.join(scr.path, "trace-%s.ndjson" % gen)
        n = 5000 if tier == "quick" else 100000
        code, out, err, wall = lib.run_bin(binp, ["-mode", "record", "-trace", trf, "-seed", str(seed), "-n", str(n)], timeout=3000)
        if code != 0:
            raise lib.Broken("url record failed (%s): %s" % (gen, err[-3000:]))
        evs = lib.read_ndjson(trf)
        n_ok, rejected, nst = lib.validate_traces(sdir, "Trace_Url.tla", "Trace_Url.cfg", evs, is_reset=lambda e: True)
        totals["traces"] += n_ok
        for rj in rejected:
            e = rj["event"]
            dots = any(s in (".", "..") for s in e.get("rp", []))
            verdict.add("C15/trace-rejected/" + ("dot-segment-key" if dots else "other"),
                        "an observed request URL is not the one Url.tla prescribes: %s" % json.dumps(e)[:500], dict(gen=gen, event=e))
        if gen == "v2" and evs:
            cov["samples"].append(evs[1])
    cov.update(totals)
    cov["traces_validated_against_impl"] = totals["traces"]
    cov["evaluations"] = totals["compared"]
    cov["distinct_nontrivial"] = len(rows)
    cov["rule"] = "one case = (context path of 0-3 segments over {root, rootx, roo, xroot, ctx}, resource path with keys over {k, a%2Fb, ., .., '', root}, trailing slash, scheme+host present, query none/plain/percent-encoded); each built as GET and as JSON request"
    cov["exhaustive"] = True
    # generated clients (v2): the request path of every call of the VT resources, sub-resources included, under both
    # resolver bases (with and without a context path that already ends with the root resource)
    from props import e2e_common
    viol, st, rc = e2e_common.exchanges(scr, sdir, "C15/")
    for o in viol:
        verdict.add(o["key"], o["what"], o["case"])
    cov["generated_client_calls"] = st.get("calls", 0)
    cov["tlc_call"] = rc.summary()
    code, nv = verdict.finish()
    if replay:
        return code
    lib.write_evidence(PROP, tier, seed, cov, [
        "contexts holding the root name as a complete non-final segment are unspecified by the property and skipped",
        "the resolver is a SimpleHostnameResolver; what net/http or intermediaries do to the URL afterwards is out of scope",
    ], time.time() - t0, nv)
    return code
