"""C06 - required-field accounting and unknown-field tolerance when decoding."""
import json, os, time
import lib
from props import codec_common

PROP = "C06"


def run(tier, seed, replay):
    t0 = time.time()
    scr = lib.Scratch("c06")
    sdir = lib.spec_dir(scr)
    verdict = lib.Verdict(PROP)
    cov = dict(samples=[])
    r = lib.run_tlc(sdir, "MC_Reader.tla", "MC_Reader.cfg", workers=8, timeout=1800)
    if not r.ok:
        raise lib.Broken("Reader.tla: %s violated -- operational and declarative accounting disagree" % r.violated)
    rows = sorted(set(json.loads(x) for x in r.printed))
    rf = os.path.join(scr.path, "c06.ndjson")
    with open(rf, "w") as f:
        for x in rows:
            f.write(x + "\n")
    r2, vrows, vf, resf = codec_common.export_values(scr, sdir)
    cov["tlc"] = r.summary()
    cov["states"] = r.distinct
    cov["transitions"] = r.generated
    cov["documents_exported"] = len(rows)
    s = json.loads(rows[len(rows) // 2])
    cov["samples"].append(dict(schema=s["schema"], missing=s["missing"], doc=s["av"]))
    totals = {}
    for gen, binp, moddir, rekey in codec_common.codec_bins(scr, PROP):     # bindings from both generators
        code, out, err, wall = lib.run_bin(binp, ["-mode", "c06", "-in", rf, "-reserved", resf, "-seed", str(seed)], timeout=3000, cwd=moddir)
        if code != 0:
            raise lib.Broken("codec harness (c06, %s) failed: %s" % (gen, err[-3000:]))
        for line in out.splitlines():
            o = json.loads(line)
            if o["kind"] == "violation":
                verdict.add(rekey(o["key"]), ("" if gen == "v2" else "[root generation] ") + o["what"], dict(o["case"], gen=gen))
            elif o["kind"] == "stats":
                for k, v in o["stats"].items():
                    totals[k] = totals.get(k, 0) + v
                for k, v in o["violation_counts"].items():
                    for vv in verdict.violations:
                        if vv["key"] == rekey(k):
                            vv["count"] = v
    cov["generations"] = ["v2", "root"]
    cov.update(totals)
    cov["traces_validated_against_impl"] = 0
    cov["evaluations"] = totals.get("decodings", 0)
    cov["distinct_nontrivial"] = len(rows)
    cov["rule"] = "one case = one document: a base value of Nest (required fields inside a 2-element array, a 2-entry map, a union member, a required and an optional nested record), IncTop (two include levels), Prims, Leaf, DefContainers, CK, DefOuter with one subset of its record fields removed at every depth; read by 5 JSON renderings (key orders, whitespace, unknown fields first / last), the untyped reader and 3 ROR2 flavours"
    cov["exhaustive"] = True
    code, nv = verdict.finish()
    lib.write_evidence(PROP, tier, seed, cov, [
        "the path format is the JSON reader's (a.b[0].c); the query reader's paths are compared after removing the parameter name",
        "null members are exercised through the unknown-field injections only; the lenient client is exercised under C02",
    ], time.time() - t0, nv)
    return code
