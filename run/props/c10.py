"""C10 - Equals / hash contract of generated and key types."""
from props import codec_common


def run(tier, seed, replay):
    return codec_common.run_codec("C10", ["C10/"], tier, seed,
        "one case = a pair of instances of one VT schema drawn from a pool holding, for each value TLC enumerates (base and every single-position mutation incl. +0/-0, NaN, unset vs set optional, other union member, map insertion orders), four representations: built, rebuilt independently, nil for empty collections, round-tripped; all pairs for pools up to 632 instances, 400000 seeded pairs beyond; the oracle for equality is the specification's normal form Norm",
        ["reflexivity / symmetry / transitivity: Equals must coincide with equality of Norm (an equivalence), pairs involving NaN only must not be equal when Norm differs",
         "values carrying a raw record are skipped for Equals (RawRecord.Equals is never true by design)",
         "hashes are compared within one process; C09's fresh-process digests cover process independence of encodings"], mode="c10", cfg="MC_Codec_null.cfg")   # Equals / hash do not touch the wire: the null member of nullable unions is enumerated here
