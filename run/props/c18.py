"""C18 - lazy map publishes each key's value once under every interleaving."""
import json, os, random, time, itertools
import lib

PROP = "C18"
OPS = ["los", "load", "store"]


def sig(prog):
    return "|".join(",".join("%s%d" % (o["type"], o["key"]) for o in ops) for ops in prog)


def run(tier, seed, replay):
    t0 = time.time()
    scr = lib.Scratch("c18")
    sdir = lib.spec_dir(scr)
    verdict = lib.Verdict(PROP)
    cov = dict(samples=[])
    rng = random.Random(seed)

    # (A) specification + TLC: every program of the bound, every interleaving
    tlc = {}
    if replay is None:
        cfgs = ["quick", "3x1", "live"] if tier == "quick" else ["quick", "3x1", "live", "thorough"]
        for c in cfgs:
            r = lib.run_tlc(sdir, "MC_LazyMap.tla", "MC_LazyMap_%s.cfg" % c, timeout=3000)
            if not r.ok:
                raise lib.Broken("LazyMap.tla: %s violated under MC_LazyMap_%s.cfg -- the specification itself is wrong" % (r.violated, c))
            tlc[c] = r.summary()
    cov["tlc"] = tlc
    cov["states"] = sum(v["distinct_states"] for v in tlc.values())
    cov["transitions"] = sum(v["states_generated"] for v in tlc.values())

    # (B) model -> code: TLC behaviours forced on the real map
    runs = []
    if replay:
        case = json.load(open(replay))["case"]
        runs.append(dict(id="replay", prog=case["prog"], mode="forced", sched=case["sched"]))
    else:
        nsim = 600 if tier == "quick" else 6000
        for cfg, n in (("MC_LazyMap_sim.cfg", nsim), ("MC_LazyMap_sim2.cfg", nsim)):
            r = lib.tlc_simulate(sdir, "MC_LazyMap_sim.tla", cfg, n, 80, seed)
            for i, line in enumerate(r.printed):
                b = json.loads(json.loads(line))
                runs.append(dict(id="sim-%s-%d" % (cfg[11:-4], i), prog=b["prog"], mode="forced",
                                 sched=[g[0] for g in b["gates"]],
                                 expect=dict(gates=b["gates"], hist=b["hist"], final=b["final"])))
        cov["model_behaviours_replayed"] = len(runs)
        # (C) schedules chosen by the controller: exhaustive for all 2 x 1 programs, budgeted/random beyond
        allops = [dict(type=t, key=k) for t in OPS for k in (1, 2)]
        for a, b in itertools.product(allops, allops):
            runs.append(dict(id="dfs2x1-%s-%s" % (a["type"] + str(a["key"]), b["type"] + str(b["key"])),
                             prog=[[a], [b]], mode="dfs", count=0))
        budget = 150 if tier == "quick" else 3000
        for a, b, c in itertools.product(OPS, OPS, OPS):     # 3 x 1, same key: maximal contention
            runs.append(dict(id="dfs3x1-%s%s%s" % (a, b, c), prog=[[dict(type=x, key=1)] for x in (a, b, c)],
                             mode="dfs", count=budget))
        nrand = 150 if tier == "quick" else 1500
        for i in range(nrand):
            np_ = rng.choice([2, 3])
            prog = [[dict(type=rng.choice(OPS), key=rng.choice([1, 1, 2])) for _ in range(rng.choice([1, 2, 2]))] for _ in range(np_)]
            runs.append(dict(id="rand-%d" % i, prog=prog, mode="random", count=4))
        nfree = 800 if tier == "quick" else 4000
        for i in range(nfree):
            prog = [[dict(type=rng.choice(OPS), key=rng.choice([1, 1, 2])) for _ in range(2)] for _ in range(3)]
            runs.append(dict(id="free-%d" % i, prog=prog, mode="free", count=3))

    gens = ["v2", "root"]
    totals = dict(executions=0, forced=0, dfs=0, random=0, free=0, gate_steps=0, gate_mismatch=0, outcome_mismatch=0,
                  traces_validated=0, trace_states=0)
    distinct = set()
    first_nonconf = None
    for gen in gens:
        binp = lib.go_module(scr, "lazymap", gen)
        d = scr.sub("run-" + gen)
        json.dump(runs, open(os.path.join(d, "runs.json"), "w"))
        code, out, err, wall = lib.run_bin(binp, ["-in", os.path.join(d, "runs.json"), "-events", os.path.join(d, "events.ndjson"),
                                                  "-results", os.path.join(d, "results.ndjson"), "-seed", str(seed)], timeout=3000)
        if code != 0:
            # a Go runtime panic raised inside the map's own code (first goroutine of the dump has a lazymap.go frame, e.g.
            # "sync: WaitGroup is reused before previous Wait has returned") is behaviour of the map, not of the harness
            pan = err.find("panic: ")
            first = err[pan:].split("\n\ngoroutine ")[0:2] if pan >= 0 else []
            if pan >= 0 and any("/d2/lazymap/lazymap.go" in b for b in first) and "main.go" not in first[0]:
                last = []
                if os.path.exists(os.path.join(d, "events.ndjson")):
                    for ln in open(os.path.join(d, "events.ndjson"), errors="replace"):
                        try:                      # the file ends in a torn line when the process died
                            e = json.loads(ln)
                        except ValueError:
                            continue
                        if e.get("ev") == "reset":
                            last.append(e)
                rid = last[-1]["run"] if last else "?"
                byid = {r_["id"]: r_ for r_ in runs}
                verdict.add("C18/panic-inside-map/" + gen, "the real lazy map panicked during run %s: %s" % (rid, err[pan:pan + 300].replace("\n", " | ")),
                            dict(gen=gen, run=rid, prog=byid.get(rid, {}).get("prog"), sched=byid.get(rid, {}).get("sched", []), panic=err[pan:pan + 1500]))
                continue
            raise lib.Broken("lazymap controller failed (%s): %s" % (gen, err[-2000:]))
        results = lib.read_ndjson(os.path.join(d, "results.ndjson"))
        events = lib.read_ndjson(os.path.join(d, "events.ndjson"))
        stalled = set()
        for r in results:
            if r["mode"] == "dfs-budget":
                continue
            totals["executions"] += 1
            mode = r["mode"]
            totals[mode] = totals.get(mode, 0) + 1
            if r.get("prog"):
                distinct.add((sig(r["prog"]), tuple(r.get("sched") or [])))
            totals["gate_steps"] += r.get("steps", 0) if r.get("mode") == "forced" else 0
            totals["gate_mismatch"] += r.get("gate_mismatch", 0)
            if r.get("gate_mismatch") and first_nonconf is None:
                first_nonconf = dict(gen=gen, run=r["id"], what=r.get("first_gate_mismatch"))
            if r.get("outcome_mismatch"):
                totals["outcome_mismatch"] += 1
                if first_nonconf is None:
                    first_nonconf = dict(gen=gen, run=r["id"], what=r["outcome_mismatch"])
            if r.get("stall"):
                stalled.add(r["id"])
                case = dict(gen=gen, prog=r["prog"], sched=r.get("sched") or [], stall=r["stall"])
                if "WaitGroup.Wait" in r["stall"] or "LazySyncMap" in r["stall"]:
                    if "done=true" in r["stall"] and not r.get("deadlock"):
                        verdict.add("C18/blocks-after-computation-returned/" + gen,
                                    "a waiter stays blocked although the computation it waits for has returned: " + r["stall"], case)
                    else:
                        verdict.add("C18/deadlock/" + gen, "goroutines blocked forever: " + r["stall"], case)
                else:
                    raise lib.Broken("controller stall outside WaitGroup.Wait: %s" % r["stall"])
        # cut stalled executions out of the history, then validate the rest against the atomic map
        evs, keep = [], True
        for e in events:
            if e.get("ev") == "reset":
                keep = e["run"] not in stalled
            if keep:
                evs.append(e)
        runs_by_id = {}
        for r in results:
            runs_by_id[r["id"]] = r
        n_ok, rejected, nstates = lib.validate_traces(sdir, "Trace_LazyMap.tla", "Trace_LazyMap.cfg", evs)
        totals["traces_validated"] += n_ok
        totals["trace_states"] += nstates
        for rj in rejected:
            rid = rj["events"][0].get("run")
            rr = runs_by_id.get(rid, {})
            verdict.add("C18/history-not-linearizable/%s/%s" % (gen, sig(rr.get("prog", []))),
                        "history of the real lazy map is not a behaviour of an atomic compute-if-absent map "
                        "(event %d: %s)" % (rj["line"], json.dumps(rj["event"])),
                        dict(gen=gen, prog=rr.get("prog"), sched=rr.get("sched"), history=rj["events"]))
        if gen == "v2" and results:
            ex = [r for r in results if r["mode"] == "forced"][:1] + [r for r in results if r["mode"] == "dfs"][:1]
            for r in ex:
                cov["samples"].append(dict(run=r["id"], prog=sig(r["prog"]), sched=r["sched"], gates=r["gates"]))
            cov["samples"].append(dict(history=[e for e in events[:14]]))

    cov.update(totals)
    cov["traces_validated_against_impl"] = totals["traces_validated"]
    cov["evaluations"] = totals["executions"]
    cov["distinct_nontrivial"] = len([d for d in distinct if len(d[1]) > 0])
    cov["rule"] = ("one execution = (program, schedule) run on the real map under the gate controller (or free-running); "
                   "distinct = distinct (program, schedule of goroutine ids) pairs; free-running executions are not counted as distinct")
    cov["nonconformance"] = first_nonconf
    cov["exhaustive"] = False
    cov["generations"] = gens
    code, n = verdict.finish()
    if first_nonconf and code == 0:
        print("NONCONFORMANCE (no property violation observed): %s" % json.dumps(first_nonconf))
    if replay:
        return code
    lib.write_evidence(PROP, tier, seed, cov, [
        "TLC explores LazyMap.tla exhaustively only for the programs of the bound (2 goroutines x <=2 ops, 3 x 1; 2 keys)",
        "the gate controller sequentialises the real execution at the verif yield points; sync.Map and WaitGroup themselves are trusted",
        "verdicts come from real executions only: a history rejected by the atomic-map trace specification, or a goroutine blocked in WaitGroup.Wait",
    ], time.time() - t0, n)
    return code
