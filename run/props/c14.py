"""C14 - query tunnelling is transparent."""
import json, os, time
import lib

PROP = "C14"


def run(tier, seed, replay):
    t0 = time.time()
    scr = lib.Scratch("c14")
    sdir = lib.spec_dir(scr)
    verdict = lib.Verdict(PROP)
    cov = dict(samples=[])
    r = lib.run_tlc(sdir, "MC_Tunnel.tla", "MC_Tunnel_%s.cfg" % tier, timeout=3000)
    if not r.ok:
        raise lib.Broken("Tunnel.tla: %s violated -- the specification itself is wrong" % r.violated)
    rows = sorted(set(json.loads(x) for x in r.printed))
    rf = os.path.join(scr.path, "rows.ndjson")
    with open(rf, "w") as f:
        for x in rows:
            f.write(x + "\n")
    cov["tlc"] = r.summary()
    cov["states"] = r.distinct
    cov["transitions"] = r.generated
    cov["exchanges_exported"] = len(rows)
    cov["samples"].append(json.loads(rows[len(rows) // 2]))
    totals = dict(replayed=0, skipped=0, traces=0)
    for gen in ("v2", "root"):
        binp = lib.go_module(scr, "tunnel", gen)
        code, out, err, wall = lib.run_bin(binp, ["-mode", "replay", "-in", rf], timeout=3000)
        if code != 0:
            raise lib.Broken("tunnel harness failed (%s): %s" % (gen, err[-3000:]))
        for line in out.splitlines():
            o = json.loads(line)
            if o["kind"] == "violation":
                verdict.add(o["key"], o["what"], dict(gen=gen, **o["case"]))
            elif o["kind"] == "stats":
                totals["replayed"] += o["rows"]; totals["skipped"] += o["skipped_unconstructible"]
        trf = os.path.join(scr.path, "trace-%s.ndjson" % gen)
        n = 3000 if tier == "quick" else 60000
        code, out, err, wall = lib.run_bin(binp, ["-mode", "record", "-trace", trf, "-seed", str(seed), "-n", str(n)], timeout=3000)
        if code != 0:
            raise lib.Broken("tunnel record failed (%s): %s" % (gen, err[-3000:]))
        evs = lib.read_ndjson(trf)
        n_ok, rejected, nst = lib.validate_traces(sdir, "Trace_Tunnel.tla", "Trace_Tunnel.cfg", evs, is_reset=lambda e: True)
        totals["traces"] += n_ok
        for rj in rejected:
            e = rj["event"]
            verdict.add("C14/trace-rejected/%s" % e.get("edit"), "an observed exchange is not admitted by the tunnelling specification: %s" % json.dumps(e),
                        dict(gen=gen, event=e))
        if gen == "v2" and evs:
            cov["samples"].append(evs[0])
    cov.update(totals)
    cov["traces_validated_against_impl"] = totals["traces"]
    cov["evaluations"] = totals["replayed"]
    cov["distinct_nontrivial"] = len(rows)
    cov["rule"] = "one case = (verb, query over 7 tokens up to the bound, body, threshold 0..7, damage) as enumerated by TLC; cases that cannot be built through the public request constructors (POST/PUT without body) are skipped and counted"
    cov["exhaustive"] = True
    code, nv = verdict.finish()
    if replay:
        return code
    lib.write_evidence(PROP, tier, seed, cov, [
        "multipart framing is mime/multipart (standard library) and is abstracted as a part list in the model; the replay uses real bytes",
        "requests are built through NewGetRequest / NewDeleteRequest / NewJsonRequest; Content-Length and Go-internal request fields are not compared",
    ], time.time() - t0, nv)
    return code
