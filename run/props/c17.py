"""C17 - shared objects are safe for concurrent use and requests do not interfere."""
import json, os, re, time
import lib

PROP = "C17"


def races(stderr):
    """Race detector reports: one key per pair of top frames inside the repository."""
    out = []
    for rep in re.findall(r"WARNING: DATA RACE(.*?)==================", stderr, flags=re.S):
        frames = re.findall(r"\n\s+(\S+\(\))\n\s+(" + re.escape(lib.REPO) + r"/\S+?):(\d+)", rep)
        where = frames[0] if frames else ("?", "?", "0")
        key = "C17/data-race/%s:%s" % (os.path.relpath(where[1], lib.REPO) if where[1] != "?" else "?", where[0].split("/")[-1])
        out.append((key, rep.strip()[:1500]))
    return out


def crashed(verdict, what, code, err, gen):
    """A harness that dies is normally a broken check (exit 2) -- unless the Go runtime itself says why: an unsynchronised
    map access (fatal, not recoverable) or a race report are behaviours of the library under the concurrent driver."""
    rs = races(err)
    m = re.search(r"fatal error: (concurrent map [a-z ]+)", err)
    if m:
        fr = re.findall(r"\n(github\.com/PapaCharlie/go-restli/\S+?)\(", err)
        verdict.add("C17/fatal/%s/%s" % (m.group(1).replace(" ", "-"), fr[0].split("/")[-1] if fr else "?"),
                    "the Go runtime aborted the process: %s (first library frame %s)" % (m.group(1), fr[0] if fr else "?"), dict(gen=gen, stderr=err[-3000:]))
        return rs
    if rs:
        return rs
    raise lib.Broken("%s failed with exit %d (%s): %s" % (what, code, gen, err[-2000:]))


def run(tier, seed, replay):
    t0 = time.time()
    scr = lib.Scratch("c17")
    sdir = lib.spec_dir(scr)
    verdict = lib.Verdict(PROP)
    cov = dict(samples=[])
    totals = {}
    env = {"GORACE": "halt_on_error=0"}
    # the sequential specifications are the reference: Router.tla's decision table (re-exported), D2.tla, Server.tla
    r = lib.run_tlc(sdir, "MC_RouterExport.tla", "MC_RouterExport_quick.cfg", workers=8, timeout=3000)
    if not r.ok:
        raise lib.Broken("Router export failed")
    rows = [json.loads(x) for x in r.printed]
    trees = [json.loads(x) for x in rows if x.startswith('{"trees"')]
    rows = [x for x in rows if not x.startswith('{"trees"')]
    import random
    rng = random.Random(seed)
    rows = rng.sample(rows, 2500 if tier == "quick" else 12000)
    tf = os.path.join(scr.path, "trees.json")
    json.dump(trees[0]["trees"], open(tf, "w"))
    rf = os.path.join(scr.path, "rows.ndjson")
    with open(rf, "w") as f:
        for x in rows:
            f.write(x + "\n")
    cov["tlc"] = r.summary()
    cov["states"] = r.distinct
    cov["transitions"] = r.generated
    cov["samples"].append(json.loads(rows[0]))
    race_keys = {}
    for gen in ("v2", "root"):
        # (1) one handler per mounting, 16 goroutines sending the model's requests concurrently; every outcome is compared
        #     with the outcome the sequential specification assigns to that request alone
        binp = lib.go_module(scr, "router", gen, race=True)
        trf = os.path.join(scr.path, "trace-%s.ndjson" % gen)
        code, out, err, wall = lib.run_bin(binp, ["-trees", tf, "-rows", rf, "-trace", trf, "-trace-every", "23"], timeout=3000, env=env)
        if code not in (0, 66):
            raise lib.Broken("router harness (race build) failed (%s): %s" % (gen, err[-2000:]))
        for k, rep in races(err):
            race_keys.setdefault(k, rep)
        for line in out.splitlines():
            o = json.loads(line)
            if o["kind"] == "violation":
                verdict.add("C17/router/" + o["key"], "under concurrency: " + o["what"], dict(gen=gen, **o["case"]))
            elif o["kind"] == "stats":
                totals["router_requests"] = totals.get("router_requests", 0) + o["counters"]["Requests"]
        evs = lib.read_ndjson(trf)
        if evs:
            n_ok, rejected, nst = lib.validate_traces(sdir, "Trace_Router.tla", "Trace_Router_quick.cfg", [dict(ev="reset")] + evs)
            totals["trace_events_validated"] = totals.get("trace_events_validated", 0) + (len(evs) if not rejected else 0)
            for rj in rejected:
                verdict.add("C17/router/trace-rejected", "a request served concurrently got an outcome Router.tla does not admit: %s" % json.dumps(rj["event"]), dict(gen=gen))
        # (2) D2 resolver, shared error object, one client, custom-typeref registry
        binp = lib.go_module(scr, "conc", gen, race=True)
        for procs in ((2, 16) if tier == "quick" else (1, 2, 4, 16)):
            code, out, err, wall = lib.run_bin(binp, ["-n", "8" if tier == "quick" else "16", "-iters", "300" if tier == "quick" else "1500", "-procs", str(procs)],
                                               timeout=3000, env=env)
            if code not in (0, 66):
                for k, rep in crashed(verdict, "conc harness", code, err, gen):
                    race_keys.setdefault(k, rep)
                continue
            for k, rep in races(err):
                race_keys.setdefault(k, rep)
            for line in out.splitlines():
                o = json.loads(line)
                if o["kind"] == "violation":
                    verdict.add(o["key"], o["what"], dict(gen=gen))
                elif o["kind"] == "stats":
                    for k, v in o["stats"].items():
                        totals[k] = totals.get(k, 0) + v
        # (3) lazy map, free-running goroutines
        binp = lib.go_module(scr, "lazymap", gen, race=True)
        d = scr.sub("lm-" + gen)
        ops = ["los", "load", "store"]
        runs = [dict(id="free-%d" % i, prog=[[dict(type=rng.choice(ops), key=rng.choice([1, 1, 2])) for _ in range(2)] for _ in range(3)], mode="free", count=3)
                for i in range(100 if tier == "quick" else 1000)]
        json.dump(runs, open(os.path.join(d, "runs.json"), "w"))
        code, out, err, wall = lib.run_bin(binp, ["-in", os.path.join(d, "runs.json"), "-events", os.path.join(d, "ev.ndjson"), "-results", os.path.join(d, "res.ndjson"), "-seed", str(seed)],
                                           timeout=3000, env=env)
        if code not in (0, 66):
            raise lib.Broken("lazymap harness (race build) failed: %s" % err[-2000:])
        for k, rep in races(err):
            race_keys.setdefault(k, rep)
        totals["lazymap_executions"] = totals.get("lazymap_executions", 0) + len(runs) * 3
    for k, rep in race_keys.items():
        verdict.add(k, "the race detector reports a data race on an execution of the shared object:\n" + rep, dict(report=rep))
    cov.update(totals)
    cov["race_reports"] = len(race_keys)
    cov["traces_validated_against_impl"] = totals.get("trace_events_validated", 0)
    cov["evaluations"] = sum(v for k, v in totals.items() if k != "trace_events_validated")
    cov["distinct_nontrivial"] = len(rows)
    cov["rule"] = "one case = one request / resolution / call / map operation executed while 8-16 other goroutines use the same handler, client, resolver, registry or map; distinct counts the distinct model requests sent to the shared handler"
    cov["exhaustive"] = False
    code, nv = verdict.finish()
    lib.write_evidence(PROP, tier, seed, cov, [
        "data-race freedom under Go's memory model is not expressible in the TLA+ specifications: the race detector (-race builds of the harnesses) observes the executions whose outcomes the sequential specifications validate",
        "interleavings are those the Go scheduler produces for the given GOMAXPROCS values; no systematic schedule enumeration here (C18 does that for the lazy map)",
    ], time.time() - t0, nv)
    return code
