"""C08 - error and status propagation from resource code to the calling client."""
import json, os, time
import lib

PROP = "C08"


def run(tier, seed, replay):
    t0 = time.time()
    scr = lib.Scratch("c08")
    sdir = lib.spec_dir(scr)
    verdict = lib.Verdict(PROP)
    cov = dict(samples=[])
    r = lib.run_tlc(sdir, "MC_Server.tla", "MC_Server.cfg", workers=4, timeout=3000)
    if not r.ok:
        raise lib.Broken("Server.tla: %s violated -- the specification itself is wrong" % r.violated)
    rows = sorted(set(json.loads(x) for x in r.printed))
    rf = os.path.join(scr.path, "rows.ndjson")
    with open(rf, "w") as f:
        for x in rows:
            f.write(x + "\n")
    cov["tlc"] = r.summary()
    cov["states"] = r.distinct
    cov["transitions"] = r.generated
    cov["rows_exported"] = len(rows)
    cov["samples"].append(json.loads(rows[len(rows) // 2]))
    totals = dict(replayed=0, skipped=0, traces=0)
    for gen in ("v2", "root"):
        binp = lib.go_module(scr, "server", gen)
        trf = os.path.join(scr.path, "trace-%s.ndjson" % gen)
        reps = 1 if tier == "quick" else 5
        for rep in range(reps):
            code, out, err, wall = lib.run_bin(binp, ["-in", rf, "-trace", trf], timeout=3000)
            if code != 0:
                raise lib.Broken("server harness failed (%s): %s" % (gen, err[-3000:]))
            for line in out.splitlines():
                o = json.loads(line)
                if o["kind"] == "violation":
                    verdict.add(o["key"], o["what"], dict(gen=gen, **o["case"]))
                elif o["kind"] == "stats":
                    totals["replayed"] += o["rows"]; totals["skipped"] += o["skipped"]
        evs = lib.read_ndjson(trf)
        n_ok, rejected, nst = lib.validate_traces(sdir, "Trace_Server.tla", "Trace_Server.cfg", evs, is_reset=lambda e: True, max_rounds=12)
        totals["traces"] += n_ok
        for rj in rejected:
            e = rj["event"]
            verdict.add("C08/trace-rejected/%s/%s" % (e.get("outcome"), e.get("adapter")),
                        "an observed exchange is not a behaviour of Server.tla: %s" % json.dumps(e), dict(gen=gen, event=e))
        if gen == "v2" and evs:
            cov["samples"].append(evs[0])
    cov.update(totals)
    cov["traces_validated_against_impl"] = totals["traces"]
    cov["evaluations"] = totals["replayed"]
    cov["distinct_nontrivial"] = len(rows)
    cov["rule"] = "one case = (adapter kind, outcome of the resource implementation: value / overridden status / nil entity / error response with each subset of {status, message, code, exceptionClass, details} / other error / panic), run over a real connection"
    cov["exhaustive"] = True
    code, nv = verdict.finish()
    if replay:
        return code
    lib.write_evidence(PROP, tier, seed, cov, [
        "the resource, path and entity types are the harness's (generic Register* functions and generic client functions), not generated bindings",
        "root module: its ErrorResponse has only status / message / exceptionClass; rows using other fields are skipped there",
        "concurrent sharing of one error object is exercised under C17",
    ], time.time() - t0, nv)
    return code
