"""C09 - deterministic, canonical serialization (v2)."""
import json, os, time
import lib
from props import codec_common

PROP = "C09"


def run(tier, seed, replay):
    t0 = time.time()
    scr = lib.Scratch("c09")
    sdir = lib.spec_dir(scr)
    verdict = lib.Verdict(PROP)
    cov = dict(samples=[])
    r = lib.run_tlc(sdir, "MC_Writer.tla", "MC_Writer.cfg", workers=8, timeout=1200)
    if not r.ok:
        raise lib.Broken("Writer.tla: %s violated -- the specification itself is wrong" % r.violated)
    perms = sorted(set(json.loads(x) for x in r.printed))
    pf = os.path.join(scr.path, "perms.ndjson")
    with open(pf, "w") as f:
        for x in perms:
            f.write(x + "\n")
    r2, rows, rf, resf = codec_common.export_values(scr, sdir)
    cov["tlc"] = dict(writer=r.summary(), values=r2.summary())
    cov["states"] = r.distinct + r2.distinct
    cov["transitions"] = r.generated + r2.generated
    cov["supply_orders_exported"] = len(perms)
    cov["values_exported"] = len(rows)
    cov["samples"].append(json.loads(perms[len(perms) // 2]))
    binp = lib.go_module(scr, "codec", "v2", extra_src=lambda d: lib.vt_bindings(scr, d))
    moddir = os.path.dirname(binp)
    digests = []
    totals = {}
    nproc = 3 if tier == "quick" else 12
    for i in range(nproc):     # fresh processes: different map hash seeds
        code, out, err, wall = lib.run_bin(binp, ["-mode", "c09", "-in", rf, "-aux", pf, "-reserved", resf, "-seed", str(seed), "-order", str(i)], timeout=3000, cwd=moddir)
        if code != 0:
            raise lib.Broken("codec harness (c09) failed: %s" % err[-3000:])
        for line in out.splitlines():
            o = json.loads(line)
            if o["kind"] == "violation":
                verdict.add(o["key"], o["what"], o["case"])
            elif o["kind"] == "stats":
                digests.append(o["digests"])
                for k, v in o["stats"].items():
                    totals[k] = totals.get(k, 0) + v
    for fl in sorted(set(k for d in digests for k in d)):
        vals = set(d.get(fl) for d in digests)
        if len(vals) != 1:
            verdict.add("C09/output-differs-between-processes/" + fl, "the bytes the %s flavour produces for the same values differ between fresh processes (which use the flavours in different orders): digests %s" % (fl, sorted(map(str, vals))), dict(flavour=fl, digests=digests))
    cov.update(totals)
    cov["fresh_processes"] = nproc
    cov["traces_validated_against_impl"] = 0
    cov["evaluations"] = totals.get("encodings", 0)
    cov["distinct_nontrivial"] = len(perms) + len(rows)
    cov["rule"] = "one case = one supply order of 1..4 keys (every permutation of every key subset, replayed through WriteMap of 5 writer flavours, BuildQueryParams and the batch key set) or one VT value encoded three times in each of 5 flavours; everything repeated in fresh processes that use the flavours in different orders, compared by per-flavour digest"
    cov["exhaustive"] = True
    code, nv = verdict.finish()
    lib.write_evidence(PROP, tier, seed, cov, [
        "v2 module only, as the property states",
        "batch ids are compared in decoded form; when a key contains a non-ASCII byte only permutation invariance is checked for the ids parameter (ids ascend in encoded form)",
    ], time.time() - t0, nv)
    return code
