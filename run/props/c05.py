"""C05 - routing and Rest.li method inference send each request to exactly one method."""
import json, os, time
import lib

PROP = "C05"


def run(tier, seed, replay):
    t0 = time.time()
    scr = lib.Scratch("c05")
    sdir = lib.spec_dir(scr)
    verdict = lib.Verdict(PROP)
    cov = dict(samples=[])
    tlc = {}

    # (A) TLC: the operational transcription of ServeHTTP/receive agrees with the declarative decision table on every
    # request of the bound against every tree
    r = lib.run_tlc(sdir, "MC_Router.tla", "MC_Router_%s.cfg" % tier, timeout=7200)
    if not r.ok:
        raise lib.Broken("Router.tla: %s violated -- operational and declarative layers disagree, the specification is wrong" % r.violated)
    tlc["check"] = r.summary()
    # (B) model -> code: export the decision table, replay every request on the real server
    r = lib.run_tlc(sdir, "MC_RouterExport.tla", "MC_RouterExport_%s.cfg" % tier, workers=8, timeout=7200)
    if not r.ok:
        raise lib.Broken("Router export failed: %s" % r.violated)
    tlc["export"] = r.summary()
    rows = [json.loads(x) for x in r.printed]
    trees = [json.loads(x) for x in rows if x.startswith('{"trees"')]
    rows = [x for x in rows if not x.startswith('{"trees"')]
    if len(trees) != 1 or not rows:
        raise lib.Broken("Router export: expected one trees line and rows, got %d / %d" % (len(trees), len(rows)))
    tf = os.path.join(scr.path, "trees.json")
    json.dump(trees[0]["trees"], open(tf, "w"))
    rf = os.path.join(scr.path, "rows.ndjson")
    with open(rf, "w") as f:
        for x in rows:
            f.write(x + "\n")
    cov["tlc"] = tlc
    cov["states"] = tlc["check"]["distinct_states"]
    cov["transitions"] = tlc["check"]["states_generated"]
    cov["rows_exported"] = len(rows)
    cov["samples"].append(json.loads(rows[len(rows) // 3]))

    # (C) the filter chain around a routed request: Filters.tla (operational loops = declarative promise), replayed
    rfl = lib.run_tlc(sdir, "MC_Filters.tla", "MC_Filters.cfg", workers=4, timeout=600)
    if not rfl.ok:
        raise lib.Broken("Filters.tla: %s violated -- the specification itself is wrong" % rfl.violated)
    tlc["filters"] = rfl.summary()
    ff = os.path.join(scr.path, "filters.ndjson")
    with open(ff, "w") as f:
        for x in rfl.printed:
            f.write(json.loads(x) + "\n")
    totals = {}
    for gen in ("v2", "root"):
        fb = lib.go_module(scr, "filters", gen)
        code, out, err, wall = lib.run_bin(fb, ["-in", ff], timeout=600)
        if code != 0:
            raise lib.Broken("filters harness failed (%s): %s" % (gen, err[-3000:]))
        for line in out.splitlines():
            o = json.loads(line)
            if o["kind"] == "violation":
                verdict.add(o["key"], o["what"], dict(gen=gen, **o["case"]))
            elif o["kind"] == "stats":
                for k, v in o["stats"].items():
                    totals[k] = totals.get(k, 0) + v
        binp = lib.go_module(scr, "router", gen)
        trf = os.path.join(scr.path, "trace-%s.ndjson" % gen)
        code, out, err, wall = lib.run_bin(binp, ["-trees", tf, "-rows", rf, "-trace", trf, "-trace-every", "97"], timeout=7200)
        if code != 0:
            raise lib.Broken("router harness failed (%s): %s" % (gen, err[-3000:]))
        for line in out.splitlines():
            o = json.loads(line)
            if o["kind"] == "violation":
                verdict.add(o["key"], o["what"], dict(gen=gen, **o["case"]))
            elif o["kind"] == "stats":
                for k, v in o["counters"].items():
                    totals[k] = totals.get(k, 0) + v
                for k, v in o["violation_counts"].items():
                    for vv in verdict.violations:
                        if vv["key"] == k:
                            vv["count"] = max(vv["count"], v)
        # (C) code -> model: sampled observed exchanges validated by TLC against the declarative layer
        evs = lib.read_ndjson(trf)
        if evs:
            n_ok, rejected, nst = lib.validate_traces(sdir, "Trace_Router.tla", "Trace_Router_%s.cfg" % tier, [dict(ev="reset")] + evs)
            totals["trace_events_validated"] = totals.get("trace_events_validated", 0) + (len(evs) if not rejected else 0)
            for rj in rejected:
                verdict.add("C05/trace-rejected", "an observed exchange is not admitted by Router.tla: %s" % json.dumps(rj["event"]),
                            dict(gen=gen, event=rj["event"]))
    cov.update(totals)
    cov["traces_validated_against_impl"] = totals.get("trace_events_validated", 0)
    cov["evaluations"] = totals.get("Requests", 0)
    cov["distinct_nontrivial"] = len(rows) * 27
    cov["rule"] = ("one case = one abstract request (tree, path, verb, method header, q, ids, action) of the bound; each is sent "
                   "plain and tunnelled to the bare handler and plain to the ServeMux / prefixed mountings, on both module generations")
    cov["exhaustive"] = True
    # the routing tree built by GENERATED RegisterResource functions (both generators): every call of the generated clients
    # of the VT resources, which Call.tla routes on the VT tree, must reach exactly the called method
    from props import e2e_common
    viol, st, rc = e2e_common.exchanges(scr, sdir, "C05/")
    for o in viol:
        verdict.add(o["key"], o["what"], o["case"])
    cov["generated_registration_calls"] = st.get("calls", 0)
    code, n = verdict.finish()
    if replay:
        return code
    lib.write_evidence(PROP, tier, seed, cov, [
        "resource trees are the model's (T0/T2 quick, T1/T2/T3 thorough), registered with the generic Register* functions and string keys",
        "requests whose routed method's keys/parameters cannot decode (empty key, missing ids) admit 400 as well",
        "ServeMux mountings skip paths with empty segments (ServeMux redirects them itself)",
        "filters: two passing recording filters on every server; failing / context-adding chains are replayed from Filters.tla",
        "generated registrations: the e2e exchanges of the VT resources (both generators) with plain argument content",
    ], time.time() - t0, n)
    return code
