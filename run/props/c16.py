"""C16 - batch calls correlate every response entry with the caller's original key."""
import json, os, time
import lib

PROP = "C16"


def run(tier, seed, replay):
    t0 = time.time()
    scr = lib.Scratch("c16")
    sdir = lib.spec_dir(scr)
    verdict = lib.Verdict(PROP)
    cov = dict(samples=[])
    r = lib.run_tlc(sdir, "MC_Batch.tla", "MC_Batch.cfg", timeout=1800)
    if not r.ok:
        raise lib.Broken("Batch.tla: %s violated -- the specification itself is wrong" % r.violated)
    rows = sorted(set(json.loads(x) for x in r.printed))
    # key sets of up to 3 keys (a duplicate behind a hash collision needs three), without adversarial replies
    rk = lib.run_tlc(sdir, "MC_Batch.tla", "MC_Batch_keys.cfg", timeout=1800)
    if not rk.ok:
        raise lib.Broken("Batch.tla (keys): %s violated" % rk.violated)
    keyrows = sorted(set(json.loads(x) for x in rk.printed) - set(rows))
    if tier == "quick":
        import random
        rng = random.Random(seed)
        dup = [x for x in rows if '"replied":false' in x]
        rest = [x for x in rows if '"replied":true' in x]
        rows = dup + rng.sample(rest, min(len(rest), 30000))
    rows = rows + keyrows
    bf = os.path.join(scr.path, "batch.ndjson")
    with open(bf, "w") as f:
        for x in rows:
            f.write(x + "\n")
    from props import e2e_common
    r2, crows = e2e_common.call_rows(sdir)
    crows = [x for x in crows if '"method":"batch_' in x]
    cov["tlc"] = r.summary()
    cov["tlc_keys"] = rk.summary()
    cov["states"] = r.distinct + rk.distinct
    cov["transitions"] = r.generated + rk.generated
    cov["behaviours_exported"] = len(rows)
    cov["samples"].append(json.loads(rows[len(rows) // 2]))

    totals = {}
    for gen, objs in e2e_common.e2e_runs(scr, crows, extra_args=["-c16", bf]):
        for o in objs:
            if o["kind"] == "violation":
                if o["key"].startswith("C16/"):
                    verdict.add(o["key"], o["what"], o["case"])
            elif o["kind"] == "stats":
                for k, v in o["stats"].items():
                    totals[k] = totals.get(k, 0) + v
    cov["generations"] = list(e2e_common.GENS)
    cov.update(totals)
    cov["traces_validated_against_impl"] = 0
    cov["evaluations"] = totals.get("c16_calls", 0) + totals.get("c16_behaviours", 0) + totals.get("calls", 0)
    cov["distinct_nontrivial"] = len(rows)
    cov["rule"] = "one case = one behaviour of Batch.tla: caller's list of <= 2 keys (<= 3 without adversarial reply) over 3 key parts (two of them colliding in the hash; contents 'a,b', 'a%2Cb', 'a b(:)'') x params, then an adversarial reply (each map any set of <= 2 wire keys over all parts, params and two escapings, including never-requested keys); replayed on the key set, the generated complex-key client and the generated string-key client; plus every honest batch call of C02 checked for key identity"
    cov["exhaustive"] = tier != "quick"
    code, nv = verdict.finish()
    lib.write_evidence(PROP, tier, seed, cov, [
        "a reply holding the same key twice in one map (two encodings of one key) is not a conforming reply and is not generated",
        "hash collisions are forced with a harness key type implementing the library's ComplexKey interface; generated key types use their real hash",
    ], time.time() - t0, nv)
    return code
