"""C20 - regeneration never touches files the generator does not own."""
import json, os, sys, time
import lib

PROP = "C20"


def run(tier, seed, replay):
    t0 = time.time()
    scr = lib.Scratch("c20")
    sdir = lib.spec_dir(scr)
    verdict = lib.Verdict(PROP)
    cov = dict(samples=[])
    tlc = {}
    rows = []
    cfgs = ["quick", "links"] if tier == "quick" else ["quick", "links", "wide"]
    for c in cfgs:
        r = lib.run_tlc(sdir, "MC_CleanDir.tla", "MC_CleanDir_%s.cfg" % c, timeout=3000)
        if not r.ok:
            raise lib.Broken("CleanDir.tla: %s violated -- operational and declarative layers disagree" % r.violated)
        tlc[c] = r.summary()
        rows += [json.loads(x) for x in r.printed]
    rows = sorted(set(rows))
    rf = os.path.join(scr.path, "rows.ndjson")
    with open(rf, "w") as f:
        for x in rows:
            f.write(x + "\n")
    cov["tlc"] = tlc
    cov["states"] = sum(v["distinct_states"] for v in tlc.values())
    cov["transitions"] = sum(v["states_generated"] for v in tlc.values())
    cov["trees_exported"] = len(rows)
    cov["samples"].append(json.loads(rows[len(rows) // 2]))
    totals = dict(replayed=0, traces=0)
    for gen in ("v2", "root"):
        binp = lib.go_module(scr, "cleandir", gen)
        base = scr.sub("fs-" + gen)
        code, out, err, wall = lib.run_bin(binp, ["-mode", "replay", "-in", rf, "-base", base], timeout=3000)
        if code != 0 and "fatal error: concurrent map" in err and "codegen/utils" in err:
            # independent directories cleaned side by side crashed inside the cleaning code (shared state there): the
            # property is about each tree, so the trees are replayed one at a time instead
            totals["serial_fallback"] = totals.get("serial_fallback", 0) + 1
            code, out, err, wall = lib.run_bin(binp, ["-mode", "replay", "-in", rf, "-base", base, "-workers", "1"], timeout=6000)
        if code != 0:
            raise lib.Broken("cleandir harness failed (%s): %s" % (gen, err[-3000:]))
        for line in out.splitlines():
            o = json.loads(line)
            if o["kind"] == "violation":
                verdict.add(o["key"], o["what"], dict(gen=gen, **o["case"]))
            elif o["kind"] == "stats":
                totals["replayed"] += o["rows"]
        trf = os.path.join(scr.path, "trace-%s.ndjson" % gen)
        n = 400 if tier == "quick" else 5000
        code, out, err, wall = lib.run_bin(binp, ["-mode", "record", "-out", trf, "-base", base, "-seed", str(seed), "-n", str(n)], timeout=3000)
        if code != 0:
            raise lib.Broken("cleandir record failed (%s): %s" % (gen, err[-3000:]))
        for line in out.splitlines():
            o = json.loads(line)
            if o["kind"] == "violation":
                verdict.add(o["key"], o["what"], dict(gen=gen, case=o["case"]))
        evs = lib.read_ndjson(trf)
        # every event is its own execution: a rejected line is cut out alone
        n_ok, rejected, nst = lib.validate_traces(sdir, "Trace_CleanDir.tla", "Trace_CleanDir.cfg", evs, is_reset=lambda e: True)
        totals["traces"] += n_ok
        for rj in rejected:
            verdict.add("C20/trace-rejected", "a cleaning observed on a random tree is not what CleanDir.tla computes: %s" % json.dumps(rj["event"])[:600],
                        dict(gen=gen, event=rj["event"]))
        if gen == "v2" and evs:
            cov["samples"].append(evs[0])
    # regeneration (last clause): the real generator run twice over its own output, in both output layouts, with a
    # hand-written custom typeref and user files beside the generated code
    from props import c12
    st = dict(generator_runs=0)
    c12.regen_layouts(scr, verdict, lib.go_module(scr, "gen", "v2"), PROP, st)
    totals["regenerations"] = st["generator_runs"]
    # a regeneration that FAILS half way (a plain user file sits where a package directory would have to be created) must
    # leave every file the generator does not own exactly as it was -- both generators
    import hashlib, subprocess
    sys.path.insert(0, os.path.join(lib.VERIF, "schemas"))
    import grammar
    for gen in ("v2", "root"):
        binp = lib.go_module(scr, "gen" if gen == "v2" else "genroot", gen)
        out = scr.sub("failing-regen-" + gen)
        user = {"README.md": "# mine\n", "gr": "a plain file named like the package directory\n", "keep/mine.go": "package keep\n", "keep/deep/notes.txt": "n\n"}
        for p_, c in user.items():
            os.makedirs(os.path.dirname(os.path.join(out, p_)) or out, exist_ok=True)
            with open(os.path.join(out, p_), "w") as f:
                f.write(c)
        types = [t for t in grammar.BASE_TYPES if list(t.values())[0]["name"] != "CT"]
        mf = os.path.join(scr.path, "failing-%s.json" % gen)
        if gen == "v2":
            json.dump({"packageRoot": "verifharness/gen", "inputDataTypes": types, "dependencyDataTypes": [], "resources": []}, open(mf, "w"))
            args = [binp, mf, out]
        else:
            json.dump({"dataTypes": grammar.flatten_includes(types), "Resources": []}, open(mf, "w"))
            args = [binp, mf, out, "verifharness/gen"]
        pr = subprocess.run(args, stdout=subprocess.PIPE, stderr=subprocess.STDOUT, text=True, errors="replace", timeout=600)
        totals["failing_regenerations"] = totals.get("failing_regenerations", 0) + 1
        if pr.returncode == 0:
            continue      # (the generator found a way around the obstacle: nothing to check)
        for p_, c in user.items():
            fp = os.path.join(out, p_)
            if not os.path.isfile(fp) or open(fp).read() != c:
                verdict.add("C20/failed-regeneration/user-file-touched/%s/%s" % (gen, p_),
                            "a regeneration that failed (%s) removed or changed %s, which the generator does not own" % (pr.stdout.strip().splitlines()[-1][:200] if pr.stdout.strip() else "no message", p_),
                            dict(gen=gen, file=p_))
    cov.update(totals)
    cov["traces_validated_against_impl"] = totals["traces"]
    cov["evaluations"] = totals["replayed"]
    cov["distinct_nontrivial"] = len(rows)
    cov["rule"] = "one case = one directory tree of the bound (depth <= 3, <= 2 entries per directory over generated file, manifest, user .go, other file, two directory names; x target given as a path or as '.'; plus the missing target), materialised on a real file system"
    cov["exhaustive"] = True
    code, nv = verdict.finish()
    if replay:
        return code
    lib.write_evidence(PROP, tier, seed, cov, [
        "an already-empty directory is removed like one emptied by the cleaning (the repository's own tests expect this)",
        "symbolic links, unreadable directories and a directory named like the manifest are not modelled",
        "regeneration: v2 generator, one schema set with a custom typeref, flat and package-root layouts",
    ], time.time() - t0, nv)
    return code
