"""C04 - decoder robustness: hostile input yields an error, never a panic, hang or 5xx."""
import json, os, time
import lib
from props import codec_common

PROP = "C04"


def run(tier, seed, replay):
    t0 = time.time()
    scr = lib.Scratch("c04")
    sdir = lib.spec_dir(scr)
    verdict = lib.Verdict(PROP)
    cov = dict(samples=[])
    tlc = {}
    # (A) Ror2Lex.tla: the cursor parser never indexes outside its input, on every string of the bound
    r = lib.run_tlc(sdir, "MC_Ror2Lex.tla", "MC_Ror2Lex_quick.cfg", timeout=3000)
    if not r.ok:
        raise lib.Broken("Ror2Lex.tla: %s violated -- the model of the (repaired) reader indexes out of range" % r.violated)
    tlc["quick"] = r.summary()
    model_rows = sorted(set(json.loads(x) for x in r.printed))
    mf = os.path.join(scr.path, "ror2lex.ndjson")
    with open(mf, "w") as f:
        for x in model_rows:
            f.write(x + "\n")
    if tier == "thorough":
        r2 = lib.run_tlc(sdir, "MC_Ror2Lex.tla", "MC_Ror2Lex_thorough.cfg", timeout=7200)
        if not r2.ok:
            raise lib.Broken("Ror2Lex.tla (thorough): %s violated" % r2.violated)
        tlc["thorough"] = r2.summary()
    cov["tlc"] = tlc
    cov["states"] = sum(v["distinct_states"] for v in tlc.values())
    cov["transitions"] = sum(v["states_generated"] for v in tlc.values())
    cov["samples"].append(json.loads(model_rows[len(model_rows) // 2]))
    totals = {}
    conf = {}
    lens = dict(quick=("5", "4", "4", "3", "3"), thorough=("7", "5", "6", "4", "4"))[tier]
    for gen in ("v2", "root"):
        binp = lib.go_module(scr, "robust", gen)
        code, out, err, wall = lib.run_bin(binp, ["-ror2-len", lens[0], "-json-len", lens[1], "-query-len", lens[2], "-http-seg-len", lens[3],
                                                  "-http-body-len", lens[4], "-model", mf], timeout=7200)
        if code not in (0, 3):
            raise lib.Broken("robust harness failed (%s): %s" % (gen, err[-3000:]))
        for line in out.splitlines():
            o = json.loads(line)
            if o["kind"] == "violation":
                verdict.add(o["key"], o["what"], dict(gen=gen, **o["case"]))
            elif o["kind"] == "stats":
                for k, v in o["stats"].items():
                    t = totals.setdefault(k, dict(Calls=0, Errors=0, Accepted=0, Panics=0))
                    for kk in t:
                        t[kk] += v[kk]
                conf[gen] = dict(agree=o["model_agree"], disagree=o["model_disagree"], first=o["first_disagreement"])
    # generated unmarshalers on mutations of valid encodings (v2 bindings)
    r3, vrows, vf, resf = codec_common.export_values(scr, sdir)
    binp = lib.go_module(scr, "codec", "v2", extra_src=lambda d: lib.vt_bindings(scr, d))
    code, out, err, wall = lib.run_bin(binp, ["-mode", "c04", "-in", vf, "-reserved", resf, "-seed", str(seed), "-aux", "9" if tier == "quick" else "1"],
                                       timeout=7200, cwd=os.path.dirname(binp))
    if code != 0:
        raise lib.Broken("codec harness (c04) failed: %s" % err[-3000:])
    gstats = {}
    for line in out.splitlines():
        o = json.loads(line)
        if o["kind"] == "violation":
            verdict.add(o["key"], o["what"], o["case"])
        elif o["kind"] == "stats":
            gstats = o["stats"]
    cov["entry_point_calls"] = totals
    cov["generated_unmarshaler_mutants"] = gstats
    cov["model_conformance"] = conf
    cov["traces_validated_against_impl"] = sum(c["agree"] for c in conf.values())
    cov["evaluations"] = sum(t["Calls"] for t in totals.values()) + gstats.get("mutants", 0)
    cov["distinct_nontrivial"] = sum(t["Calls"] for t in totals.values()) // 2 + gstats.get("mutants", 0)
    cov["rule"] = ("one case = (input, entry point): all strings of <= N tokens over the ROR2 / query / JSON delimiter alphabets x 17 reader entry points, "
                   "31 untyped Go values, every truncation and single-character delete / replace / insert of valid encodings through the generated unmarshalers, "
                   "the raw-record decoder and the untyped reader, and hostile bytes at every peer-controlled position of an HTTP exchange (server and client side); "
                   "distinct counts both module generations once")
    cov["exhaustive"] = True
    code, nv = verdict.finish()
    for gen, c in conf.items():
        if c["disagree"]:
            print("NONCONFORMANCE (no property violation): %s reader and Ror2Lex.tla disagree on accept/reject for %d inputs, e.g. %s" % (gen, c["disagree"], c["first"]))
    lib.write_evidence(PROP, tier, seed, cov, [
        "pass = the call returned without panic within the watchdog limit; whether an ill-formed string is accepted or rejected is recorded, never judged",
        "coverage-guided mutation (native fuzzing) is another technique and is not used",
        "a read beyond len(data) that Go does not turn into a panic (slice within capacity) is only excluded by the model (InBounds), not observed",
    ], time.time() - t0, nv)
    return code
