"""C13 - schema default values are applied, never override data, never shared."""
import json, os, time
import lib
from props import codec_common

PROP = "C13"


def run(tier, seed, replay):
    t0 = time.time()
    scr = lib.Scratch("c13")
    sdir = lib.spec_dir(scr)
    verdict = lib.Verdict(PROP)
    cov = dict(samples=[])
    r = lib.run_tlc(sdir, "MC_Defaults.tla", "MC_Defaults.cfg", workers=8, timeout=1200)
    if not r.ok:
        raise lib.Broken("Values.tla (defaults): %s violated -- the specification itself is wrong" % r.violated)
    rows = sorted(set(json.loads(x) for x in r.printed))
    rf = os.path.join(scr.path, "defaults.ndjson")
    with open(rf, "w") as f:
        for x in rows:
            f.write(x + "\n")
    r2, vrows, vf, resf = codec_common.export_values(scr, sdir)
    cov["tlc"] = dict(defaults=r.summary(), reserved_table=r2.summary())
    cov["states"] = r.distinct
    cov["transitions"] = r.generated
    cov["documents_exported"] = len(rows)
    cov["samples"].append(json.loads(rows[len(rows) // 2]))
    totals = {}
    seeds = [seed] if tier == "quick" else [seed + i for i in range(5)]
    # both module generations: bindings from the current v2 generator, and from the current root generator
    for gen in ("v2", "root"):
        binp = lib.go_module(scr, "codec", gen, extra_src=(lambda d: lib.vt_bindings(scr, d)) if gen == "v2" else (lambda d: lib.vt_bindings_root(scr, d, with_resources=True)))
        moddir = os.path.dirname(binp)
        for sd in seeds:
            code, out, err, wall = lib.run_bin(binp, ["-mode", "c13", "-in", rf, "-reserved", resf, "-seed", str(sd)], timeout=3000, cwd=moddir)
            if code != 0:
                raise lib.Broken("codec harness (c13, %s) failed: %s" % (gen, err[-3000:]))
            for line in out.splitlines():
                o = json.loads(line)
                if o["kind"] == "violation":
                    key = o["key"] if gen == "v2" else o["key"].replace("C13/", "C13/root/", 1)
                    verdict.add(key, ("" if gen == "v2" else "[root generation] ") + o["what"], dict(o["case"], gen=gen))
                elif o["kind"] == "stats":
                    for k, v in o["stats"].items():
                        totals[k] = totals.get(k, 0) + v
    cov["generations"] = ["v2", "root"]
    cov.update(totals)
    cov["traces_validated_against_impl"] = 0
    cov["evaluations"] = totals.get("decodings", 0) + totals.get("constructors", 0)
    cov["distinct_nontrivial"] = len(rows)
    cov["rule"] = "one case = (record of the VT family with defaulted fields -- own, nested, inherited through one or two includes --, subset of the defaulted fields omitted), decoded by 5 readers; plus the default constructor of each such record; plus mutation of default-populated containers"
    cov["exhaustive"] = True
    code, nv = verdict.finish()
    lib.write_evidence(PROP, tier, seed, cov, [
        "default literals are those of schemas/vt.py (every primitive incl. escapes and an int64 beyond 2^53, enum, fixed, typeref, record, union, empty and non-empty array / map)",
    ], time.time() - t0, nv)
    return code
