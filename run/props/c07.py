"""C07 - read-only / create-only field exclusion is exact on both encode and decode."""
import json, os, time
import lib
from props import codec_common

PROP = "C07"


def run(tier, seed, replay):
    t0 = time.time()
    scr = lib.Scratch("c07")
    sdir = lib.spec_dir(scr)
    verdict = lib.Verdict(PROP)
    cov = dict(samples=[])
    r1 = lib.run_tlc(sdir, "MC_PathSpec.tla", "MC_PathSpec.cfg", timeout=1800)
    if not r1.ok:
        raise lib.Broken("PathSpec.tla: %s violated -- trie walk and declarative matching disagree" % r1.violated)
    mrows = sorted(set(json.loads(x) for x in r1.printed))
    mf = os.path.join(scr.path, "matches.ndjson")
    with open(mf, "w") as f:
        for x in mrows:
            f.write(x + "\n")
    r2 = lib.run_tlc(sdir, "MC_Exclusion.tla", "MC_Exclusion.cfg", timeout=1800)
    if not r2.ok:
        raise lib.Broken("PathSpec.tla (Strip): %s violated" % r2.violated)
    erows = sorted(set(json.loads(x) for x in r2.printed))
    ef = os.path.join(scr.path, "excl.ndjson")
    with open(ef, "w") as f:
        for x in erows:
            f.write(x + "\n")
    r3, vrows, vf, resf = codec_common.export_values(scr, sdir)
    cov["tlc"] = dict(matches=r1.summary(), exclusion=r2.summary())
    cov["states"] = r1.distinct + r2.distinct
    cov["transitions"] = r1.generated + r2.generated
    cov["match_cases_exported"] = len(mrows)
    cov["documents_exported"] = len(erows)
    cov["samples"].append(json.loads(mrows[len(mrows) // 3]))
    totals = {}
    for gen, binp, moddir, rekey in codec_common.codec_bins(scr, PROP):     # bindings from both generators
        code, out, err, wall = lib.run_bin(binp, ["-mode", "c07", "-in", ef, "-aux", mf, "-reserved", resf, "-seed", str(seed)], timeout=3000, cwd=moddir)
        if code != 0:
            raise lib.Broken("codec harness (c07, %s) failed: %s" % (gen, err[-3000:]))
        for line in out.splitlines():
            o = json.loads(line)
            if o["kind"] == "violation":
                verdict.add(rekey(o["key"]), ("" if gen == "v2" else "[root generation] ") + o["what"], dict(o["case"], gen=gen))
            elif o["kind"] == "stats":
                for k, v in o["stats"].items():
                    totals[k] = totals.get(k, 0) + v
                for k, v in o["violation_counts"].items():
                    for vv in verdict.violations:
                        if vv["key"] == rekey(k):
                            vv["count"] = v
    cov["generations"] = ["v2", "root"]
    # wire level: generated client and server of collStr (readOnly / createOnly annotations) through the e2e harness
    from props import e2e_common
    r4, crows = e2e_common.call_rows(sdir)
    for gen, objs in e2e_common.e2e_runs(scr, crows[:50]):
        for o in objs:
            if o["kind"] == "violation" and o["key"].startswith("C07/"):
                verdict.add(o["key"], o["what"], o["case"])
            elif o["kind"] == "stats":
                totals["wire_client_calls"] = totals.get("wire_client_calls", 0) + o["stats"].get("c07_client_calls", 0)
                totals["wire_server_probes"] = totals.get("wire_server_probes", 0) + o["stats"].get("c07_server_probes", 0)
    cov.update(totals)
    cov["traces_validated_against_impl"] = 0
    cov["evaluations"] = sum(totals.values())
    cov["distinct_nontrivial"] = len(mrows) + len(erows)
    cov["rule"] = "one case = (set of <= 2 directives of depth <= 3 over {f, g, *}, scope of depth <= 4 over {f, g, h, array}) for Matches; or (document of Ent / Nest with a subset of its fields removed, one of 19 exclusion specs) encoded by 3 writers and decoded by 3 readers plus 2 leading-scope offsets"
    cov["exhaustive"] = True
    code, nv = verdict.finish()
    lib.write_evidence(PROP, tier, seed, cov, [
        "no meaning is assigned to Matches on scopes containing $set / $delete (partial updates are covered end to end by C11 and by the wire-level part of C02)",
        "wire level: the generated client and server of the annotated resource collStr; 11 client calls (create, batch_create, update, batch_update with every excluded field set; 7 partial updates touching excluded fields) and 20 server probes",
    ], time.time() - t0, nv)
    return code
