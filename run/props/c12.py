"""C12 - code generation is total, deterministic and yields compilable bindings.

Model side: Registry.tla (cycle flagging and name-clash resolution, every reference graph of the bound; TLC checks that
the resulting package graph is acyclic, generation is total and the run is the canonical one) and SchemaGrammar.tla
(every type constructor in every position, every method kind on every resource kind and key type).
Code side: every exported graph / grammar item becomes a manifest for /repo's CURRENT generators (v2 and root), run in
several fresh processes; outputs are compared byte for byte with each other and with the layout the model computes,
and compiled against the working tree.  The checked-in bindings are regenerated and compared.
"""
import concurrent.futures as cf
import hashlib, json, os, random, re, shutil, subprocess, sys, time
import lib

sys.path.insert(0, os.path.join(lib.VERIF, "schemas"))
import grammar  # noqa: E402

PROP = "C12"
MODS = {
    "v2": ("github.com/PapaCharlie/go-restli/v2", "v2.0.0-00010101000000-000000000000", os.path.join(lib.REPO, "v2")),
    "root": ("github.com/PapaCharlie/go-restli", "v0.0.0-00010101000000-000000000000", lib.REPO),
}


def digest(d):
    out = {}
    for r, _, fs in os.walk(d):
        for f in fs:
            p = os.path.join(r, f)
            out[os.path.relpath(p, d)] = hashlib.sha256(open(p, "rb").read()).hexdigest()
    return out


def new_module(scr, gen, name):
    d = scr.sub(name)
    mod, ver, path = MODS[gen]
    with open(os.path.join(d, "go.mod"), "w") as f:
        f.write("module verifharness\n\ngo 1.21\n\nrequire %s %s\n\nreplace %s => %s\n" % (mod, ver, mod, path))
    shutil.copy(os.path.join(path, "go.sum"), os.path.join(d, "go.sum"))
    return d


def generate(binp, gen, manifest, out, pkgroot):
    """One fresh generator process.  Returns (exit code, log)."""
    args = [binp, manifest, out] + ([pkgroot] if gen == "root" else [])
    p = subprocess.run(args, stdout=subprocess.PIPE, stderr=subprocess.STDOUT, text=True, errors="replace", timeout=600)
    return p.returncode, p.stdout


def to_gen_format(gen, m):
    return m if gen == "v2" else {"dataTypes": m["inputDataTypes"], "Resources": []}


def go_build(d, what="./..."):
    # -e: every compile error, not just the first ten of a package (a root cause must not hide another behind "too many errors")
    p = lib.go_run(["go", "build", "-gcflags=-e", what], d)
    lib.no_space(p.stdout)
    return p.returncode, p.stdout


def go_vet(d, what="./..."):
    p = lib.go_run(["go", "vet", what], d)
    return p.returncode, p.stdout


# ----------------------------------------------------------------------------------------------- graphs

def graph_id(g):
    return "|".join("%s.%s>%s" % (".".join(g["ns"][t]), "".join(g["nm"][t]), ",".join(sorted(g["refs"][t]))) for t in sorted(g["refs"]))


def expected_layout(gen, row):
    """Generated type files the model predicts (relative to the output directory)."""
    files = {}
    for t in row["refs"]:
        cyc = t in row["sorted"]
        d = "conflictResolution" if cyc else "/".join(row["ns"][t])
        name = "".join(row["sortedNames"][t]) if gen == "v2" else "".join(row["nm"][t])
        files.setdefault(d + "/" + name + ".gr.go", []).append(t)
    return files


def run_graphs(scr, verdict, gen, binp, rows, repeats, compile_ids, stats, tag):
    mod = new_module(scr, gen, "mod-%s-%s" % (tag, gen))
    tmp = scr.sub("tmp-%s-%s" % (tag, gen))

    def one(i):
        row = rows[i]
        gid = graph_id(row)
        root = "verifharness/g%d" % i
        m = to_gen_format(gen, grammar.graph_manifest(row, root))
        mf = os.path.join(tmp, "m%d.json" % i)
        json.dump(m, open(mf, "w"))
        outs = []
        res = []
        keep = os.path.join(mod, "g%d" % i)
        for k in range(repeats(row)):
            out = keep if k == 0 else os.path.join(tmp, "o%d-%d" % (i, k))
            rc, log = generate(binp, gen, mf, out, root)
            if rc != 0:
                res.append(("C12/%s/graph/generator-failed/%s" % (gen, gid), "the generator failed on a well-formed schema set: " + log[-600:], None))
                break
            outs.append(digest(out))
            if k > 0:
                shutil.rmtree(out, ignore_errors=True)
        os.remove(mf)
        if len(outs) == repeats(row):
            exp = expected_layout(gen, row)
            clash = any(len(ts) > 1 for ts in exp.values())
            for k in range(1, len(outs)):
                if outs[k] != outs[0] and not clash:   # with clashing files, which definition survives is itself random: reported below
                    diff = sorted(set(outs[0].items()) ^ set(outs[k].items()))[:6]
                    res.append(("C12/%s/graph/nondeterministic/%s" % (gen, gid),
                                "two fresh generator processes produced different output for the same manifest: %s" % [d[0] for d in diff], None))
                    break
            got = sorted(f for f in outs[0] if f.endswith(".gr.go") and "/" in f)
            if got != sorted(exp):
                res.append(("C12/%s/graph/layout/%s" % (gen, gid),
                            "generated files %s, Registry.tla computes %s (flagged %s)" % (got, sorted(exp), row["sorted"]), None))
            for f, ts in exp.items():
                if len(ts) > 1:
                    kind = "override-clash" if gen == "v2" else "no-renaming"
                    res.append(("C12/%s/names/%s/%s" % (gen, kind, gid),
                                "types %s all generate %s: one definition overwrites the other (missing identifier; which one survives varies from run to run)" % (ts, f), None))
        if i not in compile_ids:
            shutil.rmtree(keep, ignore_errors=True)
        elif i % 16 != 0:
            # linking one main package per graph dominates the run time: keep the all-imports program in every 16th tree
            # only (the grammar trees always keep it)
            try:
                os.remove(os.path.join(keep, "all_imports_test.gr.go"))
            except OSError:
                pass
        return res

    with cf.ThreadPoolExecutor(16) as ex:
        for i, res in enumerate(ex.map(one, range(len(rows)))):
            stats["generator_runs"] += repeats(rows[i])
            for key, what, _ in res:
                verdict.add(key, what, dict(gen=gen, graph=rows[i]))
    # compile what was kept
    rc, out = go_build(mod)
    stats["packages_compiled"] += sum(1 for r, ds, fs in os.walk(mod) if any(f.endswith(".go") for f in fs))
    if rc != 0:
        bad = set(int(x) for x in re.findall(r"\bg(\d+)[/\s:]", out))
        if not bad:
            raise lib.Broken("go build of the generated graph packages failed in an unexpected way (%s): %s" % (gen, out[-2000:]))
        for i in sorted(bad):
            lines = [l for l in out.splitlines() if re.search(r"\bg%d[/\s:]" % i, l)]
            verdict.add("C12/%s/graph/does-not-compile/%s" % (gen, graph_id(rows[i])),
                        "generated packages do not compile: " + " ; ".join(lines[:4]), dict(gen=gen, graph=rows[i]))
    shutil.rmtree(mod, ignore_errors=True)
    shutil.rmtree(tmp, ignore_errors=True)


# ----------------------------------------------------------------------------------------------- grammar

USER_FILES = {"gr/notes.txt": "user notes\n", "gr/helper.go": "package gr\n\n// hand written\nfunc Helper() int { return 1 }\n", "README.md": "# mine\n"}


def run_grammar(scr, verdict, binp, rows, stats, tag, with_items, with_resources, gen="v2"):
    """Items and resources of SchemaGrammar.tla in one manifest, generated twice afresh and once more over the first
    output (regeneration), compiled and vetted.  The root generation has no custom typerefs by location (those items
    are left out there) and gets includes flattened the way its schema parser does (grammar.flatten_includes)."""
    tag0 = tag
    tag = tag if gen == "v2" else tag + "-root"
    mod = new_module(scr, gen, "mod-gram-" + tag)
    root = "verifharness/gen"
    if gen == "root":
        rows = [x for x in rows if not (x["kind"] == "item" and "custom" in x["e"])
                and not (x["kind"] == "resource" and x["key"] == "custom")]
    m = grammar.grammar_manifest(rows, root, with_items=with_items, with_resources=with_resources)
    if gen == "root":
        m["inputDataTypes"] = grammar.flatten_includes([t for t in m["inputDataTypes"] if list(t.values())[0]["name"] != "CT"])
    mf = os.path.join(scr.path, "grammar-%s.json" % tag)
    json.dump(m if gen == "v2" else {"dataTypes": m["inputDataTypes"], "Resources": m["resources"]}, open(mf, "w"))
    outs = []
    for k in range(2):
        out = os.path.join(mod, "gen") if k == 0 else os.path.join(scr.sub("gram2-" + tag), "gen")
        os.makedirs(os.path.join(out, "gr"), exist_ok=True)
        if gen == "v2":
            with open(os.path.join(out, grammar.CUSTOM_TYPEREF_FILE), "w") as f:
                f.write(grammar.CUSTOM_TYPEREF_SRC)
        if k == 0:
            for p, c in USER_FILES.items():
                with open(os.path.join(out, p), "w") as f:
                    f.write(c)
        rc, log = generate(binp, gen, mf, out, root)
        stats["generator_runs"] += 1
        if rc != 0:
            verdict.add("C12/%s/grammar/" % gen + "generator-failed/" + tag, "the generator failed on the grammar manifest: " + log[-1500:], dict(manifest=tag))
            return
        outs.append(digest(out))
    own = lambda d: {k: v for k, v in d.items() if k.endswith(".gr.go") or k.endswith(".gr.json")}
    if own(outs[0]) != own(outs[1]):
        diff = sorted(set(own(outs[0]).items()) ^ set(own(outs[1]).items()))[:8]
        verdict.add("C12/%s/grammar/" % gen + "nondeterministic/" + tag, "two fresh generator processes differ on: %s" % sorted(set(d[0] for d in diff)), dict(manifest=tag))
    # regeneration over the existing output: same generated files, foreign files untouched (C20's last clause)
    out = os.path.join(mod, "gen")
    rc, log = generate(binp, gen, mf, out, root)
    stats["generator_runs"] += 1
    again = digest(out)
    if rc != 0:
        verdict.add("C12/%s/regen/" % gen + "generator-failed/" + tag, "regenerating over an existing output failed: " + log[-1500:], dict(manifest=tag))
        return
    if own(again) != own(outs[0]):
        verdict.add("C12/%s/regen/" % gen + "differs/" + tag, "regenerating over an existing output gives different generated files", dict(manifest=tag))
    for p, c in list(USER_FILES.items()) + ([(grammar.CUSTOM_TYPEREF_FILE, grammar.CUSTOM_TYPEREF_SRC)] if gen == "v2" else []):
        if not os.path.exists(os.path.join(out, p)) or open(os.path.join(out, p)).read() != c:
            verdict.add("C12/%s/regen/" % gen + "foreign-file-touched/" + p, "the generator removed or changed %s, which it does not own" % p, dict(manifest=tag, file=p))
    stats["generated_files"] += len(own(again))
    # compile and type-check
    rc, bout = go_build(mod)
    stats["packages_compiled"] += sum(1 for r, ds, fs in os.walk(mod) if any(f.endswith(".go") for f in fs))
    if rc != 0:
        report_compile(verdict, gen, "grammar", bout, m, tag0)
    else:
        rc, vout = go_vet(mod)
        if rc != 0 and re.search(r"\.go:\d+:\d+: (?!.*(self-assignment|unreachable code|possible misuse))", vout):
            report_compile(verdict, gen, "grammar-vet", vout, m, tag0)
    shutil.rmtree(mod, ignore_errors=True)
    return m


INTERNAL_TYPEREF_FILE = "gr/_internal/time/IT.go"
INTERNAL_TYPEREF_SRC = '''package time

import "github.com/PapaCharlie/go-restli/v2/fnv1a"

// IT is a hand-written custom typeref over long, in a namespace with an `internal` component.
type IT struct{ N int64 }

func MarshalIT(i IT) (int64, error)   { return i.N, nil }
func UnmarshalIT(n int64) (IT, error) { return IT{N: n}, nil }
func EqualsIT(a, b IT) bool           { return a == b }
func ComputeHashIT(i IT) fnv1a.Hash {
	h := fnv1a.NewHash()
	h.AddInt64(i.N)
	return h
}
'''


def regen_layouts(scr, verdict, binp, prop, stats):
    """Regeneration in both output layouts (flat, and under the manifest's package root) with a hand-written custom
    typeref and user files beside the generated code: they survive byte for byte, no generated twin of the custom
    typeref appears, the second generation reproduces the first, and the result compiles."""
    for layout in ("flat", "package-root"):
        top = scr.sub("regen-%s-%s" % (prop.lower(), layout))
        moddir = os.path.join(top, "verifharness")
        os.makedirs(moddir)
        mod, ver, path = MODS["v2"]
        with open(os.path.join(moddir, "go.mod"), "w") as f:
            f.write("module verifharness\n\ngo 1.21\n\nrequire %s %s\n\nreplace %s => %s\n" % (mod, ver, mod, path))
        shutil.copy(os.path.join(path, "go.sum"), os.path.join(moddir, "go.sum"))
        root = "verifharness/gen"
        types = list(grammar.BASE_TYPES) + [grammar.record("UsesCT", [grammar.F("when", grammar.R("CT")), grammar.F("maybe", grammar.R("CT"), optional=True),
                                                                        grammar.F("many", {"array": grammar.R("CT")}, optional=True)])]
        # a second custom typeref whose namespace has an `internal` component: its package directory is gr/_internal/time
        # (the generator escapes the component), and that is where the hand-written file lives
        types += [grammar.named("typeref", "IT", ns="gr.internal.time", type="int64", isCustom=False),
                  # ... and a namespace whose LAST component is `internal` (Go forbids importing .../internal from outside its parent)
                  grammar.record("Hidden", [grammar.F("h", grammar.P("int32"), optional=True)], ns="gr.ext.internal"),
                  grammar.record("UsesIT", [grammar.F("at", grammar.R("IT", "gr.internal.time")), grammar.F("ats", {"map": grammar.R("IT", "gr.internal.time")}, optional=True),
                                            grammar.F("hid", grammar.R("Hidden", "gr.ext.internal"), optional=True)])]
        # two records that the REDUCED manifest of the third run no longer has: their files must disappear
        gone = [grammar.record("Zeta", [grammar.F("z", grammar.P("int32"))]), grammar.record("Omega", [grammar.F("o", grammar.P("string"), optional=True)], ns="gr.internal.time")]
        m = {"packageRoot": root, "inputDataTypes": types + gone, "dependencyDataTypes": [], "resources": []}
        mf = os.path.join(top, "manifest.json")
        json.dump(m, open(mf, "w"))
        mf_reduced = os.path.join(top, "manifest-reduced.json")
        json.dump(dict(m, inputDataTypes=types), open(mf_reduced, "w"))
        gendir = os.path.join(moddir, "gen")                       # where the generated code ends up in both layouts
        outarg, extra = (gendir, []) if layout == "flat" else (top, ["withPackageRoot"])
        os.makedirs(os.path.join(gendir, "gr"))
        foreign = dict(USER_FILES)
        foreign[grammar.CUSTOM_TYPEREF_FILE] = grammar.CUSTOM_TYPEREF_SRC
        foreign[INTERNAL_TYPEREF_FILE] = INTERNAL_TYPEREF_SRC
        for p, c in foreign.items():
            os.makedirs(os.path.dirname(os.path.join(gendir, p)), exist_ok=True)
            with open(os.path.join(gendir, p), "w") as f:
                f.write(c)
        runs = []
        for k in range(2):
            pr = subprocess.run([binp, mf, outarg] + extra, stdout=subprocess.PIPE, stderr=subprocess.STDOUT, text=True, errors="replace", timeout=600)
            stats["generator_runs"] += 1
            if pr.returncode != 0:
                verdict.add("%s/regen/%s/generator-failed" % (prop, layout), "generation %d failed: %s" % (k + 1, pr.stdout[-1200:]), dict(layout=layout))
                break
            runs.append(digest(gendir))
        if len(runs) < 2:
            continue
        own = lambda d: {k: v for k, v in d.items() if k.endswith(".gr.go") or k.endswith(".gr.json")}
        if own(runs[0]) != own(runs[1]):
            verdict.add("%s/regen/%s/differs" % (prop, layout), "regenerating over the previous output gives different generated files: %s" % sorted(
                set(x[0] for x in set(own(runs[0]).items()) ^ set(own(runs[1]).items())))[:6], dict(layout=layout))
        for p, c in foreign.items():
            fp = os.path.join(gendir, p)
            if not os.path.exists(fp) or open(fp).read() != c:
                verdict.add("%s/regen/%s/foreign-file-touched/%s" % (prop, layout, p), "the generator removed or changed %s, which it does not own" % p, dict(layout=layout, file=p))
        for twin in (grammar.CUSTOM_TYPEREF_FILE[:-3] + ".gr.go", INTERNAL_TYPEREF_FILE[:-3] + ".gr.go"):
            if twin in runs[1]:
                verdict.add("%s/regen/%s/custom-typeref-generated/%s" % (prop, layout, twin), "the hand-written custom typeref was not located: %s was generated beside it" % twin, dict(layout=layout))
        # third run, from the reduced manifest, over the existing output: the result equals a generation of the reduced
        # manifest into a fresh directory (nothing of the dropped types is left behind), foreign files still untouched
        pr = subprocess.run([binp, mf_reduced, outarg] + extra, stdout=subprocess.PIPE, stderr=subprocess.STDOUT, text=True, errors="replace", timeout=600)
        stats["generator_runs"] += 1
        if pr.returncode != 0:
            verdict.add("%s/regen/%s/generator-failed/reduced" % (prop, layout), "generation from the reduced manifest failed: %s" % pr.stdout[-1200:], dict(layout=layout))
        else:
            third = digest(gendir)
            ftop = scr.sub("regen-%s-%s-fresh" % (prop.lower(), layout))
            fgen = os.path.join(ftop, "verifharness", "gen")
            for p_, c in ((grammar.CUSTOM_TYPEREF_FILE, grammar.CUSTOM_TYPEREF_SRC), (INTERNAL_TYPEREF_FILE, INTERNAL_TYPEREF_SRC)):
                os.makedirs(os.path.dirname(os.path.join(fgen, p_)), exist_ok=True)
                with open(os.path.join(fgen, p_), "w") as f:
                    f.write(c)
            pf = subprocess.run([binp, mf_reduced, fgen if layout == "flat" else ftop] + extra, stdout=subprocess.PIPE, stderr=subprocess.STDOUT, text=True, errors="replace", timeout=600)
            stats["generator_runs"] += 1
            if pf.returncode == 0:
                fresh = digest(fgen)
                if own(third) != own(fresh):
                    stale = sorted(set(own(third)) - set(own(fresh)))
                    verdict.add("%s/regen/%s/stale-generated-files" % (prop, layout), "regenerating from a reduced manifest over the previous output differs from a fresh generation: left behind %s, differing %s" % (
                        stale[:6], sorted(k for k in own(fresh) if own(third).get(k) != own(fresh)[k])[:6]), dict(layout=layout))
            for p_, c in foreign.items():
                fp = os.path.join(gendir, p_)
                if not os.path.exists(fp) or open(fp).read() != c:
                    verdict.add("%s/regen/%s/foreign-file-touched/%s" % (prop, layout, p_), "the generator removed or changed %s, which it does not own" % p_, dict(layout=layout, file=p_))
            shutil.rmtree(ftop, ignore_errors=True)
        rc, out = go_build(moddir)
        if rc != 0:
            verdict.add("%s/regen/%s/does-not-compile" % (prop, layout), "the regenerated tree does not build: " + out[-800:], dict(layout=layout))
        shutil.rmtree(top, ignore_errors=True)


DEP_MAIN = '''package main

import (
	"fmt"
	"os"

	"github.com/PapaCharlie/go-restli/v2/restlicodec"
	"verifharness/gen/gr"
	"verifharness/gen2/dep"
)

func main() {
	defer func() {
		if r := recover(); r != nil {
			fmt.Println("PANIC:", r)
			os.Exit(3)
		}
	}()
	// generic use of the custom typeref (what clients do with keys and parameters): needs the registration the
	// generator emits beside the hand-written type
	w := restlicodec.NewCompactJsonWriter()
	if err := restlicodec.MarshalRestLi(gr.CT{V: "x"}, w); err != nil || w.Finalize() != `"x"` {
		fmt.Println("MISMATCH: generic marshal of the custom typeref:", err)
		os.Exit(4)
	}
	opt := gr.CT{V: "o"}
	v := dep.NewDepRecWithDefaultValues()
	v.C, v.Cs, v.Cm, v.Co, v.L = gr.CT{V: "a"}, []gr.CT{{V: "b"}, {V: "c"}}, map[string]gr.CT{"k": {V: "d"}}, &opt, gr.Leaf{A: 1}
	if v.Cd == nil || v.Cd.V != "dflt" {
		fmt.Println("MISMATCH: default of the custom typeref field:", v.Cd)
		os.Exit(4)
	}
	w = restlicodec.NewCompactJsonWriter()
	if err := v.MarshalRestLi(w); err != nil {
		fmt.Println("MISMATCH: marshal:", err)
		os.Exit(4)
	}
	doc := w.Finalize()
	r, _ := restlicodec.NewJsonReader([]byte(doc))
	back := new(dep.DepRec)
	if err := back.UnmarshalRestLi(r); err != nil || !back.Equals(v) || !back.ComputeHash().Equals(v.ComputeHash()) {
		fmt.Printf("MISMATCH: round trip of %s: error %v, equal %v, same hash %v; decoded %+v\\n", doc, err, back.Equals(v), back.ComputeHash().Equals(v.ComputeHash()), back)
		os.Exit(4)
	}
	fmt.Println("OK", doc)
}
'''


def run_dependent(scr, verdict, binp, stats):
    """Two package roots: gen/ holds the base types with the custom typeref gr.CT recognised BY LOCATION; gen2/ is
    generated afterwards from a manifest whose types refer to gen's, with the manifest the first run WROTE as dependency
    manifest (what --manifest-dependencies reads).  Everything must compile together, and a program using both runs."""
    mod = new_module(scr, "v2", "mod-dependent")
    out1, out2 = os.path.join(mod, "gen"), os.path.join(mod, "gen2")
    os.makedirs(os.path.join(out1, "gr"))
    with open(os.path.join(out1, grammar.CUSTOM_TYPEREF_FILE), "w") as f:
        f.write(grammar.CUSTOM_TYPEREF_SRC)
    m1 = {"packageRoot": "verifharness/gen", "inputDataTypes": list(grammar.BASE_TYPES), "dependencyDataTypes": [], "resources": []}
    mf1 = os.path.join(scr.path, "dependent-1.json")
    json.dump(m1, open(mf1, "w"))
    rc, log = generate(binp, "v2", mf1, out1, None)
    stats["generator_runs"] += 1
    if rc != 0:
        verdict.add("C12/v2/dependent/generator-failed/base", "the generator failed on the base manifest: " + log[-1500:], dict(manifest="dependent-1"))
        return
    R, P, F = grammar.R, grammar.P, grammar.F
    rec = grammar.record("DepRec", [F("c", R("CT")), F("cs", {"array": R("CT")}), F("cm", {"map": R("CT")}), F("co", R("CT"), optional=True),
                                    F("cd", R("CT"), default="\"dflt\""), F("l", R("Leaf")), F("col", R("Color"), optional=True),
                                    F("fx", R("F2"), optional=True), F("u", R("U"), optional=True), F("tr", R("Tr"), optional=True),
                                    F("ol", R("OLeaf", grammar.ONS), optional=True)], ns="dep")
    un = grammar.named("standaloneUnion", "DepU", ns="dep", Union={"HasNull": False, "Members": [
        {"Type": R("CT"), "Alias": "ct"}, {"Type": R("Leaf"), "Alias": "leaf"}]})
    res = grammar.resource([grammar.seg("depColl", "depCollId", R("CT"))], {"reference": {"name": "DepRec", "namespace": "dep"}},
                           [grammar.method("REST_METHOD", mm, onEntity=mm in grammar.ENTITY_METHODS) for mm in ("get", "batch_get", "update", "delete")]
                           + [grammar.method("ACTION", "withCt", params=[F("c", R("CT")), F("cs", {"array": R("CT")}, optional=True)], **{"return": R("CT")})])
    res["namespace"] = "dep.depColl"
    m2 = {"packageRoot": "verifharness/gen2", "inputDataTypes": [rec, un], "dependencyDataTypes": [], "resources": [res]}
    mf2 = os.path.join(scr.path, "dependent-2.json")
    json.dump(m2, open(mf2, "w"))
    written = os.path.join(out1, "go-restli-manifest.gr.json")
    p = subprocess.run([binp, mf2, out2, "dep=" + written], stdout=subprocess.PIPE, stderr=subprocess.STDOUT, text=True, errors="replace", timeout=600)
    stats["generator_runs"] += 1
    if p.returncode != 0:
        verdict.add("C12/v2/dependent/generator-failed/dependent", "the generator failed on a manifest that depends on another package root's written manifest: " + p.stdout[-1500:], dict(manifest="dependent-2"))
        return
    for d in (out1, out2):
        for r_, ds, fs in os.walk(d):
            for f in fs:
                if f.startswith("all_imports"):
                    os.chmod(os.path.join(r_, f), 0o644)
                    os.remove(os.path.join(r_, f))
    os.makedirs(os.path.join(mod, "prog"))
    with open(os.path.join(mod, "prog", "main.go"), "w") as f:
        f.write(DEP_MAIN)
    rc, bout = go_build(mod)
    stats["packages_compiled"] += 6
    if rc != 0:
        verdict.add("C12/v2/dependent/does-not-compile", "bindings generated against another package root's written manifest (custom typeref by location) do not compile: " + bout[-1500:], dict(manifest="dependent-2"))
        return
    p = lib.go_run(["go", "run", "./prog"], mod, timeout=600)
    if p.returncode != 0:
        verdict.add("C12/v2/dependent/program-fails", "a program using the custom typeref generically and through the dependent bindings fails: " + p.stdout[-800:], dict(manifest="dependent-2"))
    stats["dependent_programs_run"] = stats.get("dependent_programs_run", 0) + 1
    shutil.rmtree(mod, ignore_errors=True)


def report_compile(verdict, gen, what, out, m, tag):
    lib.no_space(out)
    """One violation per failing generated file (keyed by what the file is about, not by its index)."""
    by_file = {}
    for l in out.splitlines():
        mm = re.match(r"(?:\./)?(gen/\S+?\.go):(\d+):(\d+): (.*)", l.strip())
        if mm:
            by_file.setdefault(mm.group(1), []).append(mm.group(4))
    if not by_file:
        verdict.add("C12/%s/%s/does-not-compile/%s" % (gen, what, tag), "generated code does not build: " + out[-1500:], dict(manifest=tag))
        return
    # the Go package names of the manifest's namespaces (last component)
    pkgs = set()
    for t in (m or {}).get("inputDataTypes", []):
        for d in t.values():
            pkgs.add(d.get("namespace", "").split(".")[-1])
    for f, msgs in sorted(by_file.items()):
        # one root cause has a key of its own: an identifier of the generated method (e.g. the parameter `other` of Equals)
        # shadows the imported package of the same name, so `pkg.Type` inside that method is "not a type"
        real = [x for x in msgs if x != "too many errors"]
        shadowed = set(mm.group(1) for mm in (re.match(r"(\w+)\.\w+ is not a type$", x) for x in real) if mm)
        if shadowed and shadowed <= pkgs and all(re.match(r"(\w+)\.\w+ is not a type$", x) for x in real):
            for pk in sorted(shadowed):
                verdict.add("C12/%s/%s/package-name-shadowed/%s" % (gen, what, pk),
                            "%s: a type of package %s is referred to inside a generated method that has a local identifier of the same name: %s" % (f, pk, " ; ".join(msgs[:2])),
                            dict(manifest=tag, file=f, errors=msgs[:10]))
            continue
        verdict.add("C12/%s/%s/does-not-compile/%s" % (gen, what, describe(f, m)), "%s: %s" % (f, " ; ".join(msgs[:3])), dict(manifest=tag, file=f, errors=msgs[:10]))


def describe(f, m):
    """Stable description of a generated file: for a numbered resource the kind/key/methods it stands for."""
    mm = re.match(r"gen/gr/(r\d+)/", f)
    if mm:
        for r in m["resources"]:
            if r["resourcePathSegments"][-1]["resourceName"] == mm.group(1):
                seg = r["resourcePathSegments"]
                key = seg[-1]["pathKey"]
                kt = "none" if not key else json.dumps(key["type"], sort_keys=True)
                return "resource(%s;key=%s;methods=%s)/%s" % ("sub" if len(seg) > 1 else "top", kt, "+".join(
                    x["name"] + ("^" if x["returnEntity"] else "") + ("*" if x["isPagingSupported"] else "") for x in r["methods"]), os.path.basename(f))
    return f


# ----------------------------------------------------------------------------------------------- checked-in bindings

def run_checked_in(scr, verdict, v2bin, stats):
    # (1) v2/restlidata/generated from its own manifest
    chk = os.path.join(lib.REPO, "v2", "restlidata", "generated")
    out = scr.sub("regen-v2")
    rc, log = generate(v2bin, "v2", os.path.join(chk, "go-restli-manifest.gr.json"), out, None)
    if rc != 0:
        verdict.add("C12/v2/checked-in/generator-failed", "regenerating v2/restlidata/generated failed: " + log[-1500:], {})
    else:
        fresh, have = digest(out), digest(chk)
        for f in sorted(set(fresh) | set(k for k in have if k.endswith(".gr.go") or k.endswith(".gr.json"))):
            stats["checked_in_files"] += 1
            if fresh.get(f) != have.get(f):
                verdict.add("C12/v2/checked-in/differs/" + f, "v2/restlidata/generated/%s is not what the current generator produces from the checked-in manifest (%s)" % (
                    f, "missing in repository" if f not in have else "not generated" if f not in fresh else "bytes differ"), dict(file=f))
    # (2) the generators' own restlidata types: v2 PagingContext, root restlidata/*.gr.go, via the repository's own regeneration programs
    for gen, prog, rel, cwd_rel in (("v2", "internal/pagingcontext/main.go", "restlidata", "x"), ("root", "internal/restlidata/main.go", "restlidata", ".")):
        mod = new_module(scr, gen, "regen-prog-" + gen)
        src = os.path.join(MODS[gen][2], prog)
        shutil.copy(src, os.path.join(mod, "main.go"))
        p = lib.go_run(["go", "build", "-o", "regen.bin", "."], mod)
        if p.returncode != 0:
            raise lib.Broken("cannot build %s: %s" % (prog, p.stdout[-1500:]))
        wd = os.path.join(mod, "work", cwd_rel)
        os.makedirs(wd, exist_ok=True)
        p = subprocess.run([os.path.join(mod, "regen.bin")], cwd=wd, stdout=subprocess.PIPE, stderr=subprocess.STDOUT, text=True)
        if p.returncode != 0:
            verdict.add("C12/%s/checked-in/generator-failed/%s" % (gen, prog), "%s failed: %s" % (prog, p.stdout[-1000:]), {})
            continue
        fresh = {os.path.basename(k): v for k, v in digest(os.path.join(mod, "work")).items() if k.endswith(".gr.go")}
        have_dir = os.path.join(MODS[gen][2], rel)
        have = {f: hashlib.sha256(open(os.path.join(have_dir, f), "rb").read()).hexdigest() for f in os.listdir(have_dir) if f.endswith(".gr.go")}
        for f in sorted(set(fresh) | set(have)):
            stats["checked_in_files"] += 1
            if fresh.get(f) != have.get(f):
                verdict.add("C12/%s/checked-in/differs/%s" % (gen, f), "%s/%s is not what %s produces now (%s)" % (
                    rel, f, prog, "missing in repository" if f not in have else "not generated" if f not in fresh else "bytes differ"), dict(file=f))
        shutil.rmtree(mod, ignore_errors=True)


# ----------------------------------------------------------------------------------------------- driver

def run(tier, seed, replay):
    t0 = time.time()
    scr = lib.Scratch("c12")
    sdir = lib.spec_dir(scr)
    verdict = lib.Verdict(PROP)
    cov = dict(samples=[])
    rng = random.Random(seed)
    stats = dict(generator_runs=0, packages_compiled=0, generated_files=0, checked_in_files=0)
    tlc = {}
    # ---- model (the TLC runs are independent: run them side by side)
    fams = ["quick_shape", "quick_names", "quick_pkg"] + (["thorough_shape", "thorough_names"] if tier == "thorough" else [])
    legacy = (("legacy_order", "Confluent"), ("legacy_pkg", "ResultAcyclic"), ("nodup", "NoDuplicateNames"))
    gcfg = "quick" if tier == "quick" else "thorough"
    jobs = {c: ("MC_Registry.tla", "MC_Registry_%s.cfg" % c, False) for c in fams + ["anyorder"]}
    jobs.update({c: ("MC_Registry.tla", "MC_Registry_%s.cfg" % c, True) for c, _ in legacy})
    jobs["grammar"] = ("MC_SchemaGrammar.tla", "MC_SchemaGrammar_%s.cfg" % gcfg, False)

    def tlc_job(c):
        mod, cfg, expect = jobs[c]
        # all jobs read the one specification directory (copying it again would rewrite files other TLC processes are reading)
        return lib.run_tlc(sdir, mod, cfg, workers=4, timeout=3000, expect_violation=expect)

    with cf.ThreadPoolExecutor(len(jobs)) as ex:
        res = dict(zip(jobs, ex.map(tlc_job, jobs)))
    parse = lambda x: json.loads(json.loads(x) if x.startswith('"') else x)
    graphs = {}
    for c in fams:
        r = res[c]
        if not r.ok:
            raise lib.Broken("Registry.tla (%s): %s violated -- the model of the repaired generator does not satisfy its own properties" % (c, r.violated))
        tlc[c] = r.summary()
        for x in r.printed:
            row = parse(x)
            graphs.setdefault(graph_id(row), row)
    # the nondeterministic variant: which graphs depend on the iteration order (more repeats there)
    r = res["anyorder"]
    if not r.ok:
        raise lib.Broken("Registry.tla (anyorder): %s violated" % r.violated)
    tlc["anyorder"] = r.summary()
    results = {}
    for x in r.printed:
        row = parse(x)
        results.setdefault(graph_id(row), set()).add(tuple(sorted(row["cyclic"])))
    order_dependent = {k for k, v in results.items() if len(v) > 1}
    for k, v in results.items():
        if k in graphs and tuple(sorted(graphs[k]["sorted"])) not in v:
            raise lib.Broken("Registry.tla: the sorted run of %s is not a behaviour of the order-free algorithm" % k)
    # the legacy configurations must still be refuted by TLC (the model is able to see the defects)
    for c, inv in legacy:
        rr = res[c]
        if rr.ok or inv not in (rr.violated or ""):
            raise lib.Broken("Registry.tla (%s): TLC no longer refutes %s for the generator as it was" % (c, inv))
        tlc[c] = dict(refuted=inv)
    rows = [graphs[k] for k in sorted(graphs)]
    cov["tlc"] = tlc
    cov["states"] = sum(v.get("distinct_states", 0) for v in tlc.values())
    cov["transitions"] = sum(v.get("states_generated", 0) for v in tlc.values())
    cov["graphs"] = len(rows)
    cov["order_dependent_graphs"] = len(order_dependent)
    cov["samples"].append(rows[len(rows) // 2])
    # ---- grammar
    r = res["grammar"]
    if not r.ok:
        raise lib.Broken("SchemaGrammar.tla: %s" % r.violated)
    tlc["grammar"] = r.summary()
    grows = [json.loads(json.loads(x) if x.startswith('"') else x) for x in r.printed]
    cov["grammar_items"] = sum(1 for x in grows if x["kind"] == "item")
    cov["grammar_resources"] = sum(1 for x in grows if x["kind"] == "resource")
    cov["samples"].append(grows[0])
    # ---- code
    phases = {"model": round(time.time() - t0, 1)}
    t1 = time.time()
    bins = {"v2": lib.go_module(scr, "gen", "v2"), "root": lib.go_module(scr, "genroot", "root")}
    for gen in ("v2", "root"):
        reps = lambda row: (8 if graph_id(row) in order_dependent else 3) if tier == "quick" else (6 if graph_id(row) in order_dependent else 2)
        if len(rows) > 1200:
            compile_ids = set(rng.sample(range(len(rows)), 1000))
            compile_ids |= {i for i, row in enumerate(rows) if not row["acyclic"]}
        else:
            compile_ids = set(range(len(rows)))
        run_graphs(scr, verdict, gen, bins[gen], rows, reps, compile_ids, stats, "graphs")
        phases["graphs-" + gen] = round(time.time() - t1, 1)
        t1 = time.time()
    run_grammar(scr, verdict, bins["v2"], grows, stats, "types", True, False)
    phases["grammar-types"] = round(time.time() - t1, 1)
    t1 = time.time()
    run_grammar(scr, verdict, bins["v2"], grows, stats, "resources", False, True)
    phases["grammar-resources"] = round(time.time() - t1, 1)
    t1 = time.time()
    run_grammar(scr, verdict, bins["root"], grows, stats, "types", True, False, gen="root")
    run_grammar(scr, verdict, bins["root"], grows, stats, "resources", False, True, gen="root")
    phases["grammar-root"] = round(time.time() - t1, 1)
    t1 = time.time()
    run_checked_in(scr, verdict, bins["v2"], stats)
    regen_layouts(scr, verdict, bins["v2"], "C12", stats)
    run_dependent(scr, verdict, bins["v2"], stats)
    phases["checked-in"] = round(time.time() - t1, 1)
    cov["phase_s"] = phases
    cov.update(stats)
    cov["evaluations"] = stats["generator_runs"]
    cov["distinct_nontrivial"] = len(rows) + len(grows)
    cov["traces_validated_against_impl"] = 0
    cov["model_outcomes_replayed_into_impl"] = len(rows) * 2 + len(grows)
    cov["rule"] = ("one case = one schema set: a reference graph of Registry.tla (every graph over 3 [thorough: 4] types and the namespace partitions, plus rings of "
                   "clashing names) or one (type expression, mode, position) / (resource kind, key type, method set) item of SchemaGrammar.tla; each generated in "
                   "several fresh processes of the working tree's generator, compared byte-wise and with the model's layout, and compiled")
    cov["exhaustive"] = True
    code, nv = verdict.finish()
    if replay:
        return code
    lib.write_evidence(PROP, tier, seed, cov, [
        "manifests are written directly in the generators' JSON input format; the Java spec parser (jar) is not exercised",
        "root module: same grammar minus includes and custom typerefs (the root generation predates both)",
        "type expressions up to nesting depth %d; records of up to 24 fields; one representative named type per kind" % (1 if tier == "quick" else 2),
        "behavioural equivalence of the checked-in bindings is decided by byte identity of regenerated files (stronger than API/encoding equivalence)",
    ], time.time() - t0, nv)
    return code
