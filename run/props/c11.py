"""C11 - schema validity constraints are enforced when encoding and when decoding."""
import json, os, time
import lib
from props import codec_common

PROP = "C11"


def run(tier, seed, replay):
    t0 = time.time()
    scr = lib.Scratch("c11")
    sdir = lib.spec_dir(scr)
    verdict = lib.Verdict(PROP)
    cov = dict(samples=[])
    r = lib.run_tlc(sdir, "MC_Patch.tla", "MC_Patch.cfg", workers=8, timeout=1800)
    if not r.ok:
        raise lib.Broken("Patch.tla: %s violated -- the specification itself is wrong" % r.violated)
    rows = sorted(set(json.loads(x) for x in r.printed))
    rf = os.path.join(scr.path, "c11.ndjson")
    with open(rf, "w") as f:
        for x in rows:
            f.write(x + "\n")
    r2, vrows, vf, resf = codec_common.export_values(scr, sdir)
    cov["tlc"] = r.summary()
    cov["states"] = r.distinct
    cov["transitions"] = r.generated
    cov["cases_exported"] = len(rows)
    cov["samples"].append(json.loads([x for x in rows if '"union"' in x][3]))
    totals = {}
    for gen, binp, moddir, rekey in codec_common.codec_bins(scr, PROP):     # bindings from both generators
        code, out, err, wall = lib.run_bin(binp, ["-mode", "c11", "-in", rf, "-reserved", resf, "-seed", str(seed)], timeout=3000, cwd=moddir)
        if code != 0:
            raise lib.Broken("codec harness (c11, %s) failed: %s" % (gen, err[-3000:]))
        for line in out.splitlines():
            o = json.loads(line)
            if o["kind"] == "violation":
                verdict.add(rekey(o["key"]), ("" if gen == "v2" else "[root generation] ") + o["what"], dict(o["case"], gen=gen))
            elif o["kind"] == "stats":
                for k, v in o["stats"].items():
                    totals[k] = totals.get(k, 0) + v
                for k, v in o["violation_counts"].items():
                    for vv in verdict.violations:
                        if vv["key"] == rekey(k):
                            vv["count"] = v
    cov["generations"] = ["v2", "root"]
    cov.update(totals)
    cov["traces_validated_against_impl"] = 0
    cov["evaluations"] = sum(totals.values())
    cov["distinct_nontrivial"] = len(rows)
    cov["rule"] = "one case = a partial update of Ent / Leaf with one combination of {delete, set, nested patch} per field (nested to depth 1) under one of 5 exclusion sets; or a union with one subset of members set; or an enum ordinal in -1..n+1 (plus known / unknown symbol strings); or a fixed of length 0..size+1; each encoded and its equivalent document decoded"
    cov["exhaustive"] = True
    code, nv = verdict.finish()
    lib.write_evidence(PROP, tier, seed, cov, [
        "setting a whole record field one of whose sub-fields is excluded: unspecified for the ENCODER (refuse, or drop the sub-field) and not judged there; the DOCUMENT is illegal iff the value carries the sub-field, and decoder and server are judged on that",
        "deleting a required field can only be expressed in a document (the generated struct has no slot for it): covered on the decode side by the C06/C07 harness documents",
    ], time.time() - t0, nv)
    return code
