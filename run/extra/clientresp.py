#!/usr/bin/env python3
"""Beyond the listed properties: ClientResp.tla (what the client makes of any HTTP response) model-checked by TLC and its
whole table replayed on the real client of both module generations.  Not a MANIFEST check; writes extra/clientresp.json.

  python3 run/extra/clientresp.py
"""
import json, os, sys, time
sys.path.insert(0, os.path.join(os.path.dirname(os.path.abspath(__file__)), ".."))
import lib


def main():
    t0 = time.time()
    scr = lib.Scratch("clientresp")
    sdir = lib.spec_dir(scr)
    r = lib.run_tlc(sdir, "MC_ClientResp.tla", "MC_ClientResp.cfg", workers=4, timeout=600)
    if not r.ok:
        print("ClientResp.tla: %s violated -- the declarative and the operational layer disagree" % r.violated)
        return 2
    rows = sorted(set(json.loads(x) for x in r.printed))
    rf = os.path.join(scr.path, "rows.ndjson")
    with open(rf, "w") as f:
        for x in rows:
            f.write(x + "\n")
    result = dict(tlc=r.summary(), rows=len(rows), generations={})
    code = 0
    for gen in ("v2", "root"):
        binp = lib.go_module(scr, "clientresp", gen)
        rc, out, err, wall = lib.run_bin(binp, ["-in", rf], timeout=1200)
        if rc != 0:
            print("harness failed (%s): %s" % (gen, err[-2000:]))
            return 2
        g = dict(disagreements=[])
        for line in out.splitlines():
            o = json.loads(line)
            if o["kind"] == "violation":
                g["disagreements"].append(dict(key=o["key"], what=o["what"]))
            else:
                g.update(rows=o["rows"], n_disagreements=o["disagreements"])
        result["generations"][gen] = g
        if g.get("n_disagreements"):
            code = 1
            for d in g["disagreements"][:10]:
                print("DISAGREEMENT (%s) %s: %s" % (gen, d["key"], d["what"][:400]))
    result["wall_s"] = round(time.time() - t0, 1)
    os.makedirs(os.path.join(lib.VERIF, "extra"), exist_ok=True)
    json.dump(result, open(os.path.join(lib.VERIF, "extra", "clientresp.json"), "w"), indent=1)
    print("clientresp: %d rows, disagreements: %s" % (len(rows), {g: v.get("n_disagreements") for g, v in result["generations"].items()}))
    return code


if __name__ == "__main__":
    sys.exit(main())
