#!/usr/bin/env python3
"""Beyond the listed properties: d2.TreeCache (the ZooKeeper mirror that produces the events C19 starts from).

  python3 run/extra/treecache.py [--tier quick|thorough]

1. TLC on TreeCache.tla (the cache's loop, watch channels and forwarder goroutines, step by step, against an
   environment that changes the tree between any two reads): NoInvention always; Converges under prompt goroutine
   scheduling (EagerWake) and for <= 4 operations without it; the configuration in which TLC REFUTES Converges (a
   forwarder goroutine delayed across several round trips) is kept as a documented model-level observation.
2. The real TreeCache, through the real go-zookeeper client, against an in-process ZooKeeper server: random
   create / set / delete histories; the trace recorded at the server is validated by TLC against the contract
   (Trace_TreeCache.tla).  A rejected execution is reported (exit 1): it would be a divergence of the real code.
Writes extra/treecache.json.  Not a MANIFEST check: the 20 listed properties start from the event stream.
"""
import argparse, json, os, sys, time
sys.path.insert(0, os.path.join(os.path.dirname(os.path.abspath(__file__)), ".."))
import lib


def main():
    ap = argparse.ArgumentParser()
    ap.add_argument("--tier", default="quick")
    a = ap.parse_args()
    seed = int(os.environ.get("VERIF_SEED", "1") or 1)
    t0 = time.time()
    scr = lib.Scratch("treecache")
    sdir = lib.spec_dir(scr)
    out = dict(tier=a.tier, seed=seed, tlc={})
    try:
        cfgs = [("quick", None), ("placeholder", None), ("legacy_placeholder", "Converges")]
        if a.tier == "thorough":
            cfgs += [("deep", None), ("legacy_deep", "Converges"), ("eager", None)]
        for cfg, expect in cfgs:
            r = lib.run_tlc(sdir, "MC_TreeCache.tla", "MC_TreeCache_%s.cfg" % cfg, workers=12, timeout=3000, expect_violation=expect is not None)
            if expect is None and not r.ok:
                raise lib.Broken("TreeCache.tla (%s): %s violated" % (cfg, r.violated))
            if expect is not None and (r.ok or expect not in (r.violated or "")):
                raise lib.Broken("TreeCache.tla (%s): TLC no longer refutes %s" % (cfg, expect))
            out["tlc"][cfg] = r.summary() if expect is None else dict(refuted=expect, states_generated=r.generated)
        binp = lib.go_module(scr, "treecache", "v2")
        trf = os.path.join(scr.path, "tc.ndjson")
        runs, ops = (20, 12) if a.tier == "quick" else (150, 30)
        evs, stats = [], {}
        for procs in (2, 4, 16):      # which goroutine of a burst of notified watchers reaches the loop first depends on the scheduler
            code, o, err, wall = lib.run_bin(binp, ["-seed", str(seed + procs), "-runs", str(runs), "-ops", str(ops), "-procs", str(procs), "-trace", trf], timeout=3000)
            if code != 0:
                raise lib.Broken("treecache harness failed: %s" % err[-2000:])
            for k, v in [json.loads(x) for x in o.splitlines() if x.startswith("{")][-1]["stats"].items():
                stats[k] = stats.get(k, 0) + v
            part = lib.read_ndjson(trf)
            for e in part:
                e["procs"] = procs
            evs += part
        n_ok, rejected, nst = lib.validate_traces(sdir, "Trace_TreeCache.tla", "Trace_TreeCache.cfg", evs, max_rounds=40)
        out.update(harness=stats, events=len(evs), executions_accepted=n_ok, executions_rejected=len(rejected), trace_states=nst)
        for rj in rejected:
            print("TREECACHE-DIVERGENCE: execution rejected by Trace_TreeCache.tla at line %d: %s" % (rj["line"], json.dumps(rj["event"])))
            p = os.path.join(lib.VERIF, "extra", "treecache-rejected-p%d-run%d.ndjson" % (rj["events"][0].get("procs", 0), rj["events"][0].get("run", 0)))
            lib.write_ndjson(p, rj["events"])
        out["wall_s"] = round(time.time() - t0, 1)
        json.dump(out, open(os.path.join(lib.VERIF, "extra", "treecache.json"), "w"), indent=1)
        print("treecache %s: %d executions accepted, %d rejected, %d events in %.0fs" % (a.tier, n_ok, len(rejected), len(evs), time.time() - t0))
        return 1 if rejected else 0
    except lib.Broken as e:
        print("CHECK-BROKEN treecache: %s" % e, file=sys.stderr)
        return 2


if __name__ == "__main__":
    sys.exit(main())
