#!/usr/bin/env python3
"""Vacuity audit of the dynamic (behaviour-shaped) models: every exhaustive configuration of a model with named
actions is run once more with `-coverage 1`, and the per-action counts are read back.  An action of the next-state
relation that TLC never took in a configuration means the properties checked there were never exercised against it.

  python3 run/extra/vacuity.py

Exit 0 when every action of every audited configuration was taken at least once (or is listed in EXPECTED_IDLE with
the reason); exit 1 and a line `VACUOUS: <cfg> <action>` otherwise.  Writes extra/vacuity.json.  Not a MANIFEST check:
it decides nothing about the code, it keeps the specifications honest.
"""
import json, os, sys, time
sys.path.insert(0, os.path.join(os.path.dirname(os.path.abspath(__file__)), ".."))
import lib

# (module, cfg, expect_violation)
CONFIGS = [
    ("MC_LazyMap.tla", "MC_LazyMap_quick.cfg"),
    ("MC_LazyMap.tla", "MC_LazyMap_3x1.cfg"),
    ("MC_D2.tla", "MC_D2_quick.cfg"),
    ("MC_CleanDir.tla", "MC_CleanDir_quick.cfg"),
    ("MC_CleanDir.tla", "MC_CleanDir_links.cfg"),
    ("MC_TreeCache.tla", "MC_TreeCache_quick.cfg"),
    ("MC_Tunnel.tla", "MC_Tunnel_quick.cfg"),
    ("MC_Batch.tla", "MC_Batch.cfg"),
    ("MC_Call.tla", "MC_Call.cfg"),
    ("MC_Server.tla", "MC_Server.cfg"),
    ("MC_Filters.tla", "MC_Filters.cfg"),
    ("MC_Reader.tla", "MC_Reader.cfg"),
    ("MC_Writer.tla", "MC_Writer.cfg"),
]

# actions that are legitimately idle in one configuration: "cfg:action" -> reason
EXPECTED_IDLE = {}


def main():
    t0 = time.time()
    scr = lib.Scratch("vacuity")
    sdir = lib.spec_dir(scr)
    out, bad = {}, []
    try:
        for mod, cfg in CONFIGS:
            try:
                r = lib.run_tlc(sdir, mod, cfg, workers=12, timeout=900, coverage=True)
            except lib.Broken as e:
                out[cfg] = dict(error=str(e)[:400])
                print("SKIPPED %s: %s" % (cfg, str(e).splitlines()[0][:200]))
                continue
            idle = sorted(a for a, n in r.coverage.items() if n == 0)
            out[cfg] = dict(distinct=r.distinct, generated=r.generated, actions=r.coverage, idle=idle)
            print("%-28s distinct=%-9s actions=%d idle=%s" % (cfg, r.distinct, len(r.coverage), idle))
            for a in idle:
                if "%s:%s" % (cfg, a) not in EXPECTED_IDLE:
                    bad.append((cfg, a))
        out["wall_s"] = round(time.time() - t0, 1)
        out["expected_idle"] = EXPECTED_IDLE
        json.dump(out, open(os.path.join(lib.VERIF, "extra", "vacuity.json"), "w"), indent=1, sort_keys=True)
    finally:
        scr.cleanup()
    for cfg, a in bad:
        print("VACUOUS: %s %s" % (cfg, a))
    return 1 if bad else 0


if __name__ == "__main__":
    sys.exit(main())
